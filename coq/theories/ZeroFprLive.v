(* ZeroFprLive.v — LIVENESS of the whole-loop ZeroFPR model (ZeroFpr.v) over R: for EVERY direction-provider oracle, under a global
   quadratic upper bound on ψ (constant Lf <= L_max), ψ bounded below on C, coherent problem oracles, tolerance factors 0 and no stop
   request / time-out, the run returns Converged after at most N iterations, N explicit.  Port of PanocLive.v (theorem panoc_live):
   the problem-level notions (facts, good, the constants Lbar gam0 gam_min cmin tol delta dec Phi0 and their lemmas) are re-used from
   PanocLive.v; what depends on the loop model (line-search invariant, pass shapes, loop, initialisation) is redone for ZeroFpr.v. *)
From Coq Require Import Reals List ZArith Lra Lia Bool Arith Psatz.
From Flocq Require Import Raux.
From Alpaqa Require Import Num NumR Vec Prox ProxProofs ProxVec SolverStatus SolverKernels SolverKernelsProofs DescentProofs
                           StopChain StopChainProofs LoopSkeleton KktProofs Panoc PanocProofs LiveVec PanocLive ZeroFpr ZeroFprProofs.
Import ListNotations.
Local Open Scope R_scope.

Lemma zerofpr_candidate_length (τ : R) (xh q : list R) n :
  length xh = n -> length q = n -> length (zerofpr_candidate τ xh q) = n.
Proof.
  intros Hx Hq. unfold zerofpr_candidate. destruct (neqb τ n1); [now apply vadd_length|].
  apply vadd_length; [assumption|now rewrite vscale_length].
Qed.

Section Live.
  (* ---- the outside world (oracles) *)
  Variable psi_grad_full : list R -> R * list R * list R.
  Variable psi_yhat : list R -> R * list R.
  Variable grad_L : list R -> list R -> list R.
  Variable grad_psi : list R -> list R.
  Variables (lb ub : list (option R)).
  Variable dir_apply : nat -> iterate (T:=R) -> proxit (T:=R) -> option (list R).      (* ARBITRARY *)
  Variable has_initial : bool.
  Variable P : params (T:=R).
  Variables (x_in y_in Σ errz_in : list R).
  Variable ls_fuel : nat.

  Notation l1 := (@nil R).
  Notation never := (fun _ : counters => false).
  (* lemmas of ZeroFprProofs / of PanocProofs (the latter with a dummy PANOC-typed direction oracle) *)
  Notation ZP f := (f psi_grad_full psi_yhat grad_L grad_psi lb ub l1 dir_apply has_initial never never P x_in y_in Σ errz_in ls_fuel).
  Notation dummy_dir := (fun (_ : nat) (_ : iterate (T:=R)) => @None (list R)).
  Notation PP f := (f psi_grad_full psi_yhat grad_L grad_psi lb ub l1 dummy_dir has_initial never never P x_in y_in Σ errz_in ls_fuel).
  (* lemmas of PanocLive with the dummy PANOC arguments *)
  Notation PL f := (f psi_grad_full psi_yhat grad_L grad_psi lb ub dummy_dir has_initial P x_in y_in Σ errz_in ls_fuel).

  Notation it := (iterate (T:=R)).
  Notation eprox := (eval_prox lb ub l1).
  Notation ecost := (eval_cost psi_yhat).
  Notation proxof := (eval_prox_it grad_L lb ub l1).
  Notation lsloop := (ls_loop psi_grad_full psi_yhat lb ub l1 never P).
  Notation pass_ := (pass psi_grad_full psi_yhat grad_L lb ub l1 dir_apply has_initial never never P x_in y_in Σ errz_in ls_fuel).
  Notation loop_ := (loop psi_grad_full psi_yhat grad_L lb ub l1 dir_apply has_initial never never P x_in y_in Σ errz_in ls_fuel).
  Notation zerofpr_ := (zerofpr psi_grad_full psi_yhat grad_L grad_psi lb ub l1 dir_apply has_initial never never P x_in y_in Σ errz_in ls_fuel).
  Notation pgrad := (psi_grad psi_grad_full).
  Notation qubv := (it_qub_violated P).
  Notation zeps i := (zit_eps lb ub l1 P i (proxof i)).
  Notation Consistent := (zconsistent psi_grad_full psi_yhat grad_L lb ub l1).
  Notation Cons_x := (zcons_x psi_grad_full psi_yhat grad_L).
  Notation Glrel0 := (glrel0 psi_grad_full grad_psi P x_in).
  Notation Qub_ok := (qub_ok P).
  Notation Linit := (L_init psi_grad_full grad_psi P x_in).
  Notation Inv_ := (Inv psi_grad_full psi_yhat grad_L grad_psi lb ub l1 P x_in).

  (* ---- the problem: ψ and ∇ψ as mathematical functions the oracles are coherent with *)
  Variables (ψ : list R -> R) (g : list R -> list R) (n : nat) (Lf ψinf : R).
  Hypothesis Hpsi : forall x, pgrad x = (ψ x, g x).
  Hypothesis Hco : zcoherent psi_grad_full psi_yhat grad_L.
  Hypothesis Hglen : forall x, length x = n -> length (g x) = n.
  (* global quadratic upper bound (descent lemma), written with the displacement d = v - u *)
  Hypothesis Hqub : forall u d, length u = n -> length d = n ->
    ψ (vadd u d) <= ψ u + vdot (g u) d + Lf / 2 * vsqnorm d.
  Hypothesis Hinf : forall z, all_in_box lb ub z -> ψinf <= ψ z.
  Hypothesis Hlb : length lb = n.
  Hypothesis Hub : length ub = n.
  Hypothesis Hne : Forall2 box_ne lb ub.
  Hypothesis Hxin : length x_in = n.
  (* the direction provider returns vectors of the problem's dimension (its VALUES are arbitrary) *)
  Hypothesis Hdir : forall j i px q, dir_apply j i px = Some q -> length q = n.

  (* ---- parameters *)
  Hypothesis HLg : 0 < p_Lgamma P < 1.
  Hypothesis HL0 : 0 < Linit.
  Hypothesis HLmax : Lf <= p_Lmax P.
  Hypothesis Hqt : p_qub_tol P = 0.
  Hypothesis Hlt : p_ls_tol P = 0.
  Hypothesis Hbeta : 0 < p_beta P <= 1.
  Hypothesis Hforce : p_force_ls P = false.
  Hypothesis Hcrit : p_crit P = ProjGradNorm \/ p_crit P = ProjGradNorm2 \/ p_crit P = FPRNorm \/ p_crit P = FPRNorm2.

  (* the constants of PanocLive.v *)
  Notation Lbar := (Lbar psi_grad_full grad_psi P x_in Lf).
  Notation gam0 := (gam0 psi_grad_full grad_psi P x_in).
  Notation gam_min := (gam_min psi_grad_full grad_psi P x_in Lf).
  Notation cmin := (cmin psi_grad_full grad_psi P x_in).
  Notation tol := (tol P).
  Notation delta := (delta psi_grad_full grad_psi P x_in Lf).
  Notation dec := (dec psi_grad_full grad_psi P x_in Lf).
  Notation Phi0 := (Phi0 psi_grad_full grad_psi lb ub P x_in ψ g Lf).
  Notation facts := (facts lb ub ψ g n).
  Notation good := (good psi_grad_full grad_psi lb ub P x_in ψ g n Lf).

  Lemma Lbar_pos : 0 < Lbar. Proof. now apply Lbar_pos. Qed.
  Lemma gam0_pos : 0 < gam0. Proof. now apply gam0_pos. Qed.
  Lemma gam_min_pos : 0 < gam_min. Proof. now apply gam_min_pos. Qed.
  Lemma cmin_pos : 0 < cmin. Proof. now apply cmin_pos. Qed.
  Lemma tol_pos : 0 < tol. Proof. apply tol_pos. Qed.
  Lemma delta_pos : 0 < delta. Proof. now apply delta_pos. Qed.
  Lemma dec_pos : 0 < dec. Proof. now apply dec_pos. Qed.
  Lemma Lbar_ge_2Lf : 2 * Lf <= Lbar. Proof. unfold PanocLive.Lbar. apply Rmax_r. Qed.
  Lemma Lbar_ge_Linit : Linit <= Lbar. Proof. unfold PanocLive.Lbar. apply Rmax_l. Qed.

  (* ------------------------------------------------------------------ what a consistent iterate of the right length is *)
  Lemma consistent_facts (i : it) : Consistent i -> length (ix i) = n -> facts i.
  Proof.
    intros Hc Hl.
    destruct (ZP zconsistent_coherent i Hco Hc) as [E1 _]. rewrite Hpsi in E1. inversion E1 as [[Ep Eg]].
    destruct (ZP zconsistent_explicit i Hc) as (X1 & X2 & X3 & X4 & X5 & _).
    cbn [eval_prox_grad_step] in X2. rewrite Eg in X2.
    pose proof (proj_grad_step_length lb ub (igam i) (ix i) (g (ix i)) n Hlb Hub Hl (Hglen _ Hl)) as [L1 L2].
    rewrite X2 in L1, L2. cbn [fst snd] in L1, L2.
    constructor; try assumption.
    - pose proof (Hco (ixh i)) as E. rewrite Hpsi, <- X5 in E. cbn [fst snd] in E. inversion E. reflexivity.
    - rewrite X4, Eg. apply (PP vdot_comm).
    - pose proof (f_equal snd X2) as Hh. unfold proj_grad_step in Hh. cbn [snd] in Hh. now symmetry.
    - pose proof (PP proj_step_all_in_box (igam i) lb ub (ix i) (g (ix i)) ltac:(lia) ltac:(lia) ltac:(rewrite Hglen; lia) Hne) as Hb.
      rewrite X2 in Hb. exact Hb.
  Qed.

  (* ---- the problem-level lemmas of PanocLive.v, at this section's variables *)
  Lemma fbe_facts (i : it) : facts i -> it_fbe i = ψ (ix i) + ipp i / (2 * igam i) + igp i.
  Proof. apply fbe_facts. Qed.
  Lemma qub_violated_small_L (i : it) : facts i -> length (ix i) = n -> qubv i = true -> iL i < Lf.
  Proof. now apply qub_violated_small_L. Qed.
  Lemma fbe_lower (i : it) : facts i -> qubv i = false -> 0 < igam i -> igam i * iL i = p_Lgamma P -> ψinf <= it_fbe i.
  Proof. now apply fbe_lower. Qed.
  Lemma fbe_mono (a b : it) : facts a -> facts b -> ix a = ix b -> length (ix a) = n -> 0 < igam b <= igam a -> it_fbe a <= it_fbe b.
  Proof. now apply (fbe_mono lb ub x_in ψ g n). Qed.
  Lemma good_facts i : good i -> facts i.
  Proof. apply good_facts. Qed.
  Lemma good_nv i : good i -> qubv i = false.
  Proof. now apply good_nv. Qed.
  Lemma good_gam i : good i -> 0 < igam i /\ igam i * iL i = p_Lgamma P /\ igam i <= gam0 /\ gam_min <= igam i.
  Proof. now apply (PL good_gam). Qed.
  Lemma cmin_le i : good i -> cmin <= p_beta P * (1 - igam i * iL i) / (2 * igam i).
  Proof. now apply (PL cmin_le). Qed.
  Lemma safe_descent (a b : it) : good a -> facts b -> ix b = ixh a -> 0 < igam b ->
    it_fbe b <= it_fbe a - (1 - igam a * iL a) / (2 * igam a) * ipp a.
  Proof. now apply (PL safe_descent). Qed.

  (* ------------------------------------------------------------------ line search: L stays below max(L_init, 2 Lf) *)
  Notation LsI_ := (LsI psi_grad_full psi_yhat grad_L).
  Notation LsPost_ := (LsPost psi_grad_full psi_yhat grad_L lb ub l1 P).

  Record LsI2 (c0 : it) (τi : R) (s : ls_state (T:=R)) : Prop := {
    l2_I : LsI_ c0 s;
    l2_L : iL (ls_next s) <= Lbar;
    l2_len : ls_tau s = ls_tau_prev s -> length (ix (ls_next s)) = n;
    l2_tau : τi = 0 -> ls_tau s = 0;
    l2_nonneg : 0 <= ls_tau s }.

  Lemma ls_invariant2 c0 q τi : Consistent c0 -> length (ix c0) = n -> iL c0 <= Lbar -> (τi <> 0 -> length q = n) -> 0 <= τi ->
    forall fuel s, LsI2 c0 τi s ->
    match lsloop fuel c0 (proxof c0) q τi s with
    | LsDone s' => LsPost_ c0 s' /\ iL (ls_next s') <= Lbar /\ length (ix (ls_next s')) = n /\ 0 <= ls_tau s'
    | LsStopped s' => False
    | LsFuel => True
    end.
  Proof.
    intros Hc0 Hl0 HL0' Hq Hτi.
    pose proof (consistent_facts c0 Hc0 Hl0) as F0.
    induction fuel as [|fuel IH]; intros s [HI HL2 Hlen2 Htau2 Hnn]; [exact I|].
    cbn [ls_loop].
    change (@nltb R NumR) with Rlt_bool. change (@neqb R NumR) with Req_bool. change (@nleb R NumR) with Rle_bool.
    change (@n0 R NumR) with 0. change (@n1 R NumR) with 1. change (@ndiv R NumR) with Rdiv. change (@n2 R NumR) with (1 + 1).
    set (τ := ls_tau s) in *.
    set (ph := if Req_bool τ (ls_tau_prev s) then (ls_next s, inc_polls (ls_cnt s))
               else if Req_bool τ 0 then (take_safe_step c0 (proxof c0) (ls_next s), inc_polls (ls_cnt s))
               else (take_accel_step psi_grad_full τ q c0 (ls_next s), inc_pg (inc_polls (ls_cnt s)))).
    assert (F : halved c0 (fst ph) /\ Cons_x (fst ph) /\ (τ = 0 -> safe_of c0 (fst ph)) /\
                iL (fst ph) <= Lbar /\ length (ix (fst ph)) = n).
    { subst ph. destruct HI as [Hgl HJ]. destruct (Req_bool_spec τ (ls_tau_prev s)) as [Et|Et].
      - cbn [fst]. destruct (HJ Et) as [Hx Hs]. split; [exact Hgl|]. split; [exact Hx|]. split; [exact Hs|]. split; [exact HL2|exact (Hlen2 Et)].
      - destruct (Req_bool_spec τ 0) as [E0|E0]; cbn [fst].
        + split; [destruct Hgl as [j Ej]; exists j; exact Ej|]. split.
          { unfold zcons_x, zval_x, take_safe_step, eval_prox_it, prox_step_in_prox. cbn [ix ipsi igrad px_grad]. right.
            destruct Hc0 as (_ & _ & Hh). unfold zcons_hat in Hh. rewrite <- Hh. cbn [fst snd]. split; reflexivity. }
          split; [intros _; split; reflexivity|]. split; [exact HL2|].
          unfold take_safe_step. cbn [ix]. apply (f_lenxh _ _ _ _ _ _ F0).
        + split; [destruct Hgl as [j Ej]; exists j; exact Ej|]. split.
          { unfold zcons_x, zval_x, take_accel_step, eval_psi_grad. cbn [ix ipsi igrad]. left. destruct (pgrad _); reflexivity. }
          split; [intros E; contradiction|]. split; [exact HL2|].
          unfold take_accel_step, eval_psi_grad. cbn [ix].
          apply zerofpr_candidate_length; [apply (f_lenxh _ _ _ _ _ _ F0)|].
          apply Hq. intros Ei. apply E0. now apply Htau2. }
    destruct ph as [next c1]. cbn [fst snd] in F. destruct F as (Fgl & Fx & Fs & FL & Flen).
    (* fail branch *)
    match goal with |- context [if ?b then lsloop fuel c0 _ q τi ?s1 else _] => destruct b eqn:Efail; [apply (IH s1)|] end.
    { assert (Hpos : 0 < τ) by (apply andb_prop in Efail; destruct Efail as [Hpos _]; now apply Rlt_bool_iff in Hpos).
      constructor; [constructor|..]; cbn [ls_next ls_tau ls_tau_prev].
      - exists 0%nat. reflexivity.
      - intros E0. exfalso. lra.
      - unfold set_gamma_L; cbn [iL]. exact HL0'.
      - intros E0. exfalso. lra.
      - reflexivity.
      - lra. }
    set (next1 := ecost (eprox next)).
    assert (N1 : Consistent next1 /\ gl_of next1 = gl_of next /\ ix next1 = ix next /\ ipsi next1 = ipsi next).
    { subst next1. destruct (ZP zeprox_cons next Fx) as [Hx Hs]. split; [apply (ZP ecost_cons); assumption|]. repeat split. }
    destruct N1 as (Nc & Ngl & Nx & Npsi).
    assert (Fx1 : Cons_x next1) by apply Nc.
    assert (Fs1 : τ = 0 -> safe_of c0 next1).
    { intros E. destruct (Fs E) as [A0 B0]. unfold safe_of. now rewrite Nx, Npsi. }
    assert (Fgl1 : halved c0 next1) by (destruct Fgl as [j Ej]; exists j; now rewrite Ngl).
    assert (NL : iL next1 = iL next) by reflexivity.
    assert (Nlen : length (ix next1) = n) by (now rewrite Nx).
    assert (Fn1 : facts next1) by (apply consistent_facts; assumption).
    (* QUB branch *)
    match goal with |- context [if ?b then lsloop fuel c0 _ q τi ?s1 else _] => destruct b eqn:Equb; [apply (IH s1)|] end.
    { constructor; [constructor|..]; cbn [ls_next ls_tau ls_tau_prev].
      - apply (PP halved_step c0 next1 Fgl1). apply (PP halve_it_gl).
      - intros E. split; [exact Fx1|]. intros E0. destruct (Rlt_bool_spec 0 τ) as [Hp|Hp]; [exfalso; lra|apply Fs1; exact E0].
      - apply andb_prop in Equb. destruct Equb as [_ Hv].
        pose proof (qub_violated_small_L next1 Fn1 Nlen Hv) as Hs. rewrite iL_halve_it.
        pose proof Lbar_ge_2Lf. lra.
      - intros _. exact Nlen.
      - intros Ei. destruct (Rlt_bool_spec 0 τ) as [Hp|Hp]; [exact Ei|]. now apply Htau2.
      - destruct (Rlt_bool_spec 0 τ) as [Hp|Hp]; [exact Hτi|exact Hnn]. }
    (* line-search branch *)
    match goal with |- context [if ?b then lsloop fuel c0 _ q τi ?s1 else LsDone ?s2] => destruct b eqn:Els; [apply (IH s1)|] end.
    { assert (Hpos : 0 < τ) by (apply andb_prop in Els; destruct Els as [Hpos _]; now apply Rlt_bool_iff in Hpos).
      constructor; [constructor|..]; cbn [ls_next ls_tau ls_tau_prev].
      - exact Fgl1.
      - intros E. split; [exact Fx1|]. intros E0. apply Fs1. exfalso. lra.
      - now rewrite NL.
      - intros _. exact Nlen.
      - intros Ei. exfalso. specialize (Htau2 Ei). lra.
      - destruct (Rlt_bool_spec (τ / (1 + 1)) (p_tau_min P)); lra. }
    split; [|split; [|split]; cbn [ls_next ls_tau]; [now rewrite NL|exact Nlen|exact Hnn]].
    constructor; cbn [ls_next ls_tau ls_tau_prev].
    - exact Nc.
    - exact Fgl1.
    - exact Equb.
    - intros Hp. rewrite Hp in Els. exact Els.
    - exact Fs1.
  Qed.

  (* ------------------------------------------------------------------ (2) sufficient decrease over one completed iteration *)
  Lemma iteration_descent (c0 : it) (l : ls_state (T:=R)) : good c0 -> LsPost_ c0 l -> length (ix (ls_next l)) = n -> 0 <= ls_tau l ->
    it_fbe (ls_next l) <= it_fbe c0 - cmin * ipp c0.
  Proof.
    intros G [Ln Lgl Lq Lls Lsafe] Hlen Hnn. pose proof (good_facts c0 G) as F0.
    destruct (good_gam c0 G) as (Hg0 & Hpr & _).
    pose proof (cmin_le c0 G) as Hcm.
    pose proof (vsqnorm_nonneg (ip c0)) as Hpp. rewrite <- (f_pp _ _ _ _ _ _ F0) in Hpp.
    destruct (Rle_lt_or_eq_dec _ _ Hnn) as [Hpos|H0].
    - (* accelerated step accepted by the line-search test *)
      assert (Hb : Rlt_bool 0 (ls_tau l) = true) by (now apply Rlt_bool_iff).
      specialize (Lls Hb).
      unfold it_ls_violated in Lls. rewrite Hforce in Lls. apply ls_accept_descent in Lls. rewrite Hlt in Lls.
      set (σ := p_beta P * (1 - igam c0 * iL c0) / (2 * igam c0)) in *. clearbody σ. nra.
    - (* safeguarded step *)
      symmetry in H0. destruct (Lsafe H0) as [Sx Sp].
      pose proof (PP halved_nonincreasing c0 (ls_next l) Lgl Hg0) as [Hgn _].
      pose proof (safe_descent c0 (ls_next l) G (consistent_facts _ Ln Hlen) Sx Hgn) as Hd.
      assert (Hb1 : p_beta P * (1 - igam c0 * iL c0) / (2 * igam c0) <= (1 - igam c0 * iL c0) / (2 * igam c0)).
      { rewrite Hpr. unfold Rdiv. rewrite Rmult_assoc.
        assert (0 <= (1 - p_Lgamma P) * / (2 * igam c0)).
        { apply Rmult_le_pos; [lra|]. apply Rlt_le, Rinv_0_lt_compat. lra. }
        nra. }
      set (σ := p_beta P * (1 - igam c0 * iL c0) / (2 * igam c0)) in *.
      set (σ1 := (1 - igam c0 * iL c0) / (2 * igam c0)) in *. clearbody σ σ1. nra.
  Qed.

  (* the next iterate is good again *)
  Lemma iteration_good (c0 : it) (l : ls_state (T:=R)) : good c0 -> LsPost_ c0 l -> length (ix (ls_next l)) = n -> iL (ls_next l) <= Lbar ->
    good (ls_next l).
  Proof.
    intros G [Ln Lgl Lq Lls Lsafe] Hlen HL. constructor; try assumption.
    - now apply consistent_facts.
    - apply (PP glrel0_halved c0); [apply G|exact Lgl].
  Qed.

  (* x_{k+1} = x_k at a completed iteration forces p_k = 0 *)
  Lemma same_x_forces_zero_step (c0 : it) (l : ls_state (T:=R)) : good c0 -> LsPost_ c0 l -> length (ix (ls_next l)) = n -> 0 <= ls_tau l ->
    veqb (ix c0) (ix (ls_next l)) = true -> ipp c0 <= 0.
  Proof.
    intros G Lp Hlen Hnn Heq. apply veqb_eq in Heq.
    pose proof (iteration_descent c0 l G Lp Hlen Hnn) as Hd.
    destruct Lp as [Ln Lgl Lq Lls Lsafe].
    destruct (good_gam c0 G) as (Hg0 & _).
    pose proof (PP halved_nonincreasing c0 (ls_next l) Lgl Hg0) as Hgn.
    pose proof (fbe_mono c0 (ls_next l) (good_facts c0 G) (consistent_facts _ Ln Hlen) Heq (g_len _ _ _ _ _ _ _ _ _ _ _ G) Hgn) as Hm.
    pose proof cmin_pos. nra.
  Qed.

  (* ------------------------------------------------------------------ (5) the stop check *)
  (* for the four criteria the ∇ψ(x̂) argument of crit_eps is not used: ZeroFPR's ε is PANOC's *)
  Lemma zeps_is_it_eps (i : it) : zeps i = it_eps lb ub l1 P i.
  Proof. unfold zit_eps, it_eps, crit_eps. destruct Hcrit as [E|[E|[E|E]]]; rewrite E; reflexivity. Qed.
  Lemma eps_small i : good i -> ipp i <= delta * delta -> zeps i <= tol.
  Proof. intros G Hs. rewrite zeps_is_it_eps. now apply (PL eps_small ψ g n Lf). Qed.

  (* ------------------------------------------------------------------ shape of one pass of `while (true)` *)
  Notation status_of s := (stop_status_helpers (o_tol P) (zeps (st_curr s)) false (st_k s) (p_max_iter P) (st_np s) (p_max_no_progress P) false).

  Lemma pass_exit_shape s o : pass_ s = PExit o ->
    out_status o = status_of s /\ out_iterations o = st_k s /\ status_of s <> StBusy.
  Proof.
    unfold pass. cbv zeta.
    destruct (status_of s) eqn:Est.
    2-8: match goal with |- context [exit_block ?a ?b ?c ?d ?e ?f ?g ?h] => destruct (exit_block a b c d e f g h) as [[xo yo] eo] end;
         intros E; inversion E; cbn [out_status out_iterations]; repeat split; discriminate.
    match goal with |- context [match ?X with LsDone _ => _ | LsStopped _ => _ | LsFuel => PFuel end] => destruct X end; discriminate.
  Qed.

  Lemma pass_cont_shape s s' : pass_ s = PCont s' ->
    status_of s = StBusy /\
    exists q τi upd c st l, (τi = 0 \/ τi = 1) /\ (τi <> 0 -> length q = n) /\
      let ls0 := mkLs (set_gamma_L (st_next s) (igam (st_curr s)) (iL (st_curr s))) τi (- 1) upd false c st in
      (lsloop ls_fuel (st_curr s) (proxof (st_curr s)) q τi ls0 = LsStopped l \/
       (lsloop ls_fuel (st_curr s) (proxof (st_curr s)) q τi ls0 = LsDone l /\ st_curr s' = ls_next l /\ st_k s' = S (st_k s) /\
        st_np s' = match no_progress_update (st_np s) (st_k s) (p_max_no_progress P) (veqb (ix (st_curr s)) (ix (ls_next l))) with
                   | Some v => v | None => st_np s end)).
  Proof.
    unfold pass. cbv zeta.
    destruct (status_of s) eqn:Est.
    2-8: match goal with |- context [exit_block ?a ?b ?c ?d ?e ?f ?g ?h] => destruct (exit_block a b c d e f g h) as [[xo yo] eo] end; discriminate.
    change (@n0 R NumR) with 0. change (@n1 R NumR) with 1. change (@nopp R NumR) with Ropp.
    intros H. split; [reflexivity|].
    match type of H with context [lsloop ls_fuel _ _ ?q ?τi (mkLs _ _ _ ?u _ ?c ?st)] =>
      exists q, τi, u, c, st end.
    match type of H with context [if ?ud then dir_apply ?j ?cu ?px else None] => set (r := if ud then dir_apply j cu px else None) in * end.
    match goal with H : match ?X with LsDone _ => _ | LsStopped _ => _ | LsFuel => PFuel end = _ |- _ => destruct X as [l|l|] eqn:El; [| |discriminate] end.
    - exists l. split; [apply (PP tau_init_cases r)|]. split.
      { destruct r as [q'|] eqn:Er; [|intros Hc; exfalso; apply Hc; reflexivity]. intros _.
        subst r. match type of Er with (if ?b then _ else _) = _ => destruct b; [|discriminate] end. eapply Hdir, Er. }
      cbv zeta. right. split; [exact El|]. inversion H; subst s'. cbn [st_curr st_k st_np]. repeat split.
    - exists l. split; [apply (PP tau_init_cases r)|]. split.
      { destruct r as [q'|] eqn:Er; [|intros Hc; exfalso; apply Hc; reflexivity]. intros _.
        subst r. match type of Er with (if ?b then _ else _) = _ => destruct b; [|discriminate] end. eapply Hdir, Er. }
      cbv zeta. left. exact El.
  Qed.

  (* ------------------------------------------------------------------ (6) the loop *)
  Variables (nL nT : nat).
  Hypothesis HnL : p_Lmax P <= Linit * 2 ^ nL.
  Hypothesis Hmin : (1 / 2) ^ nT < p_tau_min P.            (* ZeroFPR halves τ *)
  Hypothesis Hfuel : (ls_pass_bound nL nT <= ls_fuel)%nat.

  Variable Φ0 : R.
  Variable N : nat.
  Hypothesis HN : Φ0 - ψinf < INR N * dec.
  Hypothesis HNmax : (N <= p_max_iter P)%nat.

  Record LInv (s : lstate (T:=R)) : Prop := {
    lv_inv : Inv_ s;
    lv_good : good (st_curr s);
    lv_np : st_np s = 0%nat;
    lv_pot : it_fbe (st_curr s) + INR (st_k s) * dec <= Φ0 }.

  Lemma LInv_k s : LInv s -> (st_k s < N)%nat.
  Proof.
    intros [_ G _ Hp]. destruct (good_gam _ G) as (Hg & Hpr & _).
    pose proof (fbe_lower _ (good_facts _ G) (good_nv _ G) Hg Hpr) as Hlow.
    pose proof dec_pos as Hd. apply INR_lt.
    assert (INR (st_k s) * dec < INR N * dec) by lra. nra.
  Qed.

  Lemma status_cases s : st_k s <> p_max_iter P -> st_np s = 0%nat ->
    status_of s = StConverged \/ (status_of s = StBusy /\ tol < zeps (st_curr s)).
  Proof.
    intros Hk Hnp. unfold stop_status_helpers. cbv zeta. fold (eff_tol (o_tol P)). fold tol.
    change (@nleb R NumR) with Rle_bool. destruct (Rle_bool_spec (zeps (st_curr s)) tol) as [Hc|Hc]; [left; reflexivity|].
    right. split; [|exact Hc]. destruct (Nat.eqb_spec (st_k s) (p_max_iter P)); [contradiction|].
    rewrite Hnp. cbn [nfinite NumR negb]. destruct (p_max_no_progress P); reflexivity.
  Qed.

  Lemma pass_live s : LInv s ->
    (exists o, pass_ s = PExit o /\ out_status o = StConverged /\ out_iterations o = st_k s) \/
    (exists s', pass_ s = PCont s' /\ LInv s' /\ st_k s' = S (st_k s)).
  Proof.
    intros HI. pose proof (LInv_k s HI) as Hk. destruct HI as [Hinv G Hnp Hpot].
    assert (Hkm : st_k s <> p_max_iter P) by lia.
    pose proof (ZP pass_inv s Hinv) as Hpi.
    pose proof (ZP pass_never_out_of_fuel nL nT s Hinv HL0 HnL Hmin Hfuel) as Hnf.
    destruct (pass_ s) as [o|s'|] eqn:Ep; [| |exfalso; now apply Hnf].
    - left. exists o. destruct (pass_exit_shape s o Ep) as (E1 & E2 & E3).
      split; [reflexivity|]. split; [|exact E2]. rewrite E1.
      destruct (status_cases s Hkm Hnp) as [Ec|[Eb _]]; [exact Ec|contradiction].
    - right. exists s'. split; [reflexivity|].
      destruct (pass_cont_shape s s' Ep) as (Eb & q & τi & upd & c & st & l & Hτ & Hq & Hls). cbv zeta in Hls.
      destruct (status_cases s Hkm Hnp) as [Ec|[_ Heps]]; [rewrite Ec in Eb; discriminate|].
      set (c0 := st_curr s) in *.
      assert (Hpp : delta * delta < ipp c0).
      { destruct (Rlt_le_dec (delta * delta) (ipp c0)) as [Hlt1|Hle]; [exact Hlt1|]. pose proof (eps_small c0 G Hle). lra. }
      set (ls0 := mkLs (set_gamma_L (st_next s) (igam c0) (iL c0)) τi (- 1) upd false c st) in *.
      assert (HI2 : LsI2 c0 τi ls0).
      { constructor; [constructor|..]; cbn [ls_next ls_tau ls_tau_prev ls0].
        - exists 0%nat. reflexivity.
        - intros E. exfalso. destruct Hτ; lra.
        - unfold set_gamma_L. cbn [iL]. apply G.
        - intros E. exfalso. destruct Hτ; lra.
        - trivial.
        - destruct Hτ; lra. }
      assert (Hc0 : Consistent c0) by apply Hinv.
      pose proof (ls_invariant2 c0 q τi Hc0 (g_len _ _ _ _ _ _ _ _ _ _ _ G) (g_L _ _ _ _ _ _ _ _ _ _ _ G) Hq ltac:(destruct Hτ; lra) ls_fuel ls0 HI2) as Hpost.
      destruct Hls as [El|(El & Ec & Ek & Enp)]; rewrite El in Hpost; [contradiction|].
      destruct Hpost as (Lp & HLn & Hlen & Hnn).
      pose proof (iteration_descent c0 l G Lp Hlen Hnn) as Hd.
      pose proof cmin_pos as Hcm.
      split; [|exact Ek]. constructor.
      + exact Hpi.
      + rewrite Ec. now apply (iteration_good c0).
      + rewrite Enp, Hnp.
        destruct (veqb (ix c0) (ix (ls_next l))) eqn:Es; [|apply np_stays_zero].
        exfalso. pose proof (same_x_forces_zero_step c0 l G Lp Hlen Hnn Es). pose proof delta_pos. nra.
      + rewrite Ec, Ek, S_INR. unfold PanocLive.dec in *. nra.
  Qed.

  Lemma loop_live : forall fuel s, LInv s -> (N < fuel + st_k s)%nat ->
    exists o, loop_ fuel s = Done o /\ out_status o = StConverged /\ (out_iterations o < N)%nat.
  Proof.
    induction fuel as [|fuel IH]; intros s HI Hf; pose proof (LInv_k s HI) as Hk; [lia|].
    cbn [loop]. destruct (pass_live s HI) as [(o & Ep & Es & Ei)|(s' & Ep & HI' & Ek)]; rewrite Ep.
    - exists o. split; [reflexivity|]. split; [exact Es|lia].
    - apply IH; [exact HI'|lia].
  Qed.

  (* ------------------------------------------------------------------ initialisation *)
  Lemma fbe_le_Phi0 i : good i -> ix i = x_in -> it_fbe i <= Phi0.
  Proof.
    intros G Ex. pose proof (good_facts i G) as F. destruct (good_gam i G) as (Hg & _ & _ & Hm).
    rewrite (fbe_facts i F). unfold PanocLive.Phi0. cbv zeta.
    pose proof (prox_terms_mono lb ub (igam i) gam_min x_in (g x_in) gam_min_pos Hm ltac:(lia) ltac:(lia) ltac:(rewrite Hglen; lia) Hne) as Hmo.
    cbv zeta in Hmo. rewrite <- Ex in Hmo. rewrite <- Ex. rewrite (f_step _ _ _ _ _ _ F) in Hmo. cbn [fst snd] in Hmo.
    rewrite (f_pp _ _ _ _ _ _ F), (f_gp _ _ _ _ _ _ F). lra.
  Qed.

  Notation initqub := (init_qub psi_yhat lb ub l1 P).
  Notation Gl0 := (gl0 psi_grad_full grad_psi P x_in).

  Lemma init_qub_live : forall fuel i c st j, Consistent i -> gl_of i = halve_n j Gl0 -> ix i = x_in -> iL i <= Lbar ->
    (nL <= fuel + j)%nat ->
    exists i' c' st', initqub fuel i c st = Some (i', c', st') /\ ix i' = x_in /\ iL i' <= Lbar.
  Proof.
    induction fuel as [|fuel IH]; intros i c st j Hc Hgl Ex HL Hf; cbn [init_qub];
      change (@nltb R NumR) with Rlt_bool;
      destruct (Rlt_bool (iL i) (p_Lmax P) && qubv i) eqn:Eq.
    2,4: exists i, c, st; repeat split; assumption.
    - exfalso. apply andb_prop in Eq. destruct Eq as [HLm _]. apply Rlt_bool_iff in HLm.
      pose proof (PP halve_n_L j (p_Lgamma P / Linit) Linit) as Hh.
      change (p_Lgamma P / Linit, Linit) with Gl0 in Hh. rewrite <- Hgl in Hh. unfold gl_of in Hh. cbn [snd] in Hh.
      assert (2 ^ nL <= 2 ^ j) by (apply Rle_pow; [lra|lia]). rewrite Hh in HLm. nra.
    - apply andb_prop in Eq. destruct Eq as [_ Hv].
      assert (Hlen : length (ix i) = n) by (now rewrite Ex).
      pose proof (qub_violated_small_L i (consistent_facts i Hc Hlen) Hlen Hv) as Hs.
      apply (IH _ _ _ (S j)).
      + destruct (ZP zeprox_cons (halve_it i)) as [A B]; [apply Hc|]. apply (ZP ecost_cons); assumption.
      + cbn [halve_n]. rewrite <- Hgl, <- (PP halve_it_gl). reflexivity.
      + exact Ex.
      + change (iL (ecost (eprox (halve_it i)))) with (iL (halve_it i)). rewrite iL_halve_it.
        pose proof Lbar_ge_2Lf. lra.
      + lia.
  Qed.

  Hypothesis HPhi : Phi0 <= Φ0.

  Theorem zerofpr_live fuel : (N < fuel)%nat ->
    exists o, zerofpr_ fuel = Done o /\ out_status o = StConverged /\ (out_iterations o < N)%nat.
  Proof.
    intros Hf. unfold zerofpr.
    destruct (init_L psi_grad_full grad_psi P x_in) as [i0 c0] eqn:E0.
    cbn [nfinite NumR negb]. change (@ndiv R NumR) with Rdiv. fold (first_iterate psi_yhat lb ub l1 P i0).
    set (i2 := first_iterate psi_yhat lb ub l1 P i0).
    assert (HLi : Linit = iL i0) by (unfold L_init; now rewrite E0).
    assert (Hx0 : ix i0 = x_in) by (pose proof (PP init_L_x) as Hx; now rewrite E0 in Hx).
    pose proof (ZP init_L_zcons_x) as Hcx. rewrite E0 in Hcx. cbn [fst] in Hcx.
    set (i1 := set_gamma_L i0 (p_Lgamma P / iL i0) (iL i0)).
    destruct (ZP zeprox_cons i1 Hcx) as [A B].
    assert (Hc2 : Consistent i2) by (apply (ZP ecost_cons); assumption).
    assert (Hgl2 : gl_of i2 = halve_n 0 Gl0).
    { cbn [halve_n]. unfold gl_of, gl0, i2, first_iterate. rewrite HLi. reflexivity. }
    assert (Hx2 : ix i2 = x_in) by exact Hx0.
    assert (HL2 : iL i2 <= Lbar).
    { change (iL i2) with (iL i0). rewrite <- HLi. apply Lbar_ge_Linit. }
    destruct (init_qub_live ls_fuel i2 (inc_py c0) stats0 0%nat Hc2 Hgl2 Hx2 HL2) as (i3 & c1 & s1 & Eq & Hx3 & HL3).
    { unfold ls_pass_bound in Hfuel. nia. }
    rewrite Eq.
    pose proof (ZP init_inv i0 c0 i3 c1 s1 E0 Eq) as Hinv.
    assert (G3 : good i3).
    { destruct Hinv as [Hc Hq Hgl _ _ _ _]. cbn [st_curr] in *. constructor; try assumption; [|now rewrite Hx3].
      apply consistent_facts; [exact Hc|now rewrite Hx3]. }
    apply loop_live; [|cbn [st_k]; lia].
    constructor; cbn [st_curr st_np st_k]; [exact Hinv|exact G3|reflexivity|].
    pose proof (fbe_le_Phi0 i3 G3 Hx3). cbn [INR]. lra.
  Qed.
End Live.
