#!/usr/bin/env python3
"""tools/seedstore.py <seed-id> <agent out dir> '<json printed by seedtest.sh>'  — keep a confirmed seeded change under /verif/seeded/<seed-id>/"""
import json, os, shutil, sys
sid, src, res = sys.argv[1], sys.argv[2], json.loads(sys.argv[3])
dst = os.path.join(os.path.dirname(os.path.dirname(os.path.abspath(__file__))), "seeded", sid)
os.makedirs(dst, exist_ok=True)
for f in os.listdir(src):
    if f.endswith((".diff", ".cpp", ".hpp", ".c", ".h", ".json", ".sh", ".txt")) and os.path.getsize(os.path.join(src, f)) < 400000:
        shutil.copy(os.path.join(src, f), os.path.join(dst, f))
meta = json.load(open(os.path.join(src, "meta.json")))
meta["confirmed_by_coordinator"] = {
    "how": "tools/seedtest.sh: scratch worktree of /repo HEAD; existing test suite rebuilt and run with the patch; demo compiled against the unpatched and the patched library",
    "tests_pass_with_change": res["ctest_after"] == 0 and res["build_after"] == 0,
    "demo_passes_without_change": res["demo_before"] == 0,
    "demo_fails_with_change": res["demo_after"] != 0,
    "checks_run": res["checks"],
}
meta["detected"] = any(c["violations"] > 0 for c in res["checks"])
meta["detected_concretely"] = any(c["violations"] > c["no_failing_input"] for c in res["checks"])
json.dump(meta, open(os.path.join(dst, "meta.json"), "w"), indent=1, ensure_ascii=False)
print(sid, "detected" if meta["detected"] else "MISSED", "concrete" if meta["detected_concretely"] else "")
