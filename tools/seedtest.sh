#!/bin/bash
# tools/seedtest.sh <seed-id> <dir with patch.diff + demo.cpp> <check ids...>
# Confirms a seeded change in the scratch worktree /tmp/w/main_repo (at /repo's HEAD) and runs the named checks against it.
# Prints a JSON summary on the last line. Leaves the scratch worktree clean.
set -u
SID=$1; DIR=$2; shift 2; CHECKS="$@"
R=/tmp/w/main_repo
LOG=/tmp/sp/seed_$SID.log; : > $LOG
cd $R && git reset -q --hard >>$LOG 2>&1; git checkout -q --detach $(git -C /repo rev-parse HEAD) >>$LOG 2>&1; git reset -q --hard >>$LOG 2>&1
INC="-I$R/_build/include -I$R/_build/src/export -I$R/src/alpaqa/include -I$R/src/interop/dl/include -I$R/src/interop/dl-api/include -isystem /usr/include/eigen3"
build() { cmake --build $R/_build -j12 --target tests >>$LOG 2>&1; }
demo() { g++ -std=c++23 -O1 -DNDEBUG -DALPAQA_WITH_OCP -DEIGEN_DONT_PARALLELIZE $INC $DIR/demo.cpp $R/_build/src/libalpaqa_rd.a $R/_build/src/libalpaqa-dl-loader_rd.a -ldl -o /tmp/sp/demo_$SID >>$LOG 2>&1 || g++ -std=c++23 -O1 -DNDEBUG -DALPAQA_WITH_OCP -DEIGEN_DONT_PARALLELIZE $INC $DIR/demo.cpp $R/_build/src/libalpaqa_rd.a -ldl -o /tmp/sp/demo_$SID >>$LOG 2>&1 || return 99; (cd $DIR && timeout 900 /tmp/sp/demo_$SID) >>$LOG 2>&1; }
build; B0=$?
demo; D0=$?
git -C $R apply $DIR/patch.diff >>$LOG 2>&1; AP=$?
build; B1=$?
ctest --test-dir $R/_build -j8 --timeout 900 > /tmp/sp/seed_${SID}_ctest.log 2>&1; T1=$?
demo; D1=$?
RES=""
for c in $CHECKS; do
  out=$(cd /verif && VERIF_REPO=$R timeout 3000 bin/check $c 2>/tmp/sp/seed_${SID}_$c.err); rc=$?
  nv=$(echo "$out" | grep -c "^VIOLATION"); nf=$(echo "$out" | grep -c "no-failing-input-found")
  first=$(echo "$out" | grep "^VIOLATION" | head -1 | sed 's/.*replay=//')
  RES="$RES{\"check\":\"$c\",\"rc\":$rc,\"violations\":$nv,\"no_failing_input\":$nf,\"first_replay\":\"$first\"},"
  echo "$out" >> $LOG
done
git -C $R reset -q --hard; git -C $R clean -fdq -e _build >>$LOG 2>&1
# the VERIF_REPO runs regenerated coq/gen from the patched tree: restore it from /repo
python3 /verif/translate/run_all.py >>$LOG 2>&1
echo "{\"seed\":\"$SID\",\"build_before\":$B0,\"demo_before\":$D0,\"patch_applies\":$AP,\"build_after\":$B1,\"ctest_after\":$T1,\"demo_after\":$D1,\"checks\":[${RES%,}]}"
