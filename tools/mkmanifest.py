#!/usr/bin/env python3
"""Regenerates MANIFEST.json from the table below (kept as code so it stays valid and current)."""
import json, os
VERIF = os.path.dirname(os.path.dirname(os.path.abspath(__file__)))

TB_REALS = ("Coq 8.16.1 kernel; stdlib axioms of the classical reals as printed by Print Assumptions "
            "(ClassicalDedekindReals.sig_forall_dec, sig_not_dec, FunctionalExtensionality.functional_extensionality_dep); "
            "theorems are over ideal reals, binary64 rounding is not modelled; ")

CHECKS_C15 = dict(
    level="proof",
    text="The operators are TRANSLATED from box.hpp / box-constr-problem.hpp / l1-norm.hpp into Gallina on every run (ProxGen.v: 31 definitions), proved equal to the model (ProxGenEq.v, 57 equalities) and run at binary64 against the implementation; the theorems are restated for the generated terms. "
         "36 theorems over the reals about the operator definitions in coq/theories/Prox.v (strong minimality => argmin and uniqueness, "
         "subgradient form, step = out - in, inactive set <=> locally identity shift, multiplier clamp), for all inputs; the same Gallina "
         "definitions are executed at binary64 inside coqc and compared with the shipped C++ operators on generated cases (hand model + "
         "correspondence), and the optimality conditions are evaluated directly on the implementation outputs (exact rational arithmetic on ties).",
    design="4/C15",
    note=TB_REALS + "translator translate/gen_prox.py (Eigen coefficient-wise expression grammar; out-of-grammar units fall back to a committed reference text and are reported); hand-written model tied by correspondence (tolerance 2^-36, discrete outputs equal); infinite box sides modelled as None; "
         "nuclear norm: no theorem (Eigen BDCSVD is an oracle), only the optimality condition is checked on outputs; the complex-l1 operator did not compile before fix 5a3d83895.",
    technique="Translator-generated operators + Coq proof over R of the executable model + differential correspondence at binary64 + optimality-condition oracle")
CHECKS_C06 = dict(
    level="proof",
    text="The status chain is TRANSLATED from check_all_stop_conditions (panoc-helpers.tpp and the PANOC-OCP copy) into Gallina on every run; "
         "theorems about the generated functions: Converged iff eps<=tol, tolerance wins over every limit, MaxIter only with k=max_iter, NotFinite only non-finite, "
         "NoProgress only above the limit, Interrupted only after a request, OCP copy identical, and at binary64 (FloatAxioms) a NaN/+inf residual is never Converged; "
         "loop-skeleton theorem (all observation sequences): iterations<=max_iter; no-progress counter spec incl. max_no_progress=0; reported eps = documented formula for all ten criteria over R. "
         "calc_error_stop_crit (all ten criteria, and PANOC-OCP's six) is TRANSLATED as well (KernelsGen.v, proved equal to the hand criteria and to the documented formulas). Kernels are tied by direct calls (exhaustive truth table, random criteria data) evaluated by the same Gallina code at binary64; whole-loop models of PANOC/ZeroFPR/PANTR/FISTA and PANOC-OCP (incl. runs where one forward sweep yields a NaN cost) by whole-run correspondence; whole-solver runs check statuses, counts and eps recomputed from the final iterate.",
    design="4/C06",
    note=TB_REALS + "stdlib FloatAxioms (leb_spec, eqb_spec, ltb_spec, abs_spec, Prim2SF...) for the binary64 theorem; translator translate/gen_stopchain.py (restricted grammar, every statement of the body must be consumed; out-of-grammar is reported); "
         "criteria: hand model tied by correspondence; clocks are inputs; solver loops abstracted to the chain-evaluate/return/k++ skeleton (validated on runs).",
    technique="Coq proofs over a model regenerated from the C++ by a translator + hand kernels with differential correspondence + run oracles")

def C(level, text, design, note, technique):
    return dict(level=level, text=text, design=design, note=note, technique=technique)

CORR = "hand-written Gallina model tied to the code by a correspondence check (the same definitions run at binary64 inside coqc on the inputs the C++ ran on; discrete outputs equal, doubles within 2^-36); "

CHECKS = {
 "C01": C("proof",
    "END-TO-END theorems C01_alm_{panoc,zerofpr,pantr,fista}_converged_is_kkt and C01_alm_panoc_lbfgs_converged_is_kkt (the library's default stack ALM o PANOC o L-BFGS, no hypothesis on the direction) over R for the composed executable models ALM (Alm.v) o inner solver loop model (Panoc.v, ZeroFpr.v, Pantr.v, FistaLoop.v, PanocDir.v) on a problem given by f, grad f, g, grad g*y through the vtable model (AugLag.v): for every problem, provider mix (C04 obligations), direction / stop / clock oracle and parameter set, a Converged run returns x in C with "
    "-(grad f + grad g y) within `tolerance` of N_C(x) componentwise, dist(g(x), D) <= dual_tolerance and complementary multipliers; the composed models are tied to the real ALMSolver over PANOC / ZeroFPR / PANTR / FISTA and over PANOC with the four shipped direction providers by whole-run correspondence (every callback of every inner solve). Plus the chain of links: ALM Converged <=> last inner solve Converged with eps <= tolerance and ||e||inf <= dual tolerance (model of alm.tpp, all inner-outcome scripts); inner Converged <=> eps <= tol (generated chain); "
    "ApproxKKT residual <= tol => -grad psi(x_hat) within tol of the normal cone of C at x_hat componentwise (any box, any step size); g(x_hat) - e in D so dist(g, D) <= |e|; positive (negative) multiplier only where g - ub = e (g - lb = e); the library's KKT-error stationarity is a lower bound of that distance. "
    "Oracle: for every ALM run returning Converged over all 10 shipped stacks the three KKT quantities are recomputed from f, grad f, g, grad g*y and the boxes only and compared with the tolerances and with compute_kkt_error; prox-step kernel correspondence on the run records.",
    "4/C01", TB_REALS + CORR + "end-to-end theorems exist for ALM over PANOC and ZeroFPR with each of the four shipped direction providers, over PANTR with NewtonTRDirection (exact and finite-difference Hessian products) and over FISTA, each tied by composed whole-run correspondence; l1 off; for m = 0 the theorem needs tolerance > 0 (the code replaces a non-positive inner tolerance by 1e-8).",
    "Coq end-to-end proof on the composed ALM o PANOC model (whole-run correspondence with the real stack) + proof chain (ALM model, generated chain, normal-cone lemmas) + KKT recomputation oracle on real ALM runs"),
 "C02": C("proof",
    "PARTIAL. Proved for all strongly convex QPs, boxes and dimensions: an approximate KKT pair with tolerances (eps, delta) - what Converged certifies (C01) - satisfies mu|x-x*|^2 <= eps|x-x*|_1 + delta|y-y*|_1 against the exact KKT pair (monotonicity of box normal cones, Hoelder). "
    "LIVENESS proved for the whole-loop models of PANOC and ZeroFPR (Panoc.v / ZeroFpr.v, tied to the code by whole-run correspondence) over R, for EVERY direction provider: if psi has a global quadratic upper bound (Lf <= L_max), is bounded below on C, the oracles are coherent, tolerance factors are 0 and nobody calls stop(), the run returns Converged within an explicit N iterations "
    "(ProjGradNorm/FPRNorm criteria; ApproxKKT under a Lipschitz gradient), NoProgress and MaxIter are excluded, and for a strongly convex box-constrained QP the returned point satisfies the distance bound (end-to-end corollary). The same is proved for the SHIPPED stacks: PANOC and ZeroFPR with LBFGSDirection, StructuredLBFGSDirection, AndersonDirection and NoopDirection as state machines inside the loop (PanocDirLive.v / ZeroFprDirLive.v; the only provider-specific obligation is that no call throws and apply returns an n-vector). "
    "NOT proved: liveness of PANTR, FISTA and of the outer ALM loop; explored on the implementation: every shipped stack on generated well-posed QPs must converge and meet the bound against (x*, y*) from an independent active-set solve verified by its KKT conditions; PANOC/ZeroFPR runs must stay within the proved iteration bound. "
    "For FISTA (whole-loop model FistaLoop.v) the ITERATES are proved to converge to the minimiser when the smooth part is mu-strongly convex: quadratic growth (mu/2)|x-x*|^2 <= F(x)-F* (from minimality along the segment) composed with C08's rate gives |xhat_k-x*|^2 <= 4|x0-x*|^2/(mu gamma_k (k+1)^2) at every progress record of every run (O(1/k) with disable_acceleration) and <= eps from an explicitly computed K(eps) on, in every Lipschitz mode (C02_fista_iterates_*, FistaLoopConv.v; convergence of the iterates, not the Converged status).",
    "4/C02", TB_REALS + "liveness of ALM / PANTR / FISTA by exploration only (stated in the evidence); reference solutions from Python active-set enumeration accepted only with KKT residual < 1e-8; known findings: ALM over the no-op direction (plain forward-backward) stalls on some problems.",
    "Coq proofs of the distance bound and of PANOC/ZeroFPR liveness on the whole-loop models + exploration of convergence of all stacks against an independent reference"),
 "C03": C("proof",
    "Theorems over R about the exit-block / multiplier kernels (SolverKernels.v): x written back is the projected step hence in C; err_z = g - Pi_D(g + y/Sigma); y = y_in + Sigma e; multiplier signs and complementarity; "
    "overwrite policy (Converged, Interrupted or always_overwrite) and bit-for-bit no-overwrite. Whole-loop Gallina models of PANOC, ZeroFPR, PANTR and FISTA (Properties_PANOC/ZEROFPR/PANTR/FISTA.v: exit = exit block of a consistent iterate for every oracle) tied by WHOLE-RUN correspondence, plus teacher-forced correspondence on the real runs (exit block compared exactly) and by an oracle recomputing the relations from g and the boxes for every exit status, budget 0/1/.., both always_overwrite values, NaN, plateau, stop scenarios.",
    "4/C03", TB_REALS + CORR + "box membership over doubles checked with 4 ulp slack; finite-x clause checked for finite-valued user functions; PANOC-OCP under C13, ALM under C01/C07.",
    "Coq proofs over R of executable kernels + one-step correspondence on solver runs + relation oracle"),
 "C04": C("proof",
    "23 theorems over R about AugLag.v (the default compositions of type-erased-problem.tpp selected by an arbitrary provides-mask, with a call log): every evaluation equals the closed form for EVERY mask, scalar-Sigma path = vector path, m=0 shortcuts, "
    "only provided members are called, Hessian-product availability, (y_hat-y)/Sigma identity, multiplier signs, 1-D penalty derivative and derivative of psi along any line. Correspondence: all 128 masks x 7 routes (direct, ProblemWithCounters, FunctionalProblem, class without the optional Hessian members, the same classes erased as a SECOND base class ...) at binary64; oracle: closed forms from f, grad f, g, Jg and finite differences.",
    "4/C04", TB_REALS + CORR + "optional members are assumed equal to their closed forms when supplied (provider obligation); the real CasADiProblem is run on plug-ins implementing the CasADi generated-code ABI from closed forms and on the repository's CasADi-generated Rosenbrock file (libcasadi and CasADiControlProblem are not run); C-ABI loader under C20; multivariate chain rule reduced to line derivatives.",
    "Coq proofs for all provider masks + differential correspondence + closed-form / finite-difference oracle"),
 "C05": C("proof",
    "Theorems over R for arbitrary psi, grad psi and direction vectors: leaving the line search with tau>0 IS the sufficient decrease with the strictness factor; QUB at the reported iterate gives envelope descent by (1-gamma L)/(2 gamma)|p|^2 for ANY new step size (vector level, any box); trust-region acceptance gives non-increase; any number of backtracking steps keeps gamma L and never increases gamma. "
    "The decision kernels of EACH solver file (fbe, qub_violated, linesearch_violated, step-size halving, tau update, PANTR ratio/radius) are TRANSLATED from the source on every run (KernelsGen.v), proved equal to the hand kernels (KernelsGenEq.v) and run at binary64 against the implementation; whole-loop models of PANOC/ZeroFPR/PANTR (descent between consecutive records proved for every oracle) tied by whole-run correspondence; the SHIPPED direction providers (L-BFGS, structured L-BFGS, Anderson, no-op) are modelled as state machines inside the loops (PanocDir.v, ZeroFprDir.v), proved to refine the oracle models, and whole runs of the real shipped stacks coincide with them at binary64. "
    "Correspondence (fbe, prox step, line-search and QUB decisions, halving, candidate point) on callback records of PANOC/ZeroFPR/PANTR runs incl. a scripted direction provider forcing every branch; oracle: the inequalities on consecutive records.",
    "4/C05", TB_REALS + CORR + "inequalities on doubles checked with 256 eps slack; stated for recompute_last_prox_step_after_stepsize_change=false (the option rewrites the reported iterate); force_linesearch skips the test by construction.",
    "Translator-generated decision kernels + Coq proofs over R (kernels and whole-loop models) + whole-run and teacher-forced correspondence + inequality oracle"),
 "C06": CHECKS_C06,
 "C07": C("proof",
    "35 theorems over R (21 about ARBITRARY scripts of inner-solver outcomes on a model of the whole ALM operator() (Alm.v), 11 tying the kernels regenerated from alm.tpp, alm-helpers.tpp, alm.hpp and the accumulators to that model, 3 about composed runs): penalties positive, monotone, capped, grow only where the violation persists; multipliers passed in bounded and signed; tolerance non-increasing and >= final; <= max_iter outer iterations; Converged iff; Interrupted immediate; a stop request (ALM's own flag, read after the inner solve) ends the run at that outer iteration; status selection Converged > MaxTime > MaxIter > Interrupted; Sigma_out = last used; statistics are sums. "
    "Correspondence: whole traces of the real ALMSolver<ScriptedInner> (arguments of every inner call, Stats) vs the model at binary64; oracle on the traces.",
    "4/C07", TB_REALS + CORR + "NaN paths only by correspondence; clocks bracketed by the driver; preconditions stated in the theorems (initial_tolerance >= tolerance, uniform Sigma for single_penalty_factor, Delta >= 1).",
    "Coq induction over inner-outcome scripts + trace correspondence against ALMSolver<ScriptedInner>"),
 "C08": C("proof",
    "The momentum update, extrapolation, QUB test and backtracking kernels are TRANSLATED from fista.tpp into Gallina on every run; theorems over R about the generated kernels: t(t-1)=t_prev^2, t_k >= (k+2)/2, prox-gradient key inequality (box, l1, box+l1), potential decrease per loop pass incl. backtracking, the full rate F(x_hat_k)-F* <= 2|x0-x*|^2/(gamma_k (k+1)^2) for fixed and backtracked L, and monotone O(1/k) without acceleration. "
    "The rate theorems are ALSO proved on FistaLoop.v, the whole-loop model of FISTASolver::operator() (every progress record of every run, all Lipschitz modes, l1, m = 0 and m > 0, any stop criterion: C08_fistaloop_rate etc.), which is tied to the code by whole-run correspondence. "
    "Per-iteration correspondence of the loop model at binary64; oracle: the bound at every k on real runs incl. the Nesterov chain and on every record of the whole runs.",
    "4/C08", TB_REALS + "translator translate/gen_C08_fista.py (restricted expression grammar, out-of-grammar reported); convexity and descent lemma are Section hypotheses; hand loop skeleton (m=0) tied by correspondence.",
    "Translator-generated kernels + Coq rate proofs (skeleton and whole-loop model) + per-iteration and whole-run correspondence + rate oracle"),
 "C09": C("proof",
    "16 theorems: ring-buffer refinement to a bounded history for ALL op sequences and memories (update, forced update, apply, apply_masked, reset, resize, scale_y; iteration orders), update stored iff documented acceptance test, two-loop recursion = dense BFGS operator of the history (over R), symmetric, secant equation, positive definite under enforced curvature, masked apply = restricted construction and leaves the stored history and rho untouched (after repo fix 9c14560e5 the full-history theorem needs no hypothesis about apply_masked), scale_y = dense rescale. "
    "lbfgs.tpp is TRANSLATED on every run (LbfgsGen.v: update_valid, the loop bodies of apply / apply_masked, update_sy_impl, scale_y, ring orders; proved equal to the model incl. whole runs, LbfgsGenEq.v; run at binary64 against the implementation); the direction providers built on it are modelled inside the PANOC/ZeroFPR loop models (Directions.v) and compared on whole solver runs. "
    "Correspondence on whole op sequences through the public API; oracle: exact-rational dense BFGS.",
    "4/C09", TB_REALS + CORR + "std::pow is a Section variable; the NaN exclusion mark of apply_masked is a boolean flag over R (a genuine NaN at binary64).",
    "Translator-generated L-BFGS code + Coq refinement + operator algebra proofs + op-sequence correspondence + exact-rational oracle"),
 "C10": C("proof",
    "45 theorems: ring-index invariant and iterator enumeration for every add/remove/reset history within capacity, Givens formulas give a rotation, Q triu(R) = A preserved by add (any number of reorthogonalisation passes), remove (Givens sweep) and scale_R for ALL histories, orthonormality of Q, least-squares optimality of solve_col (and the exact statement for thresholded pivots), the Anderson window and the documented affine combination (coefficients sum to 1). "
    "limited-memory-qr.hpp, ringbuffer.hpp and anderson.hpp are TRANSLATED on every run (LmqrGen.v: 51 definitions incl. the loops; LmqrGenEq.v: 134 equalities up to whole runs; run at binary64 against the implementation), and the theorems are restated for the generated code; AndersonDirection is modelled inside the PANOC/ZeroFPR loop models and compared on whole solver runs. "
    "Correspondence: the model threads its own state over whole histories at binary64.",
    "4/C10", TB_REALS + CORR + "reorthogonalisation loop under fuel; Eigen's Givens primitives are hand-transcribed (jr_*); an exactly repeated residual (column in the span) is outside the property's precondition.",
    "Translator-generated QR / Anderson code + Coq ring refinement + QR algebra (orthonormality, least squares) + whole-history correspondence + numeric oracle"),
 "C11": C("proof",
    "19 theorems over R for ANY symmetric linear operator B (possibly indefinite), all g, Delta>0: termination, CG invariant, |s| <= Delta, returned value = model value, <= 0, <= every point of the steepest-descent ray hence <= Cauchy point, boundary exits on the sphere, interior exit reason, roots bracket zero, zero gradient gives the zero step, Newton-TR active components = forward-backward step and value = combined decrease. "
    "NewtonTRDirection (incl. the finite-difference Hessian-vector path) is modelled as a state machine inside the PANTR loop (DirectionsTR.v, PantrDir.v): PANTRDIR_newtontr_step_is_feasible_and_beats_cauchy composes these guarantees with the loop (every direction call of every run); whole runs of the real PANTRSolver<NewtonTRDirection> agree with the model at binary64. "
    "Correspondence at binary64 incl. Hessian-product counts; oracle with an independent Cauchy value (also on every recorded direction call of the whole runs).",
    "4/C11", TB_REALS + CORR + "the composition takes symmetric linearity of the (finite-difference) reduced operator as a hypothesis; known finding C11:alpha-overflow-nan-step (deliberate NaN signalling on overflow of alpha).",
    "Translator-generated Steihaug CG code + Coq proofs over R for arbitrary symmetric operators (kernel and composed with the PANTR loop model) + direct-call and whole-run correspondence + Cauchy oracle"),
 "C12": C("proof",
    "12 theorems: index sets J/K sorted and partition [0,n) for every mask; storage and qr layouts tile their buffers for all dimensions; forward cost = sum of stage costs + penalties along the roll-out for arbitrary f,h,l,c; backward sweep = transposed linearisation (adjoint identity for every perturbation, by induction on N, incl. penalty terms); Riccati factor+solve satisfies the KKT system of the masked equality-constrained QP for every horizon and mask (PARTIAL: stationarity, not minimality). "
    "Correspondence (teacher-forced problem functions) and oracle: independent roll-out, complex-step gradient, dense KKT solve, both factorisations, all 2^nu masks.",
    "4/C12", TB_REALS + CORR + "translator translate/gen_ocp.py (OcpGen.v: OCPVariables layout, per-stage bodies and orders of forward / backward / factor_masked / solve_masked by symbolic execution; 87 equalities with Ocp.v in OcpGenEq.v; run at binary64 on the recorded cases); chain rule and Eigen LDLT/LU are parameters (lsolve hypothesis).",
    "Translator-generated OCP evaluator / LQR code + Coq proofs (layout, index sets, adjoint, Riccati KKT and unique minimiser) + correspondence + independent numeric oracle"),
 "C13": C("proof",
    "14 theorems: on the status chain GENERATED from PANOC-OCP's private copy Converged <=> eps <= tolerance (and the copy equals the shared chain); the returned input sequence is u_hat = u + p with p the projected-gradient step, hence inside the input box componentwise; the criterion switch evaluates exactly the six supported criteria and each equals its documented formula at (u_k, u_hat_k, gamma_k); Converged certifies that residual <= tolerance; the gradient fed to it is the derivative of the forward cost (C12's adjoint theorem); multiplier / constraint-error relations per row as for the general solvers. "
    "Whole-loop model of PANOCOCPSolver::operator() (PanocOcpLoop.v, Properties_PANOCOCP.v: 20 theorems for every oracle incl. converged_certifies; whole-run correspondence through drv_ocp, Gauss-Newton block teacher-forced). Correspondence: teacher-forced on every progress record of the real PANOCOCPSolver (prox step, envelope, QUB, line search, criterion incl. the throwing case, status, free-index count, write_solution); oracle: residual recomputed from an independent roll-out with complex-step gradient, box membership, u = u_hat, multiplier relations, status / count clauses, GN always / periodically / never.",
    "4/C13", TB_REALS + CORR + "GN and L-BFGS directions are oracles in the theorems (nothing about them is needed for what Converged certifies) and are computed by Ocp.v / Lbfgs.v in the whole-run correspondence (nothing teacher-forced); C13_panoc_ocp_converged_is_stationary composes the loop model with C12's verified sweeps; fmax/fmin modelled by cmax/cmin (equal without NaN); chain rule assumed; interpretation: the criteria are defined on the pair (u_k, u_hat_k), the returned point is u_hat_k (measured: residual at u_hat_k never exceeded tol).",
    "Coq proofs on generated chain + OCP kernels + whole-loop PANOC-OCP model (whole-run correspondence) + record-level correspondence + independent roll-out oracle"),
 "C14": C("proof",
    "sparsity-conversions.hpp is TRANSLATED on every run (SparsityGen.v: all 9 converters, 45 definitions; SparsityGenEq.v: 86 equalities up to whole conversions; run against the implementation). "
    "13 axiom-free theorems over a transcription of all 9 SparsityConverter specialisations: a successful conversion preserves the dense matrix entry by entry for all shapes (incl. 0xN), patterns and value vectors; dims, symmetry mirroring, first_index and order requests honoured, order tag truthful, invalid inputs rejected. Correspondence over all pairs x index types x requests; oracle: dense reconstruction.",
    "4/C14", "Coq 8.16.1 kernel, no axioms (closed under the global context); " + CORR + "index widths are tags (overflow not modelled); COO->CSC and CSC sorting throw in this build (macro off) and are modelled as such; duplicates excluded.",
    "Coq proofs over nat/Z + correspondence + dense-reconstruction oracle"),
 "C15": CHECKS_C15,
 "C16": C("proof",
    "16 axiom-free theorems on a pointer-level model of TypeErased (pool of wrappers, payload locations small-buffer/heap/external, block table, construct/destroy and allocate/free ledger), mirroring type-erasure.hpp statement by statement: the ledger invariant is inductive over ARBITRARY operation sequences for all trait configurations (no double destroy, no use of dead objects, every block freed through its allocator with its size, unique owner, small payload in own buffer, no leak once all wrappers are destroyed), "
    "dispatch to own object, copies independent, references alias, const / wrong-type access reported with state unchanged, throwing copy leaves the target empty. Correspondence: the real TypeErased<VT,A,64> with instrumented payloads (16/64/80 bytes) and counting allocators (all 8 trait combinations), exhaustive short histories + random, ledger snapshot after every op.",
    "4/C16", "Coq 8.16.1 kernel, no axioms; " + CORR + "memory safety proper is observed by the driver's own address/block registry (no sanitizer), not proved; vtable contents and throwing allocators not exercised.",
    "Coq inductive invariant over operation histories + snapshot correspondence against the instrumented implementation"),
 "C17": C("proof",
    "csv.tpp's reader members and the print precision rule are TRANSLATED on every run (CsvGen.v; CsvGenEq.v: 37 equalities up to whole rows; byte-level validation). "
    "13 axiom-free theorems on a byte-level model of the stream and the 64-byte chunked reader: for ALL field lengths, row lengths, chunk alignments and comment lengths the reader returns exactly the row spec or a read error (never altered numbers), leaves the stream at the next row, over-long fields are rejected, print->read round trip under stated from_chars/to_chars premises (proved outright for integers). "
    "Correspondence on the real reader (values, bytes left, stream flags); oracle: bit-exact round trips for double/float/long double, corruptions, alignments.",
    "4/C17", "Coq 8.16.1 kernel, no axioms; " + CORR + "floating-point from_chars/to_chars (libstdc++) are premises, sampled by the oracle; rows ended by EOF by correspondence only; known finding C17:long-double-subnormal-rejected.",
    "Coq proofs on a byte-level reader model + correspondence + round-trip oracle"),
 "C18": C("proof",
    "Attribute and enum tables are TRANSLATED from structs.ipp / the headers on every run; 33 axiom-free theorems: generic frame theorem (a call changes at most the addressed leaf; rejected options leave the whole nested structure unchanged), prefix filter and used counts, rejection theorems, value reading, durations; finite theorems over the generated tables (every field and enumerator registered, keys unique, bound to the same-named member). Correspondence on every registered key of all exported structs; oracle on the real parser.",
    "4/C18", "Coq 8.16.1 kernel, no axioms; translator translate/gen_C18_tables.py (g++ -E + header parsing, compiler cross-checks); " + CORR + "decimal-to-double conversion is an oracle; duration rounding validated by correspondence.",
    "Translator-generated tables + Coq frame/rejection proofs + correspondence + parser oracle"),
 "C19": C("proof",
    "PARTIAL (asynchrony / data race only). PROMPTNESS proved on the whole-loop models of PANOC, ZeroFPR, PANTR, FISTA and PANOC-OCP (tied to the code by whole-run correspondence) for a sticky request: a line-search test that sees it returns with no further work, the next stop check returns a non-Busy status, and after the first poll that sees the request PANOC makes <= 1 further poll, <= 2 oracle calls, 0 direction calls, 1 callback (ZeroFPR <= 1, PANTR 0, FISTA <= 1, PANOC-OCP 0 oracle calls), independent of max_iter and of the direction; outputs satisfy C03's relations. Also proved: on the status chain GENERATED from the code a pending stop request never yields Busy; for every observation sequence the loop skeleton returns at the first check that sees the request with Interrupted or a higher-ranked status, and Interrupted only after a request; ALM returns immediately after an Interrupted inner solve, and (composed models over all four inner solvers) the run ends at the outer iteration in which a sticky request becomes visible: no inner solve is started after the request; Interrupted overwrites outputs like Converged (C03 relations). "
    "Explored by exhaustive fault enumeration on fixed problems: stop() from every evaluation index, callback index and direction-provider call for 12 stacks stand-alone and under ALM: status, tail length, outputs, ALM propagation. Not claimed: asynchronous calls from other threads and data-race freedom.",
    "4/C19", TB_REALS + "asynchrony / data race not expressible in a Gallina model (stated in evidence.assumptions); promptness: proved bounds for PANOC / ZeroFPR / FISTA, empirical for PANTR (largest per-iteration evaluation count of the unstopped run + 8, stand-alone and under ALM: no inner solve starts after the request).",
    "Coq proofs on the generated chain, the whole-loop models (promptness with explicit bounds) and the composed ALM models + fault enumeration of stop injection points against the proved bounds"),
 "C20": C("proof",
    "25 axiom-free theorems: shared-counter model for arbitrary histories of new/call/copy/assign/decouple/reset: value read = number of calls through any sharing wrapper since creation or reset, copy shares, decouple separates, reset keeps the wrapper usable; finite theorems over tables TRANSLATED from problem-with-counters.hpp / ocproblem.hpp / dl-problem.cpp: each member counts its own counter, forwards to the same name with the same argument order, requires-clause subject matches, DL forwarders match the C signatures. "
    "Correspondence on counter histories; translation validation of wrappers and generated C plug-ins against a native reference (every entry point bitwise), provides/supports truth, load failures.",
    "4/C20", "Coq 8.16.1 kernel, no axioms; translator translate/gen_C20_wrappers.py; wrapper/loader transparency is a differential (translation-validation) claim; timers, dlopen and the C ABI are not modelled; known finding C20:dl-control-problem-lacks-required-members.",
    "Coq counter refinement + translator-generated forwarding tables + differential validation of wrappers and plug-ins"),
}

NOT_YET = {}

def main():
    props = [json.loads(l) for l in open(os.path.join(VERIF, "properties.jsonl"))]
    checks, na = [], []
    for p in props:
        pid = p["id"]
        if pid in CHECKS:
            c = CHECKS[pid]
            checks.append({
                "property_id": pid,
                "quick_cmd": "bin/check %s --tier quick" % pid,
                "thorough_cmd": "bin/check %s --tier thorough" % pid,
                "evidence_file": "evidence/%s.json" % pid,
                "replay_cmd_template": "bin/check %s --replay {path}" % pid,
                "engine": "coq+harness",
                "level_claimed": {"category": c["level"], "text": c["text"], "design_ref": "DESIGN.md §" + c["design"]},
                "level_note": c["note"],
                "technique": c["technique"],
            })
        else:
            na.append({"property_id": pid, "reason": NOT_YET.get(pid, "check not built yet in this round (planned: Coq model + correspondence, DESIGN.md §4/%s); nothing is claimed for it" % pid)})
    m = {
        "version": 1,
        "setup_cmd": "bin/setup",
        "hooks": {
            "guard": "ALPAQA_VERIF",
            "enable": "the harness (harness/Makefile) compiles the needed /repo sources itself with -DALPAQA_VERIF; no hook is currently present in /repo",
            "baseline_off_cmd": "cmake --build /repo/_build -j16 && ctest --test-dir /repo/_build -j8 --timeout 900",
            "source_commits": [],
            "add_only": True,
        },
        "engines": [
            {"name": "coq", "path": "coq/", "serves_properties": sorted(CHECKS), "kind_free_text": "Coq 8.16.1 development: models (Gallina, polymorphic over Num), proofs at R, Properties_<id>.v; executed at binary64 via vm_compute"},
            {"name": "harness", "path": "harness/", "serves_properties": sorted(CHECKS), "kind_free_text": "C++ drivers compiled against the current /repo tree; correspondence + oracle inputs"},
            {"name": "translate", "path": "translate/", "serves_properties": [], "kind_free_text": "Python translators regenerating coq/gen/*.v from /repo sources"},
        ],
        "checks": checks,
        "not_applicable": na,
        "notes": "Every check: gate (no Admitted/Axiom/...), re-check of Properties_<id>.v with Print Assumptions, rebuild of the driver from /repo's working tree, correspondence + oracle; see DESIGN.md §2.5.",
    }
    json.dump(m, open(os.path.join(VERIF, "MANIFEST.json"), "w"), indent=1)
    print("MANIFEST.json: %d checks, %d not_applicable" % (len(checks), len(na)))

if __name__ == "__main__":
    main()
