#!/usr/bin/env python3
"""Regenerates MANIFEST.json from the table below (kept as code so it stays valid and current)."""
import json, os
VERIF = os.path.dirname(os.path.dirname(os.path.abspath(__file__)))

TB_REALS = ("Coq 8.16.1 kernel; stdlib axioms of the classical reals as printed by Print Assumptions "
            "(ClassicalDedekindReals.sig_forall_dec, sig_not_dec, FunctionalExtensionality.functional_extensionality_dep); "
            "theorems are over ideal reals, binary64 rounding is not modelled; ")

CHECKS = {
 "C15": dict(
    level="proof",
    text="18 theorems over the reals about the operator definitions in coq/theories/Prox.v (strong minimality => argmin and uniqueness, "
         "subgradient form, step = out - in, inactive set <=> locally identity shift, multiplier clamp), for all inputs; the same Gallina "
         "definitions are executed at binary64 inside coqc and compared with the shipped C++ operators on generated cases (hand model + "
         "correspondence), and the optimality conditions are evaluated directly on the implementation outputs (exact rational arithmetic on ties).",
    design="4/C15",
    note=TB_REALS + "hand-written model tied by correspondence (tolerance 2^-36, discrete outputs equal); infinite box sides modelled as None; "
         "nuclear norm: no theorem (Eigen BDCSVD is an oracle), only the optimality condition is checked on outputs; the complex-l1 operator did not compile before fix 5a3d83895.",
    technique="Coq proof over R of the executable model + differential correspondence at binary64 + optimality-condition oracle"),
 "C06": dict(
    level="proof",
    text="The status chain is TRANSLATED from check_all_stop_conditions (panoc-helpers.tpp and the PANOC-OCP copy) into Gallina on every run; "
         "theorems about the generated functions: Converged iff eps<=tol, tolerance wins over every limit, MaxIter only with k=max_iter, NotFinite only non-finite, "
         "NoProgress only above the limit, Interrupted only after a request, OCP copy identical, and at binary64 (FloatAxioms) a NaN/+inf residual is never Converged; "
         "loop-skeleton theorem (all observation sequences): iterations<=max_iter; no-progress counter spec incl. max_no_progress=0; reported eps = documented formula for all ten criteria over R. "
         "Kernels are tied by direct calls (exhaustive truth table, random criteria data) evaluated by the same Gallina code at binary64; whole-solver runs check statuses, counts and eps recomputed from the final iterate.",
    design="4/C06",
    note=TB_REALS + "stdlib FloatAxioms (leb_spec, eqb_spec, ltb_spec, abs_spec, Prim2SF...) for the binary64 theorem; translator translate/gen_stopchain.py (restricted grammar; out-of-grammar is reported); "
         "criteria: hand model tied by correspondence; clocks are inputs; solver loops abstracted to the chain-evaluate/return/k++ skeleton (validated on runs).",
    technique="Coq proofs over a model regenerated from the C++ by a translator + hand kernels with differential correspondence + run oracles"),
}

NOT_YET = {}

def main():
    props = [json.loads(l) for l in open(os.path.join(VERIF, "properties.jsonl"))]
    checks, na = [], []
    for p in props:
        pid = p["id"]
        if pid in CHECKS:
            c = CHECKS[pid]
            checks.append({
                "property_id": pid,
                "quick_cmd": "bin/check %s --tier quick" % pid,
                "thorough_cmd": "bin/check %s --tier thorough" % pid,
                "evidence_file": "evidence/%s.json" % pid,
                "replay_cmd_template": "bin/check %s --replay {path}" % pid,
                "engine": "coq+harness",
                "level_claimed": {"category": c["level"], "text": c["text"], "design_ref": "DESIGN.md §" + c["design"]},
                "level_note": c["note"],
                "technique": c["technique"],
            })
        else:
            na.append({"property_id": pid, "reason": NOT_YET.get(pid, "check not built yet in this round (planned: Coq model + correspondence, DESIGN.md §4/%s); nothing is claimed for it" % pid)})
    m = {
        "version": 1,
        "setup_cmd": "bin/setup",
        "hooks": {
            "guard": "ALPAQA_VERIF",
            "enable": "the harness (harness/Makefile) compiles the needed /repo sources itself with -DALPAQA_VERIF; no hook is currently present in /repo",
            "baseline_off_cmd": "cmake --build /repo/_build -j16 && ctest --test-dir /repo/_build -j8 --timeout 900",
            "source_commits": [],
            "add_only": True,
        },
        "engines": [
            {"name": "coq", "path": "coq/", "serves_properties": sorted(CHECKS), "kind_free_text": "Coq 8.16.1 development: models (Gallina, polymorphic over Num), proofs at R, Properties_<id>.v; executed at binary64 via vm_compute"},
            {"name": "harness", "path": "harness/", "serves_properties": sorted(CHECKS), "kind_free_text": "C++ drivers compiled against the current /repo tree; correspondence + oracle inputs"},
            {"name": "translate", "path": "translate/", "serves_properties": [], "kind_free_text": "Python translators regenerating coq/gen/*.v from /repo sources"},
        ],
        "checks": checks,
        "not_applicable": na,
        "notes": "Every check: gate (no Admitted/Axiom/...), re-check of Properties_<id>.v with Print Assumptions, rebuild of the driver from /repo's working tree, correspondence + oracle; see DESIGN.md §2.5.",
    }
    json.dump(m, open(os.path.join(VERIF, "MANIFEST.json"), "w"), indent=1)
    print("MANIFEST.json: %d checks, %d not_applicable" % (len(checks), len(na)))

if __name__ == "__main__":
    main()
