#!/usr/bin/env python3
"""Regenerates the table of DESIGN.md §12 from seeded/*/meta.json (the prose below the table is kept)."""
import json, glob, os, re
V = os.path.dirname(os.path.dirname(os.path.abspath(__file__)))
rows = []
for d in sorted(glob.glob(os.path.join(V, "seeded", "C*"))):
    m = json.load(open(os.path.join(d, "meta.json")))
    c = m["confirmed_by_coordinator"]
    checks = ", ".join("%s (%d violation%s%s)" % (x["check"], x["violations"], "" if x["violations"] == 1 else "s",
                       ", no-failing-input only" if x["violations"] and x["violations"] == x["no_failing_input"] else "") for x in c["checks_run"])
    clean = lambda t, n: re.sub(r"\s+", " ", t)[:n].replace("|", "/")
    rows.append("| %s | %s | %s | %s |" % (os.path.basename(d), clean(m.get("summary", ""), 260), clean(m.get("needs_to_manifest", ""), 220), checks))
p = os.path.join(V, "DESIGN.md")
s = open(p).read()
a = s.index("| seed for | change (summary) | needs to manifest | caught by (quick tier) |")
b = s.index("\nChecks strengthened because a seed was first missed:")
s = s[:a] + "| seed for | change (summary) | needs to manifest | caught by (quick tier) |\n|---|---|---|---|\n" + "\n".join(rows) + "\n" + s[b:]
open(p, "w").write(s)
print(len(rows), "rows")
