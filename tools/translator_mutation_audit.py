#!/usr/bin/env python3
"""tools/translator_mutation_audit.py — strictness audit of the translators (translate/gen_*.py).

For every translator and every source unit it translates (function / lambda / statement site / struct / macro table) the tool
applies small textual mutations to the unit, one at a time, in a private copy of the source tree, runs the translator on the
copy (VERIF_REPO = copy, VERIF_GEN_OUT = private output directory: the worktree's coq/gen is never touched) and classifies:

    oog     the translator reported out-of-grammar / a non-zero status / crashed            (mutant noticed)
    diff    the generated files differ from the ones generated from the pristine source,
            Coq comments and the name of the source tree removed                           (mutant noticed)
    MISS    status ok and identical generated definitions                                  (SILENT MISS)

Mutations (all deterministic, chosen from the text of the unit):
    ins     an extra side-effecting statement on a variable of the unit (`v *= 2;`, `flag |= true;`), at up to 3 places
    exit    an early `return` / `continue` / `break` guarded by a condition on a variable of the unit
    dup     an existing non-idempotent statement duplicated
    swap    two adjacent dependent statements exchanged
    op      an operator or a constant of an expression changed (`<` -> `<=`, `+` -> `-`, `0.5` -> `0.25`, ...)
    del     a statement deleted
  for tables (struct field lists, enums, macro tables, designated initialisers): entry deleted / duplicated / swapped /
  renamed, a new entry inserted.

Units are found automatically: every function-like / struct-like brace block of every source file a translator opens is
probed by replacing its interior with garbage; a block the translator reacts to is a unit (the innermost reacting blocks below
the CONTAINERS — the big solver `operator()`s, of which the translators read statement SITES only; the sites are listed in
SITES by a regular expression on their first statement).  Macro tables are listed in TABLES.

Usage:  tools/translator_mutation_audit.py [--jobs 12] [--translators gen_x.py,gen_y.py] [--units REGEX] [--list] [--show] [--depth N]
        source tree: $VERIF_REPO (default /repo); it is only read.
Output: one line per (translator, unit, mutation), a summary per translator, build/translator_audit.json; exit status 1 when
        there is a silent miss (waived ones — WAIVERS, each with its reason — are reported separately and do not count)."""
import argparse, hashlib, json, multiprocessing, os, re, shutil, subprocess, sys, time

HERE = os.path.dirname(os.path.abspath(__file__))
VERIF = os.path.dirname(HERE)
TRANSLATE = os.environ.get("VERIF_AUDIT_TRANSLATE") or os.path.join(VERIF, "translate")      # (override: audit another version of the translators)
REPO = os.environ.get("VERIF_REPO", "/repo")
COPY_DIRS = ["src", "python/alpaqa/casadi_generator"]          # everything the translators read lives here
IDC = "\\w\u0300-\u036f"          # identifier characters (combining accents: x-hat is written x + U+0302)
ID = "[%s]+" % IDC

# ----------------------------------------------------------------------------- per-translator knowledge

# functions whose body a translator does NOT translate as a whole (it reads statement sites / lambdas inside): name regex
CONTAINERS = {
    "gen_kernels.py": r"operator\(\)",
    "gen_C08_fista.py": r"operator\(\)",
    "gen_stopchain.py": r"operator\(\)",
    "gen_C07_alm.py": r"operator\(\)",
    "gen_ocp.py": r"operator\(\)",
    "gen_C04_vtable.py": r"load",          # CasADiFunctionsWithParam::load: only its function table initialiser is read (TABLES)
}

# statement sites inside containers: (translator, file suffix, unit name, regex on the first statement[, regex on the last statement])
# the unit is the whole statement (with its block / else branches) containing the match, or the statement range first..last
SITES = [
    # gen_kernels.py: per solver the QUB loop, the two line-search tests, the no-progress update, gamma = Lgam / L
    *[("gen_kernels.py", f, "site:qub_while", r"\bwhile\s*\([^;{}]*qub_violated\(") for f in ("inner/panoc.tpp", "inner/zerofpr.tpp", "inner/panoc-ocp.tpp")],
    *[("gen_kernels.py", f, "site:ls_qub_if", r"\bif\s*\([^;{}]*qub_violated\(") for f in ("inner/panoc.tpp", "inner/zerofpr.tpp", "inner/panoc-ocp.tpp")],
    *[("gen_kernels.py", f, "site:ls_if", r"\bif\s*\([^;{}]*linesearch_violated\(") for f in ("inner/panoc.tpp", "inner/zerofpr.tpp", "inner/panoc-ocp.tpp")],
    *[("gen_kernels.py", f, "site:no_progress", r"\bif\s*\([^;{}]*\)\s*no_progress\s*=") for f in ("inner/panoc.tpp", "inner/zerofpr.tpp", "inner/panoc-ocp.tpp", "inner/fista.tpp")],
    *[("gen_kernels.py", f, "site:gamma_of_L", r"curr->γ\s*=\s*params\.") for f in ("inner/panoc.tpp", "inner/zerofpr.tpp", "inner/pantr.tpp", "inner/panoc-ocp.tpp")],
    ("gen_kernels.py", "inner/pantr.tpp", "site:radius", r"(?<![%s>.])Δ\s*=[^;]*compute_updated_radius" % IDC),
    ("gen_kernels.py", "inner/pantr.tpp", "site:accept", r"\baccept_candidate\s*=[^;]*ρ"),
    # (gen_ocp.py reads the lambdas mut_qrk / mut_q_N of panoc-ocp.tpp — found automatically — and checks that every call of
    #  eval.backward passes them; the call sites are a constraint, not translated text, so they are no units)
    # gen_C08_fista.py
    ("gen_C08_fista.py", "inner/fista.tpp", "site:bt_while", r"\bwhile\s*\([^;{}]*qub_violated\("),
    ("gen_C08_fista.py", "inner/fista.tpp", "site:momentum", r"\breal_t\s+t_new\s*=", r"\bif\s*\(\s*params\.disable_acceleration"),
    ("gen_C08_fista.py", "inner/fista.tpp", "site:gamma_of_L", r"curr->γ\s*=\s*params\."),
    # gen_C07_alm.py: the outer loop of ALMSolver::operator() (general part), the penalty selection, the initial tolerance
    ("gen_C07_alm.py", "outer/alm.tpp", "site:outer_loop", r"\bfor\s*\(\s*unsigned\s+i\s*=\s*0\s*;\s*i\s*<\s*params\.max_iter"),
    ("gen_C07_alm.py", "outer/alm.tpp", "site:penalty_selection", r"\bif\s*\(\s*Σ\s*&&"),
    ("gen_C07_alm.py", "outer/alm.tpp", "site:initial_tolerance", r"\breal_t\s+ε\s*="),
    ("gen_C07_alm.py", "outer/alm.tpp", "site:m0_options", r"\bInnerSolveOptions<config_t>\s+opts\s*\{"),
]

# comma-separated macro tables: (translator, file suffix, regex whose match ends at the opening parenthesis)
TABLES = [
    ("gen_C18_tables.py", "params/structs.ipp", r"\bPARAMS_TABLE\s*\("),
    ("gen_C18_tables.py", "params/structs.ipp", r"\bPARAMS_ALIAS_TABLE\s*\("),
    ("gen_C18_tables.py", "params/structs.ipp", r"\bENUM_TABLE\s*\("),
    ("gen_C04_vtable.py", "casadi/CasADiProblem.tpp", r"\bCasADiFunctionsWithParam\s*\{(?=\s*\.n\b)"),
]

# lookup tables: structs of which a translator reads only the declarations it looks up by name (the signatures of the functions the
# translated code calls).  Only the looked-up entries are translated text: the tool first deletes every entry and keeps the ones
# whose deletion is noticed; insertions and swaps are meaningless in a lookup table
LOOKUP = [
    ("gen_ocp.py", "problem/ocproblem.hpp", r"struct \w+@\d+", "problem_signatures(): argument kinds of the problem functions forward / backward call"),
]

# silent misses that are accepted, each with its reason: regex on "translator|file|unit|mutation description"
WAIVERS = [
    (r"gen_prox\.py\|.*box-constr-problem\.hpp\|fn eval_prox_grad_step_box_l1(_scal)?@\d+\|dup .*duplicate `eval_prox_grad_step_box_l1_impl\(",
     "equivalent mutant: the call recomputes its outputs (x̂, p) from unchanged inputs, calling it twice changes nothing"),
    (r"gen_C20_wrappers\.py\|.*dl-problem\.h\|struct alpaqa_(control_)?problem_functions_t@\d+\|swap ",
     "equivalent for the translation: the members of the C function table are accessed by name (functions->NAME), their order is not part of the tables"),
    (r"gen_ocp\.py\|.*ocp-vars\.hpp\|fn forward@\d+\|swap .*(and `auto xN = vars\.xk\(storage, N\);`|and `auto yk = y\.segment\(t \* nc, nc\);`)",
     "equivalent mutant: the moved declaration is a view (segment of a vector: no copy, no effect) that the other statement does not use"),
    (r"gen_prox\.py\|.*l1-norm\.hpp\|fn prox@\d+\|swap .*swap `if \(λ == 0\) \{ out = in; return 0; \}` and `auto step = vec::Constant\(n, λ \* γ\);`",
     "equivalent mutant: `step` is a lazy constant expression the early return does not use; computing it before the test changes nothing"),
    (r"gen_sparsity\.py\|.*sparsity-conversions\.hpp\|fn convert_sparsity@\d+\|del .*delete `throw std::invalid_argument\(\"Lower-triangular",
     "equivalent for the model: `case Symmetry::Lower:` then falls through to `default: throw std::invalid_argument(...)` — still an exception, only its message differs"),
    (r"gen_ocp\.py\|.*ocp-vars\.hpp\|fn forward@\d+\|swap .*swap `auto c[kN] = vars\.ck\(storage, [tN]\);` and `if \(vars\.nh(_N)?\(\) > 0\)",
     "equivalent mutant: `ck` / `cN` is a view into `storage` (no copy, no effect) that the following if statement does not use"),
    (r"gen_sparsity\.py\|.*sparsity-conversions\.hpp\|fn convert_values@\d+\|swap .*swap `(to\.setZero\(\)|from\(work\));` and `auto &&[Tf] = (to|work)\.reshaped\(",
     "equivalent mutant: `T` / `f` is a reshaped view (a reference) of the vector; declaring it before or after the vector is written is the same program"),
]

# files a translator opens but which are not sources to mutate
SKIP_FILE = re.compile(r"(\.pyc?$|/translate/|/coq/|/build/|\.json$|\.v$|^/usr|^/proc|^/etc|/lib/python)")


# ----------------------------------------------------------------------------- text structure

def mask(src):
    """comments and string / character literals replaced by blanks (newlines kept): same length as src"""
    out, i, n = list(src), 0, len(src)

    def blank(a, b):
        for k in range(a, b):
            if out[k] != "\n":
                out[k] = " "
    while i < n:
        c = src[i]
        if src.startswith("//", i):
            j = src.find("\n", i)
            j = n if j < 0 else j
            blank(i, j); i = j
        elif src.startswith("/*", i):
            j = src.find("*/", i + 2)
            j = n if j < 0 else j + 2
            blank(i, j); i = j
        elif src.startswith("[[", i) and src.find("]]", i) > 0 and "\n" not in src[i:src.find("]]", i)] and not src.startswith("[[fallthrough", i):
            j = src.find("]]", i) + 2          # attribute specifier: no semantics
            blank(i, j); i = j
        elif c == '"':
            if i >= 1 and src[i - 1] == "R":                       # raw string R"delim( ... )delim"
                k = src.find("(", i)
                delim = ")" + src[i + 1:k] + '"'
                j = src.find(delim, k)
                j = n if j < 0 else j + len(delim)
                blank(i + 1, j - 1); i = j
                continue
            j = i + 1
            while j < n and src[j] != '"' and src[j] != "\n":
                j += 2 if src[j] == "\\" else 1
            blank(i + 1, min(j, n)); i = j + 1
        elif c == "'" and i + 2 < n and (src[i + 2] == "'" or (src[i + 1] == "\\" and src.find("'", i + 2) in range(i + 3, i + 6))):
            j = src.find("'", i + 2)
            blank(i + 1, j); i = j + 1
        else:
            i += 1
    return "".join(out)


# macros with a known value in the build the checks use (harness/Makefile, g++ 12); other conditionals keep both branches
PP_VALUES = {"ALPAQA_HAVE_COO_CSC_CONVERSIONS": False, "EIGEN_RUNTIME_NO_MALLOC": False, "ALPAQA_WITH_QUAD_PRECISION": False,
             "__cpp_lib_to_chars": True, "NDEBUG": True}


def mask_preprocessor(S, M):
    """preprocessor directive lines blanked; text of conditional branches that are known not to be compiled blanked as well"""
    out = list(M)
    pos, stack = 0, []          # stack of [active?, known?, any branch taken]
    cont = False                # continuation line of a directive (`#define ... \`)
    for line in S.split("\n"):
        end = pos + len(line)
        st = M[pos:end].strip()
        if cont:
            cont = line.rstrip().endswith("\\")
            for k in range(pos, end):
                out[k] = " "
        elif st.startswith("#"):
            cont = line.rstrip().endswith("\\")
            m = re.match(r"#\s*(ifdef|ifndef|if|elif|else|endif)\b\s*(.*)", st)
            if m:
                d, arg = m.group(1), m.group(2).strip()
                if d in ("ifdef", "ifndef", "if"):
                    name = re.sub(r"^defined\s*\(?\s*(\w+)\s*\)?$", r"\1", arg)
                    neg = name.startswith("!")
                    name = name.lstrip("! ").strip()
                    if name in PP_VALUES:
                        val = bool(PP_VALUES[name]) ^ (d == "ifndef") ^ neg
                        stack.append([val, True, val])
                    else:
                        stack.append([True, False, True])
                elif d in ("elif", "else") and stack:
                    top = stack[-1]
                    if top[1]:
                        top[0] = (not top[2]) and d == "else"
                        top[2] = top[2] or top[0]
                elif d == "endif" and stack:
                    stack.pop()
            for k in range(pos, end):
                out[k] = " "
        elif any(not t[0] for t in stack):
            for k in range(pos, end):
                out[k] = " "
        pos = end + 1
    return "".join(out)


def match_table(M):
    """partner index of every bracket of the masked text (only well nested ones)"""
    partner, stack = {}, []
    pairs = {")": "(", "]": "[", "}": "{"}
    for i, c in enumerate(M):
        if c in "([{":
            stack.append(i)
        elif c in ")]}":
            while stack and M[stack[-1]] != pairs[c]:
                stack.pop()
            if stack:
                o = stack.pop()
                partner[o] = i; partner[i] = o
    return partner


SPEC = re.compile(r"(?:\s|\bconst\b|\bnoexcept\b|\boverride\b|\bmutable\b|\bfinal\b)*(?:->\s*[^;{}()]+?)?\s*$")


def classify_block(M, partner, o):
    """kind and name of the brace block opening at o: ('fn'|'lambda'|'ctrl'|'struct'|'enum'|'ns'|'other', name)"""
    k = o
    while k > 0 and M[k - 1] not in ");}{":
        k -= 1
    seg = M[k:o]
    if k > 0 and M[k - 1] == ")" and SPEC.fullmatch(seg):
        po = partner.get(k - 1)
        if po is None:
            return "other", ""
        head = M[max(0, po - 200):po]
        while re.search(r"\bnoexcept\s*$", head):                 # `) const noexcept(...) -> T {`: the parameter list is further left
            q = po - (len(head) - len(head.rstrip())) - len("noexcept")
            seg2 = M[max(0, q - 40):q]
            mm = re.search(r"\)(?:\s|\bconst\b|\boverride\b|\bmutable\b|\bfinal\b)*$", seg2)
            if not mm:
                return "other", ""
            po = partner.get(q - len(seg2) + mm.start() if q >= 40 else mm.start())
            if po is None:
                return "other", ""
            head = M[max(0, po - 200):po]
        m = re.search(r"(\bif\b|\bfor\b|\bwhile\b|\bswitch\b|\bcatch\b|\bif\s+constexpr)\s*$", head)
        if m:
            return "ctrl", m.group(1)
        if head.rstrip().endswith("]"):
            lb = partner.get(po - (len(head) - len(head.rstrip())) - 1)
            before = M[max(0, (lb or 0) - 120):lb] if lb is not None else ""
            m = re.search(r"(%s)\s*=\s*$" % ID, before)
            return "lambda", (m.group(1) if m else "<anonymous>")
        m = re.search(r"(operator\s*(?:\(\)|[^\s%s(]+)|[%s~]+)\s*$" % (IDC, IDC), head)
        if m:
            name = re.sub(r"\s+", "", m.group(1))
            if name in ("requires", "decltype", "sizeof", "alignas", "noexcept"):
                return "other", name
            if name.endswith("BEGIN_STRUCT"):                       # `ALPAQA_BEGIN_STRUCT(name) {` is `struct name {`
                return "struct", M[po + 1:k - 1].strip()
            return "fn", name
        return "other", ""
    m = re.search(r"\b(struct|class|union|enum\s+class|enum|namespace)\b\s*([%s:]*)[^;{}()]*$" % IDC, seg)
    if m and not re.search(r"\belse\b|\bdo\b|\btry\b", seg):
        kind = {"struct": "struct", "class": "struct", "union": "struct", "namespace": "ns"}.get(m.group(1), "enum")
        return kind, m.group(2)
    if re.fullmatch(r"\s*(else|do|try)\s*", seg):
        return "ctrl", seg.strip()
    return "other", ""


def blocks_of(M, partner):
    """all brace blocks: list of dicts (open, close, kind, name, parent index, depth), in order of appearance"""
    out, stack = [], []
    for i, c in enumerate(M):
        if c == "{" and i in partner:
            kind, name = classify_block(M, partner, i)
            b = dict(open=i, close=partner[i], kind=kind, name=name, parent=(stack[-1] if stack else None))
            out.append(b)
            stack.append(len(out) - 1)
        elif c == "}" and i in partner and stack and out[stack[-1]]["close"] == i:
            stack.pop()
    return out


KEYWORDS = set("if else for while do switch case default return break continue throw using const constexpr static auto bool int unsigned "
               "real_t index_t length_t vec rvec crvec mat rmat crmat true false not and or this nullptr struct class template typename "
               "void double float long short char size_t inline noexcept new delete sizeof static_cast try catch".split())


def statements(M, a, b, partner, in_loop=False, depth=0, parent=0, out=None, counter=None):
    """flat list of the statements of M[a:b] at every nesting level.
    each: dict(start, end, kind = 'simple'|'ctrl'|'label'|'fndef'|'block', block = id of the enclosing statement list,
               idx = position in that list, in_loop, depth)"""
    out = [] if out is None else out
    counter = counter if counter is not None else [0]
    blk = counter[0]; counter[0] += 1
    i, idx = a, 0

    def skip_ws(p):
        while p < b and M[p].isspace():
            p += 1
        return p

    def sub_statement(p, loop):
        """the statement starting at p (a block or a single statement); returns its end"""
        p = skip_ws(p)
        if p < b and M[p] == "{" and p in partner:
            statements(M, p + 1, partner[p], partner, loop, depth + 1, blk, out, counter)
            return partner[p] + 1
        return one(p, loop, record=False)

    def one(p, loop, record=True):
        nonlocal idx
        p = skip_ws(p)
        if p >= b:
            return b
        start = p
        m = re.compile(r"(if\s+constexpr|if|for|while|switch|do|else|try)\b").match(M, p)
        m_label = re.compile(r"(case\b[^;{}]*?|default\s*)(?<!:):(?!:)").match(M, p)
        if M[p] == "{" and p in partner:
            statements(M, p + 1, partner[p], partner, loop, depth + 1, blk, out, counter)
            end, kind = partner[p] + 1, "block"
        elif m_label:
            end, kind = m_label.end(), "label"
        elif m and m.group(1) in ("if", "if constexpr", "for", "while", "switch"):
            q = skip_ws(m.end())
            if q >= b or M[q] != "(" or q not in partner:
                end, kind = _to_semicolon(M, p, b, partner), "simple"
            else:
                lp = loop or m.group(1) in ("for", "while")
                end = sub_statement(partner[q] + 1, lp)
                if m.group(1).startswith("if"):
                    while True:
                        q2 = skip_ws(end)
                        if M.startswith("else", q2) and not re.match("[%s]" % IDC, M[q2 + 4:q2 + 5] or " "):
                            end = sub_statement(q2 + 4, loop)
                        else:
                            break
                kind = "ctrl"
        elif m and m.group(1) == "do":
            end = sub_statement(m.end(), True)
            end = _to_semicolon(M, end, b, partner)
            kind = "ctrl"
        elif m and m.group(1) in ("else", "try"):
            end = sub_statement(m.end(), loop); kind = "ctrl"
        else:
            end, kind = _simple_end(M, p, b, partner, loop, depth, blk, out, counter)
        if record and kind != "block":
            out.append(dict(start=start, end=end, kind=kind, block=blk, idx=idx, in_loop=loop, depth=depth, parent=parent))
            idx += 1
        return end
    while True:
        i = skip_ws(i)
        if i >= b:
            break
        j = one(i, in_loop)
        if j <= i:
            break
        i = j
    return out


def _to_semicolon(M, p, b, partner):
    while p < b:
        c = M[p]
        if c in "([{" and p in partner:
            p = partner[p] + 1
        elif c == ";":
            return p + 1
        else:
            p += 1
    return b


def _simple_end(M, p, b, partner, loop, depth, blk, out, counter):
    """end of a declaration / expression statement starting at p; nested lambda bodies and member function bodies are descended"""
    q = p
    while q < b:
        c = M[q]
        if c in "([" and q in partner:
            q = partner[q] + 1
        elif c == "{" and q in partner:
            kind, name = classify_block(M, partner, q)
            e = partner[q]
            if kind in ("fn", "lambda"):
                statements(M, q + 1, e, partner, False, depth + 1, blk, out, counter)
            q = e + 1
            if kind == "fn":
                r = q
                while r < b and M[r].isspace():
                    r += 1
                if r >= b or M[r] not in ";,).([":
                    return q, "fndef"
        elif c == ";":
            return q + 1, "simple"
        else:
            q += 1
    return b, "simple"


def list_entries(M, a, b, partner):
    """top-level comma separated entries of M[a:b]: list of (start, end) without the commas"""
    out, p, s = [], a, a
    while p < b:
        c = M[p]
        if c in "([{" and p in partner and partner[p] < b:
            p = partner[p] + 1
        elif c == "<" and re.match(r"[%s]" % IDC, M[p - 1:p] or " "):
            d, q = 0, p                          # template argument list (no spaces before '<')
            while q < b:
                if M[q] == "<": d += 1
                elif M[q] == ">":
                    d -= 1
                    if d == 0: break
                elif M[q] in ";{}": break
                q += 1
            p = q + 1 if q < b and M[q] == ">" else p + 1
        elif c == ",":
            out.append((s, p)); s = p + 1; p += 1
        else:
            p += 1
    out.append((s, b))
    res = []
    for s, e in out:
        while s < e and M[s].isspace(): s += 1
        while e > s and M[e - 1].isspace(): e -= 1
        if e > s:
            res.append((s, e))
    return res


# ----------------------------------------------------------------------------- mutations

DEPTH = [1]         # --depth N multiplies the number of mutants chosen per kind and unit (a large N = every candidate)


def spread(items, k):
    """k items of the list, evenly spaced, deterministic"""
    k *= DEPTH[0]
    n = len(items)
    if n <= k:
        return list(items)
    return [items[(2 * j + 1) * n // (2 * k)] for j in range(k)]


VAR = re.compile(r"(?<![%s.>])((?:this->)?[^\W\d][%s]*(?:(?:\.|->)[^\W\d][%s]*)*)(?!\s*[(<%s])" % (IDC, IDC, IDC, IDC))
DECL = re.compile(r"^\s*(?:static\s+|constexpr\s+|mutable\s+|typename\s+)*(const\s+)?(?!(?:return|throw|else|case|goto|new|delete|using|typedef|co_return)\b)"
                  r"((?:[^\W\d][%s]*::)*[^\W\d][%s]*(?:<[^;=(){}]*>)?(?:::[^\W\d][%s]*)*)(?:\s*(?:&&?|\*)\s*|\s+)(?:const\s+)?([^\W\d][%s]*)\s*(=(?!=)|\{|\(|;)" % (IDC, IDC, IDC, IDC))
ASSIGN = re.compile(r"^\s*(\*?[^\W\d][%s.>-]*(?:\([^()]*\))?)\s*(=|\+=|-=|\*=|/=|\|=)(?!=)" % IDC)


def written_var(text):
    """(variable, is_bool, is_const, is_decl) a simple statement assigns / declares, or None"""
    m = DECL.match(text)
    if m:
        rhs = text[m.end():]
        isb = m.group(2) == "bool" or (m.group(2) == "auto" and re.search(r"==|!=|<=|>=|&&|\|\||\bnot\b|\btrue\b|\bfalse\b", rhs) is not None
                                       and not re.search(r"\?", rhs))
        return m.group(3), isb, bool(m.group(1)), True
    m = ASSIGN.match(text)
    if m and not re.match(r"\s*(return|throw|using|case|default)\b", text):
        return m.group(1).lstrip("*"), m.group(2) == "|=", False, False
    return None


SBIND = re.compile(r"^\s*(?:const\s+)?auto\s*&?\s*\[([^\]]*)\]\s*=")


def written_set(text):
    """the names a simple statement declares / assigns (structured bindings included); None when it is not such a statement"""
    m = SBIND.match(text)
    if m:
        return set(x.strip() for x in m.group(1).split(","))
    w = written_var(text)
    return {w[0]} if w else None


def idents(text):
    return [m.group(1) for m in VAR.finditer(text) if m.group(1).split(".")[0].split("->")[0] not in KEYWORDS
            and not m.group(1)[0].isdigit() and not m.group(1).startswith("std")]


def pick_var(S, M, stmts, k):
    """a variable to act on after statement k: the most recent written one in the enclosing lists, else any identifier"""
    st = stmts[k]
    for j in range(k, -1, -1):
        o = stmts[j]
        if o["kind"] != "simple" or o["depth"] > st["depth"]:
            continue
        if o["block"] != st["block"] and not (o["start"] < st["start"] and o["depth"] < st["depth"]):
            continue
        w = written_var(M[o["start"]:o["end"]])
        if w and not w[2]:
            return w[0], w[1]
    for j in range(k, -1, -1):
        ids = idents(M[stmts[j]["start"]:stmts[j]["end"]])
        if ids:
            return ids[0], False
    return None, False


OPS = [  # (class, regex on the masked text, replacement)
    ("cmp", r"(?<=\s)<(?=\s)", "<="), ("cmp", r"(?<=\s)<=(?=\s)", "<"), ("cmp", r"(?<=\s)>(?=\s)", ">="), ("cmp", r"(?<=\s)>=(?=\s)", ">"),
    ("eq", r"(?<=\s)==(?=\s)", "!="), ("eq", r"(?<=\s)!=(?=\s)", "=="),
    ("logic", r"(?<=\s)&&(?=\s)", "||"), ("logic", r"(?<=\s)\|\|(?=\s)", "&&"),
    ("arith", r"(?<=\s)\+(?=\s)", "-"), ("arith", r"(?<=[%s)\s])\s-(?=\s)" % IDC, " +"), ("arith", r"(?<=\s)\*(?=\s)", "/"), ("arith", r"(?<=\s)/(?=\s)", "*"),
    ("cassign", r"\+=", "-="), ("cassign", r"-=", "+="), ("cassign", r"\*=", "/="), ("cassign", r"/=", "*="),
    ("const", r"(?<![%s.])0\.5(?![%s.])" % (IDC, IDC), "0.25"), ("const", r"(?<![%s.])(\d+)\.(\d+)(?![%s.])" % (IDC, IDC), None),
    ("const", r"(?<![%s.<])(\d+)(?![%s.>'])" % (IDC, IDC), None),
]


def op_candidates(M, a, b):
    out, seen = [], set()
    seg = M[a:b]
    for cls, rx, rep in OPS:
        for m in re.finditer(rx, seg):
            s, e = a + m.start(), a + m.end()
            if any(s < e2 and s2 < e for s2, e2 in seen):
                continue
            txt = M[s:e]
            if rep is None:
                if "." in txt:
                    r = txt + "5"
                else:
                    r = str(int(txt) + 1)
            else:
                r = rep
            if cls == "cmp":
                line = M[M.rfind("\n", 0, s) + 1:s]
                if re.search(r"\btemplate\s*$", line) or re.search(r"\b(static_cast|dynamic_cast|reinterpret_cast|const_cast)\s*$", line):
                    continue
            seen.add((s, e))
            out.append((cls, s, e, r))
    out.sort(key=lambda t: t[1])
    return out


def mutants_code(S, M, a, b, partner, single_statement=False, site=False):
    """mutants of the code unit S[a:b] (a..b = interior of a body, or a statement range): list of (kind, description, new text of S)"""
    stmts = [s for s in statements(M, a, b, partner)]
    stmts.sort(key=lambda s: (s["start"], -s["end"]))
    muts = []

    def line_of(p):
        return S.count("\n", 0, p) + 1

    def snippet(s):
        return " ".join(S[s["start"]:s["end"]].split())[:50]

    def indent_of(p):
        ls = S.rfind("\n", 0, p) + 1
        return re.match(r"[ \t]*", S[ls:p] if S[ls:p].strip() == "" else S[ls:]).group(0)

    # `[[fallthrough]];` does nothing and `assert(..);` does nothing in the NDEBUG build the checks run (harness/Makefile):
    # deleting / moving / changing them gives an equivalent program, no mutants there
    noop = re.compile(r"\s*(\[\[\s*\w+\s*\]\]\s*;|(static_)?assert\s*\(.*\)\s*;)\s*$", re.S)
    noops = [(s["start"], s["end"]) for s in stmts if noop.match(M[s["start"]:s["end"]])]
    stmts = [s for s in stmts if not noop.match(M[s["start"]:s["end"]])]
    simple = [s for s in stmts if s["kind"] == "simple"]
    body = [s for s in stmts if s["kind"] in ("simple", "ctrl", "fndef")]
    is_void = not re.search(r"\breturn\s+[^;]", M[a:b])
    terminal = re.compile(r"\s*(return|break|continue|throw)\b")
    # insertion points: after a statement that does not end the control flow, not the last of a value-returning body
    last0 = max([s["start"] for s in stmts if s["depth"] == 0] or [-1])
    points = [k for k, s in enumerate(stmts) if s["kind"] in ("simple", "ctrl") and not terminal.match(M[s["start"]:s["end"]])
              and not (single_statement and s["depth"] == 0)
              and not (site and s["depth"] == 0 and s["start"] == last0)]          # after the last statement of a site = outside the unit
    # (a) extra side effect
    for k in spread(points, 3):
        s = stmts[k]
        v, isb = pick_var(S, M, stmts, k)
        if v is None:
            continue
        new = "%s |= true;" % v if isb else "%s *= 2;" % v
        ind = indent_of(s["start"])
        muts.append(("ins", "line %d: after `%s` insert `%s`" % (line_of(s["end"]), snippet(s), new), S[:s["end"]] + "\n" + ind + new + S[s["end"]:]))
    # (b) early exit
    for n, k in enumerate(spread(points, 2)):
        s = stmts[k]
        v, isb = pick_var(S, M, stmts, k)
        if v is None:
            continue
        cond = v if isb else "%s > 0" % v
        if s["in_loop"]:
            jump = "continue;" if n == 0 else "break;"
        else:
            jump = "return;" if is_void else "return {};"
        new = "if (%s) %s" % (cond, jump)
        ind = indent_of(s["start"])
        muts.append(("exit", "line %d: after `%s` insert `%s`" % (line_of(s["end"]), snippet(s), new), S[:s["end"]] + "\n" + ind + new + S[s["end"]:]))
    # (c) duplicate a non-idempotent statement
    def non_idempotent(s):
        t = M[s["start"]:s["end"]]
        if re.match(r"\s*(return|throw|using|break|continue|case|default|static_assert|assert)\b", t) or DECL.match(t):
            return False
        if re.search(r"\+=|-=|\*=|/=|\+\+|--", t):
            return True
        m = ASSIGN.match(t)
        if m:
            return re.search(r"(?<![%s.>])%s(?![%s])" % (IDC, re.escape(m.group(1)), IDC), t[m.end():]) is not None
        return "(" in t and "=" not in re.sub(r"\([^()]*\)", "", re.sub(r"==|!=|<=|>=", "", t))      # a call statement
    cands = [s for s in simple if non_idempotent(s) and not (single_statement and s["depth"] == 0)]
    for s in spread(cands, 2):
        ind = indent_of(s["start"])
        muts.append(("dup", "line %d: duplicate `%s`" % (line_of(s["start"]), snippet(s)), S[:s["end"]] + "\n" + ind + S[s["start"]:s["end"]] + S[s["end"]:]))
    # (d) swap adjacent dependent statements
    pairs = []
    by_block = {}
    for s in body:
        by_block.setdefault(s["block"], []).append(s)
    for blk, lst in by_block.items():
        lst.sort(key=lambda s: s["start"])
        for x, y in zip(lst, lst[1:]):
            if x["kind"] == "fndef" or y["kind"] == "fndef" or (single_statement and x["depth"] == 0):
                continue
            tx, ty = M[x["start"]:x["end"]], M[y["start"]:y["end"]]
            if tx.split() == ty.split():
                continue
            wx, wy = written_var(tx) if x["kind"] == "simple" else None, written_var(ty) if y["kind"] == "simple" else None
            ix, iy = set(idents(tx)), set(idents(ty))
            # dependent: one writes (declares / assigns) what the other mentions, or one is a call statement (unknown effects)
            # sharing an identifier with the other; two statements that only READ common names commute (equivalent mutant)
            Wx = written_set(tx) if x["kind"] == "simple" else None
            Wy = written_set(ty) if y["kind"] == "simple" else None
            callx = x["kind"] == "ctrl" or (Wx is None and "(" in tx)
            cally = y["kind"] == "ctrl" or (Wy is None and "(" in ty)
            dep = bool((Wx and Wx & iy) or (Wy and Wy & ix) or ((callx or cally) and ix & iy))
            if not dep:
                continue
            score = 0
            if wx and wx[3] and wx[0] in iy:
                score += 2                      # the second uses a name the first declares: the swapped program does not compile
            if terminal.match(ty) or terminal.match(tx):
                score += 1
            if not (wx and wx[0] in iy) and not (wy and wy[0] in ix):
                score += 1                      # shared identifiers are only read
            pairs.append((score, x["start"], x, y))
    pairs.sort(key=lambda t: (t[0], t[1]))
    best = [p for p in pairs if p[0] == pairs[0][0]] if pairs else []
    for _, _, x, y in spread(best, 2):
        new = S[:x["start"]] + S[y["start"]:y["end"]] + S[x["end"]:y["start"]] + S[x["start"]:x["end"]] + S[y["end"]:]
        muts.append(("swap", "line %d: swap `%s` and `%s`" % (line_of(x["start"]), snippet(x), snippet(y)), new))
    # (e) operator / constant
    ops = [o for o in op_candidates(M, a, b) if not any(x <= o[1] < y for x, y in noops)]
    chosen, classes = [], []
    for c in ops:
        if c[0] not in classes:
            classes.append(c[0])
    per = {c: spread([o for o in ops if o[0] == c], 2) for c in classes}
    rr = 0
    while len(chosen) < 5 * DEPTH[0] and any(per.values()):
        c = classes[rr % len(classes)]; rr += 1
        if per[c]:
            chosen.append(per[c].pop(0))
    for cls, s, e, r in sorted(chosen, key=lambda t: t[1]):
        ls, le = S.rfind("\n", 0, s) + 1, S.find("\n", e)
        muts.append(("op", "line %d: `%s` -> `%s` in `%s`" % (line_of(s), S[s:e].strip(), r.strip(), " ".join(S[ls:le].split())[:60]), S[:s] + r + S[e:]))
    # (f) delete a statement
    dels = [s for s in body if not (single_statement and s["depth"] == 0)]
    for s in spread(dels, 3):
        end = s["end"]
        muts.append(("del", "line %d: delete `%s`" % (line_of(s["start"]), snippet(s)), S[:s["start"]] + S[end:]))
    if single_statement and stmts:
        s0 = min(stmts, key=lambda s: (s["depth"], s["start"]))
        if s0["depth"] == 0 and s0["start"] <= a + 2:
            muts.append(("del", "line %d: delete `%s`" % (line_of(s0["start"]), snippet(s0)), S[:s0["start"]] + S[s0["end"]:]))
    return muts


def entry_name(text, ms):
    """the identifier match (one of ms) that names a table entry: the declared function / function pointer / variable / key"""
    fp = re.search(r"\(\s*\*\s*(%s)\s*\)" % ID, text)
    if fp:
        return [m for m in ms if m.start() == fp.start(1)][0]
    if "(" in text and not re.match(r"\s*[A-Z_]+\s*\(", text):           # a function declaration: the name before the parameter list
        before = [m for m in ms if m.end() <= text.index("(")]
        if before:
            return before[-1]
    if "=" in text:
        return ([m for m in ms if m.end() <= text.index("=")] or ms)[-1]
    return ms[-1]


def mutants_table(S, M, entries, sep, kind):
    """mutants of a table whose entries are the spans `entries` (struct fields / enumerators / macro arguments)"""
    muts = []

    def line_of(p):
        return S.count("\n", 0, p) + 1

    def snip(e):
        return " ".join(S[e[0]:e[1]].split())[:50]
    if not entries:
        return muts
    for e in spread(entries, 2):                                               # delete
        s, t = e
        if sep == ",":
            t2 = t
            while t2 < len(M) and M[t2].isspace(): t2 += 1
            if t2 < len(M) and M[t2] == ",":
                t = t2 + 1
            else:
                s2 = s
                while s2 > 0 and M[s2 - 1].isspace(): s2 -= 1
                if s2 > 0 and M[s2 - 1] == ",":
                    s = s2 - 1
        muts.append(("del", "line %d: delete entry `%s`" % (line_of(e[0]), snip(e)), S[:s] + S[t:]))
    for e in spread(entries, 1):                                               # duplicate
        txt = S[e[0]:e[1]]
        muts.append(("dup", "line %d: duplicate entry `%s`" % (line_of(e[0]), snip(e)), S[:e[1]] + (", " if sep == "," else "\n    ") + txt + S[e[1]:]))
    adj = [(x, y) for x, y in zip(entries, entries[1:]) if S[x[0]:x[1]].split() != S[y[0]:y[1]].split()]
    for x, y in spread(adj, 2):                                                # swap
        muts.append(("swap", "line %d: swap entries `%s` and `%s`" % (line_of(x[0]), snip(x), snip(y)),
                     S[:x[0]] + S[y[0]:y[1]] + S[x[1]:y[0]] + S[x[0]:x[1]] + S[y[1]:]))
    for e in spread(entries, 2):                                               # rename the last identifier of an entry
        ms = [m for m in re.finditer(ID, M[e[0]:e[1]]) if not m.group(0)[0].isdigit() and m.group(0) not in KEYWORDS]
        if ms:
            m = entry_name(M[e[0]:e[1]], ms)
            p = e[0] + m.end()
            muts.append(("op", "line %d: rename `%s` -> `%s_x` in `%s`" % (line_of(e[0]), m.group(0), m.group(0), snip(e)), S[:p] + "_x" + S[p:]))
    for cls, s, t, r in spread([o for o in op_candidates(M, entries[0][0], entries[-1][1]) if o[0] in ("const", "cmp", "arith", "eq")], 2):
        muts.append(("op", "line %d: `%s` -> `%s`" % (line_of(s), S[s:t].strip(), r.strip()), S[:s] + r + S[t:]))
    e = entries[len(entries) // 2]                                              # insert a new entry
    txt = S[e[0]:e[1]]
    ms = [m for m in re.finditer(ID, M[e[0]:e[1]]) if not m.group(0)[0].isdigit() and m.group(0) not in KEYWORDS]
    if ms:
        m = entry_name(M[e[0]:e[1]], ms)
        new = txt[:m.end()] + "_audit" + txt[m.end():]
        muts.append(("ins", "line %d: insert entry `%s`" % (line_of(e[1]), " ".join(new.split())[:50]),
                     S[:e[1]] + (", " if sep == "," else "\n    ") + new + S[e[1]:]))
    if kind == "struct":
        muts.append(("ins", "line %d: insert field `long audit_extra = 0;`" % line_of(e[1]), S[:e[1]] + "\n    long audit_extra = 0;" + S[e[1]:]))
    return muts


# ----------------------------------------------------------------------------- running a translator

def translator_args(t, repo, out):
    return [sys.executable, os.path.join(TRANSLATE, t)]


REPORTED = re.compile(r"out-of-grammar|OutOfGrammar|translator-failed|Traceback \(most recent call last\)|\"ok\": false|'ok': False|REFERENCE|"
                      r"\"out_of_grammar\": (\{\s*\"|\[\s*\")|\"unparsed_counters\": \[\s*\"|<out-of-grammar>|<special>")


def strip_coq_comments(s):
    out, i, d, n = [], 0, 0, len(s)
    while i < n:
        if s.startswith("(*", i):
            d += 1; i += 2
        elif s.startswith("*)", i) and d:
            d -= 1; i += 2
        else:
            if not d:
                out.append(s[i])
            i += 1
    return re.sub(r"[ \t]+\n", "\n", "".join(out))


def run_translator(t, repo, out):
    if os.path.isdir(out):
        shutil.rmtree(out)
    os.makedirs(out)
    env = dict(os.environ, VERIF_REPO=repo, VERIF_GEN_OUT=out, PYTHONDONTWRITEBYTECODE="1")
    try:
        p = subprocess.run(translator_args(t, repo, out), capture_output=True, text=True, env=env, timeout=300)
        rc, txt = p.returncode, p.stdout + p.stderr
    except subprocess.TimeoutExpired:
        rc, txt = 124, "timeout"
    files = {}
    for dp, dn, fn in os.walk(out):
        for f in sorted(fn):
            p_ = os.path.join(dp, f)
            s = open(p_, encoding="utf-8", errors="replace").read().replace(repo, "<REPO>")
            files[os.path.relpath(p_, out)] = strip_coq_comments(s) if f.endswith(".v") else s
    return rc, txt.replace(repo, "<REPO>"), files


def verdict(base, res):
    """'oog' | 'crash' | 'diff' | 'MISS'"""
    rc, txt, files = res
    brc, btxt, bfiles = base
    if "Traceback (most recent call last)" in txt:
        return "crash"
    if rc != brc or (REPORTED.search(txt) and not REPORTED.search(btxt)):
        return "oog"
    if any(REPORTED.search(v) for v in files.values()) and not any(REPORTED.search(v) for v in bfiles.values()):
        return "oog"
    if files != bfiles:
        return "diff"
    return "MISS"


# ----------------------------------------------------------------------------- workers

_W = {}


def _init(work, counter, lock):
    with lock:
        k = counter.value
        counter.value += 1
    d = os.path.join(work, "w%02d" % k)
    _W["repo"] = os.path.join(d, "repo")
    _W["out"] = os.path.join(d, "out")
    if os.path.isdir(d):
        shutil.rmtree(d)
    for sub in COPY_DIRS:
        shutil.copytree(os.path.join(REPO, sub), os.path.join(_W["repo"], sub), symlinks=True)


def _job(job):
    """job = (translator, relative file or None, new text or None) -> (rc, text, files)"""
    t, rel, text = job
    if rel is None:
        return run_translator(t, _W["repo"], _W["out"])
    p = os.path.join(_W["repo"], rel)
    orig = open(os.path.join(REPO, rel), encoding="utf-8").read()
    try:
        open(p, "w", encoding="utf-8").write(text)
        return run_translator(t, _W["repo"], _W["out"])
    finally:
        open(p, "w", encoding="utf-8").write(orig)


TRACER = r"""
import builtins, io, os, runpy, sys
log = open(os.environ["AUDIT_TRACE"], "w")
_open = builtins.open
def traced(file, mode="r", *a, **k):
    if isinstance(file, (str, bytes, os.PathLike)) and "r" in str(mode) and "+" not in str(mode):
        log.write(os.path.abspath(os.fspath(file)) + "\n"); log.flush()
    return _open(file, mode, *a, **k)
builtins.open = traced
io.open = traced
sys.argv = [sys.argv[1]] + sys.argv[2:]
runpy.run_path(sys.argv[0], run_name="__main__")
"""


def files_read(t, repo, work):
    """source files (relative to the repo) the translator opens"""
    out = os.path.join(work, "trace_out")
    os.makedirs(out, exist_ok=True)
    tr = os.path.join(work, "trace_%s.txt" % t)
    env = dict(os.environ, VERIF_REPO=repo, VERIF_GEN_OUT=out, AUDIT_TRACE=tr, PYTHONDONTWRITEBYTECODE="1")
    subprocess.run([sys.executable, "-c", TRACER, os.path.join(TRANSLATE, t)], capture_output=True, text=True, env=env, timeout=300)
    rels = []
    for line in open(tr):
        p = line.strip()
        if p.startswith(repo + "/") and not SKIP_FILE.search(p) and os.path.isfile(p):
            r = os.path.relpath(p, repo)
            if r not in rels:
                rels.append(r)
    return rels


# ----------------------------------------------------------------------------- unit discovery

def discover(t, rels, pool, base, verbose):
    """-> list of units: dict(file, name, mode 'code'|'struct'|'enum'|'list', a, b (interior span), single)"""
    units = []
    texts = {}
    cand = []           # (rel, block index)
    info = {}
    for rel in rels:
        S = open(os.path.join(REPO, rel), encoding="utf-8").read()
        if not rel.endswith((".hpp", ".tpp", ".cpp", ".h", ".ipp", ".hh", ".cc")):
            continue
        M = mask_preprocessor(S, mask(S))
        partner = match_table(M)
        B = blocks_of(M, partner)
        info[rel] = (S, M, partner, B)
    cont_rx = re.compile(CONTAINERS[t]) if t in CONTAINERS else None
    # C18 reads every header: only struct / enum blocks are candidates there, and the macro tables
    only_tables = t == "gen_C18_tables.py"
    for rel, (S, M, partner, B) in info.items():
        for bi, b in enumerate(B):
            if b["kind"] not in ("fn", "lambda", "struct", "enum"):
                continue
            if only_tables and b["kind"] in ("fn", "lambda"):
                continue
            if not M[b["open"] + 1:b["close"]].strip():
                continue
            cand.append((rel, bi))
    # probe: garbage in the interior
    jobs = []
    for rel, bi in cand:
        S, M, partner, B = info[rel]
        b = B[bi]
        jobs.append((t, rel, S[:b["open"] + 1] + " @@audit_garbage@@ " + S[b["close"]:]))
    results = pool.map(_job, jobs, chunksize=1)
    reacts = {}
    for (rel, bi), res in zip(cand, results):
        reacts[(rel, bi)] = verdict(base, res) != "MISS"
    for rel, (S, M, partner, B) in info.items():
        def ancestors(bi):
            p = B[bi]["parent"]
            while p is not None:
                yield p
                p = B[p]["parent"]
        for bi, b in enumerate(B):
            if not reacts.get((rel, bi)):
                continue
            line = S.count("\n", 0, b["open"]) + 1
            name = "%s %s@%d" % (b["kind"], b["name"], line)
            if b["kind"] in ("fn", "lambda"):
                if cont_rx and cont_rx.fullmatch(b["name"]):
                    continue                                                # container: its sites are listed in SITES
                # inside another reacting, non-container code unit: part of that unit
                inside = [a for a in ancestors(bi) if reacts.get((rel, a)) and B[a]["kind"] in ("fn", "lambda")
                          and not (cont_rx and cont_rx.fullmatch(B[a]["name"]))]
                if inside:
                    continue
                units.append(dict(file=rel, name=name, mode="code", a=b["open"] + 1, b=b["close"], single=False))
            else:
                # a struct whose member functions are units is a table only if garbage in its own fields is noticed: probe later by mutation
                kids = [k for k in range(len(B)) if B[k]["parent"] == bi and reacts.get((rel, k)) and B[k]["kind"] in ("fn", "lambda", "struct", "enum")]
                if kids:
                    continue            # a struct that reacts through its member functions / nested structs: those are the units
                mode = b["kind"]
                if any(t == lt and rel.endswith(lf) and re.fullmatch(lr, name) for lt, lf, lr, _ in LOOKUP):
                    mode = "lookup"
                units.append(dict(file=rel, name=name, mode=mode, a=b["open"] + 1, b=b["close"], single=False, kids=kids))
    # sites
    for st in SITES:
        if st[0] != t:
            continue
        rel = [r for r in info if r.endswith(st[1])]
        if not rel:
            units.append(dict(file=st[1], name=st[2], mode="missing", a=0, b=0, single=False))
            continue
        rel = rel[0]
        S, M, partner, B = info[rel]
        ms = list(re.finditer(st[3], M))
        if t == "gen_C07_alm.py" and st[2] in ("site:outer_loop", "site:penalty_selection", "site:initial_tolerance"):
            i0 = M.find("constexpr auto NaN")
            ms = [m for m in ms if m.start() > i0]
        if t == "gen_C07_alm.py" and st[2] == "site:m0_options":
            i0 = M.find("constexpr auto NaN")
            ms = [m for m in ms if m.start() < i0]
        if t == "gen_kernels.py" and st[2] == "site:ls_qub_if":
            ms = ms[:1]
        if len(ms) != 1:
            units.append(dict(file=rel, name=st[2], mode="missing", a=0, b=0, single=False, why="%d matches" % len(ms)))
            continue
        # the statement containing the match: take the innermost enclosing block and split it into statements
        pos = ms[0].start()
        enc = [b for b in B if b["open"] < pos < b["close"]]
        blk = max(enc, key=lambda b: b["open"])
        sts = [s for s in statements(M, blk["open"] + 1, blk["close"], partner) if s["depth"] == 0]
        first = [s for s in sts if s["start"] <= pos < s["end"]]
        if not first:
            units.append(dict(file=rel, name=st[2], mode="missing", a=0, b=0, single=False, why="statement not found"))
            continue
        a, b_ = first[0]["start"], first[0]["end"]
        single = True
        if len(st) > 4:
            m2 = re.compile(st[4]).search(M, pos)
            last = [s for s in sts if m2 and s["start"] <= m2.start() < s["end"]]
            if last:
                b_ = last[0]["end"]; single = False
        units.append(dict(file=rel, name="%s@%d" % (st[2], S.count("\n", 0, a) + 1), mode="code", a=a, b=b_, single=single, site=True))
    # macro tables
    for tb in TABLES:
        if tb[0] != t:
            continue
        for rel in info:
            if not rel.endswith(tb[1]):
                continue
            S, M, partner, B = info[rel]
            for m in re.finditer(tb[2], M):
                o = m.end() - 1
                if o in partner:
                    ents = list_entries(M, o + 1, partner[o], partner)
                    nm = " ".join(S[ents[0][0]:ents[0][1]].split())[:40] if ents else "?"
                    units.append(dict(file=rel, name="table %s(%s)@%d" % (m.group(0).strip(" ("), nm, S.count("\n", 0, o) + 1), mode="list",
                                      a=o + 1, b=partner[o], single=False))
    return units, info


def struct_entries(M, u, partner):
    sts = [s for s in statements(M, u["a"], u["b"], partner) if s["depth"] == 0 and s["kind"] == "simple"]
    return [(s["start"], s["end"]) for s in sts if not re.match(r"\s*(using|template|friend|typedef|public|private|protected|static_assert)\b", M[s["start"]:s["end"]])]


def unit_mutants(u, info):
    S, M, partner, B = info[u["file"]]
    if u["mode"] == "lookup":
        used = u.get("used")
        if used is None:           # stage 1: delete every entry
            return [("probe", "line %d: delete entry `%s`" % (S.count("\n", 0, a) + 1, " ".join(S[a:b].split())[:50]), S[:a] + S[b:])
                    for a, b in struct_entries(M, u, partner)]
        return [m for m in mutants_table(S, M, used, ";", "lookup") if m[0] in ("dup", "op", "del")]
    if u["mode"] == "code":
        return mutants_code(S, M, u["a"], u["b"], partner, single_statement=u["single"], site=u.get("site", False))
    if u["mode"] == "list":
        ents = list_entries(M, u["a"], u["b"], partner)
        first_is_type = M[u["a"] - 1] == "("            # macro tables: the first argument is the type the table is for
        return mutants_table(S, M, ents[1:] if first_is_type and len(ents) > 2 else ents, ",", "list")
    if u["mode"] == "enum":
        return mutants_table(S, M, list_entries(M, u["a"], u["b"], partner), ",", "enum")
    if u["mode"] == "struct":
        return mutants_table(S, M, struct_entries(M, u, partner), ";", "struct")
    return []


# ----------------------------------------------------------------------------- main

def main():
    ap = argparse.ArgumentParser()
    ap.add_argument("--jobs", type=int, default=12)
    ap.add_argument("--translators", default="")
    ap.add_argument("--units", default="")
    ap.add_argument("--list", action="store_true", help="list the units and the number of mutants, run nothing")
    ap.add_argument("--show", action="store_true", help="print the changed lines of every silent miss")
    ap.add_argument("-v", action="store_true")
    ap.add_argument("--depth", type=int, default=1, help="multiply the number of mutants per kind and unit (default 1; 1000 = every candidate)")
    a = ap.parse_args()
    DEPTH[0] = max(1, a.depth)
    jobs = max(1, min(a.jobs, 12))
    work = os.environ.get("VERIF_AUDIT_WORK") or os.path.join(VERIF, "build", "translator_audit_work")
    os.makedirs(work, exist_ok=True)
    trs = sorted(f for f in os.listdir(TRANSLATE) if re.fullmatch(r"gen_\w+\.py", f))
    if a.translators:
        want = [x if x.endswith(".py") else x + ".py" for x in a.translators.split(",")]
        trs = [t for t in trs if t in want or t.replace("gen_", "") in want]
    t0 = time.time()
    ctx = multiprocessing.get_context("fork")
    counter, lock = ctx.Value("i", 0), ctx.Lock()
    pool = ctx.Pool(jobs, initializer=_init, initargs=(work, counter, lock))
    report = dict(repo=REPO, translators={}, mutants=[])
    any_miss = False
    lines = []
    for t in trs:
        base = pool.apply(_job, ((t, None, None),))
        base2 = pool.apply(_job, ((t, None, None),))
        if base[0] != 0 or REPORTED.search(base[1]):
            print("%-22s BASELINE NOT OK rc=%d %s" % (t, base[0], base[1][-200:].replace("\n", " ")))
            report["translators"][t] = dict(baseline="not ok", detail=base[1][-500:])
            any_miss = True
            continue
        if base[2] != base2[2]:
            print("%-22s BASELINE NOT DETERMINISTIC" % t)
        rels = files_read(t, REPO, work)
        units, info = discover(t, rels, pool, base, a.v)
        if a.units:
            units = [u for u in units if re.search(a.units, u["file"] + "|" + u["name"])]
        # lookup tables, stage 1: which entries does the translator look up?
        for u in units:
            if u["mode"] == "lookup":
                probes = unit_mutants(u, info)
                res_ = pool.map(_job, [(t, u["file"], p[2]) for p in probes], chunksize=1)
                ents = struct_entries(info[u["file"]][1], u, info[u["file"]][2])
                u["used"] = [e for e, r in zip(ents, res_) if verdict(base, r) != "MISS"]
                u["name"] += " [lookup: %d of %d entries used]" % (len(u["used"]), len(ents))
        jobs_, meta = [], []
        for u in units:
            if u["mode"] == "missing":
                print("%-22s %-40s %-44s UNIT NOT FOUND (%s)" % (t, u["file"][-40:], u["name"], u.get("why", "file not read")))
                any_miss = True
                continue
            ms = unit_mutants(u, info)
            for kind, desc, text in ms:
                if text == info[u["file"]][0]:
                    continue
                jobs_.append((t, u["file"], text)); meta.append((u, kind, desc))
        if a.list:
            for u in units:
                n = sum(1 for m in meta if m[0] is u)
                print("%-22s %-44s %-50s %-6s %3d mutants" % (t, u["file"][-44:], u["name"][:50], u["mode"], n))
            continue
        results = pool.map(_job, jobs_, chunksize=1)
        stat = dict(units=len([u for u in units if u["mode"] != "missing"]), mutants=0, oog=0, diff=0, crash=0, MISS=0, waived=0, files=rels)
        for (u, kind, desc), res, job in zip(meta, results, jobs_):
            v = verdict(base, res)
            key = "%s|%s|%s|%s %s" % (t, u["file"], u["name"], kind, desc)
            waived = None
            if v == "MISS":
                for rx, why in WAIVERS:
                    if re.search(rx, key):
                        waived = why
            stat["mutants"] += 1
            if waived:
                stat["waived"] += 1
                v = "waived"
            else:
                stat[v] += 1
            if v == "MISS":
                any_miss = True
            print("%-6s %-20s %-34s %-38s %-5s %s%s" % (v, t, u["file"][-34:], u["name"][:38], kind, desc, ("   [waived: %s]" % waived) if waived else ""))
            if v == "MISS" and a.show:
                old, new = info[u["file"]][0].split("\n"), job[2].split("\n")
                import difflib
                for l in difflib.unified_diff(old, new, lineterm="", n=1):
                    if not l.startswith(("---", "+++")):
                        print("         " + l)
            report["mutants"].append(dict(translator=t, file=u["file"], unit=u["name"], mode=u["mode"], mutation=kind, description=desc, verdict=v,
                                          waived=waived, status=res[1][-160:] if v in ("oog", "crash") else ""))
        report["translators"][t] = stat
    pool.close(); pool.join()
    if a.list:
        return 0
    print()
    print("%-22s %5s %7s %5s %5s %5s %6s %6s" % ("translator", "units", "mutants", "oog", "diff", "crash", "waived", "MISS"))
    tot = dict(units=0, mutants=0, oog=0, diff=0, crash=0, waived=0, MISS=0)
    for t, s in report["translators"].items():
        if "mutants" not in s:
            continue
        print("%-22s %5d %7d %5d %5d %5d %6d %6d" % (t, s["units"], s["mutants"], s["oog"], s["diff"], s["crash"], s["waived"], s["MISS"]))
        for k in tot:
            tot[k] += s[k]
    print("%-22s %5d %7d %5d %5d %5d %6d %6d" % ("TOTAL", tot["units"], tot["mutants"], tot["oog"], tot["diff"], tot["crash"], tot["waived"], tot["MISS"]))
    print("time: %.0f s   silent misses: %d" % (time.time() - t0, tot["MISS"]))
    report["total"] = tot
    os.makedirs(os.path.join(VERIF, "build"), exist_ok=True)
    json.dump(report, open(os.path.join(VERIF, "build", "translator_audit.json"), "w"), indent=1, ensure_ascii=False)
    return 1 if any_miss else 0


if __name__ == "__main__":
    sys.exit(main())
