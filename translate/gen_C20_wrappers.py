#!/usr/bin/env python3
"""translate/gen_C20_wrappers.py — G7 (+ the C20 parts of G6/G8): regenerates coq/gen/Wrappers.v from the CURRENT sources

  problem/problem-with-counters.hpp   forwarding members + provides_* of ProblemWithCounters, reset/decouple bodies
  problem/ocproblem.hpp               the same for ControlProblemWithCounters
  problem/problem-counters.hpp, ocproblem-counters.hpp     counter field lists
  implementation/problem/type-erased-problem.tpp           default_* : throws not_implemented_error? under which name?
  interop/dl/src/dl-problem.cpp + interop/dl-api/.../dl-problem.h   DLProblem / DLControlProblem forwarders vs C signatures

Restricted grammar: one member per line, `RET NAME(PARAMS) const [requires requires [(Problem p)] { ... }] { BODY }`.
Lines that look like forwarding members but do not parse are listed in `out_of_grammar` (never a violation by itself).
Usable standalone (`python3 translate/gen_C20_wrappers.py [repo]`) and from lib/vf/props/C20.py (`generate(repo, verif)`).
"""
import os, re, sys, json

ID = "[\\w\u0300-\u036f]+"

def strip_attrs(s):
    return re.sub(r"\[\[[^\]]*\]\]", "", s).strip()

def balanced(s, i, open_="{", close="}"):
    """s[i] == open_; returns index just after the matching close"""
    assert s[i] == open_, (s[i:i + 20], open_)
    d = 0
    for j in range(i, len(s)):
        if s[j] == open_:
            d += 1
        elif s[j] == close:
            d -= 1
            if d == 0:
                return j + 1
    raise ValueError("unbalanced")

def split_args(s):
    out, d, cur = [], 0, ""
    for ch in s:
        if ch in "([{<":
            d += 1
        elif ch in ")]}>":
            d -= 1
        if ch == "," and d == 0:
            out.append(cur.strip()); cur = ""
        else:
            cur += ch
    if cur.strip():
        out.append(cur.strip())
    return out

def param_names(params):
    names = []
    for p in split_args(params):
        m = re.search(r"(%s)\s*$" % ID, p)
        names.append(m.group(1) if m else p)
    return names

def struct_body(src, name):
    m = re.search(r"struct\s+%s\s*\{" % re.escape(name), src)
    if not m:
        return None
    i = m.end() - 1
    return src[i:balanced(src, i)]

def member_chunks(body):
    """split a struct body `{...}` into its top-level members (multi-line members are joined, comments removed)"""
    txt = re.sub(r"//[^\n]*", "", body[1:-1])
    chunks, cur, d, i = [], "", 0, 0
    while i < len(txt):
        ch = txt[i]
        cur += ch
        if ch in "{(":
            d += 1
        elif ch in "})":
            d -= 1
            if ch == "}" and d == 0:
                j = i + 1
                while j < len(txt) and txt[j].isspace():
                    j += 1
                if j >= len(txt) or txt[j] not in "{;":
                    chunks.append(cur); cur = ""
        elif ch == ";" and d == 0:
            chunks.append(cur); cur = ""
        i += 1
    if cur.strip():
        chunks.append(cur)
    return [re.sub(r"\s+", " ", c).strip() for c in chunks if c.strip()]

def parse_member(line):
    """returns dict or None (not a forwarding member) or raises ValueError (looks like one but is out of grammar)"""
    s = strip_attrs(line.strip())
    if "problem." not in s or "(" not in s or s.startswith("//") or s.startswith("explicit") or s.startswith(":"):
        return None
    i = s.index("(")
    m = re.search(r"(%s)\s*$" % ID, s[:i])
    if not m:
        raise ValueError("no name")
    name = m.group(1)
    j = balanced(s, i, "(", ")")
    params = s[i + 1:j - 1]
    rest = s[j:].strip()
    if not rest.startswith("const"):
        raise ValueError("not const")
    rest = rest[5:].strip()
    req = None
    req_kind = None
    if rest.startswith("requires"):
        m = re.match(r"requires\s+requires\s*(\([^)]*\))?\s*", rest)
        if not m:
            raise ValueError("requires form")
        k = m.end()
        e = balanced(rest, k)
        rb = rest[k + 1:e - 1].strip()
        rest = rest[e:].strip()
        m1 = re.fullmatch(r"&\s*std::remove_cvref_t<Problem>::(%s)\s*;" % ID, rb)
        m2 = re.fullmatch(r"\{\s*p\.(%s)\(\)\s*\}\s*->\s*std::convertible_to<bool>\s*;" % ID, rb)
        if m1:
            req, req_kind = m1.group(1), "member"
        elif m2:
            req, req_kind = m2.group(1), "call"
        else:
            raise ValueError("requires body: " + rb)
    if not rest.startswith("{"):
        raise ValueError("no body")
    e = balanced(rest, 0)
    if rest[e:].strip():
        raise ValueError("trailing text")
    body = rest[1:e - 1].strip()
    counter = timer = None
    m = re.match(r"\+\+evaluations->(%s)\s*;\s*" % ID, body)
    if m:
        counter = m.group(1)
        body = body[m.end():]
    m = re.fullmatch(r"return\s+timed\(\s*evaluations->time\.(%s)\s*,\s*\[&\]\s*\{\s*return\s+problem\.(%s)\((.*)\)\s*;\s*\}\s*\)\s*;" % (ID, ID), body)
    if m:
        timer, callee, args = m.group(1), m.group(2), m.group(3)
    else:
        m = re.fullmatch(r"(?:return\s+)?problem\.(%s)\((.*)\)\s*;" % ID, body)
        if not m:
            raise ValueError("body: " + body)
        callee, args = m.group(1), m.group(2)
    return dict(name=name, counter=counter, timer=timer, callee=callee, requires=req, req_kind=req_kind,
                params=param_names(params), args=split_args(args))

def parse_wrapper(src, struct):
    body = struct_body(src, struct)
    res = dict(methods=[], provides=[], getters=[], oog=[], reset=None, decouple=None, found=body is not None)
    if body is None:
        return res
    parsed_incr = []
    for line in member_chunks(body):
        try:
            m = parse_member(line)
        except ValueError as ex:
            res["oog"].append("%s: %s" % (struct, line.strip()[:100]))
            continue
        if m and m["counter"]:
            parsed_incr.append(m["counter"])
        if not m:
            continue
        if m["name"].startswith("provides_"):
            res["provides"].append(m)
        else:
            res["methods"].append(m)
    # counters incremented somewhere in the struct by a member that did not parse: excluded from the "exactly one member" theorem
    all_incr = re.findall(r"\+\+\s*evaluations\s*->\s*(%s)" % ID, body)
    res["unparsed_counters"] = sorted(set(c for c in all_incr if all_incr.count(c) != parsed_incr.count(c)))
    m = re.search(r"void\s+reset_evaluations\(\)\s*\{([^}]*)\}", body)
    if m:
        b = re.sub(r"\s+", "", m.group(1))
        if b == "evaluations.reset();":
            res["reset"] = "ResetNullsPointer"
        elif b in ("evaluations->reset();", "*evaluations={};", "(*evaluations).reset();"):
            res["reset"] = "ResetZeroesBlock"
        else:
            res["oog"].append("%s: reset_evaluations body '%s'" % (struct, m.group(1).strip()))
    else:
        res["oog"].append("%s: reset_evaluations not found" % struct)
    m = re.search(r"void\s+decouple_evaluations\(\)\s*\{([^}]*)\}", body)
    if m:
        b = re.sub(r"\s+", "", m.group(1))
        if re.fullmatch(r"evaluations=std::make_shared<\w+>\(\*evaluations\);", b):
            res["decouple"] = True
        else:
            res["oog"].append("%s: decouple_evaluations body '%s'" % (struct, m.group(1).strip()))
    else:
        res["oog"].append("%s: decouple_evaluations not found" % struct)
    return res

def counter_fields(src, struct, oog):
    """every member of the counter struct is accounted for: `unsigned NAME{};`, the nested timer struct, `void reset() { *this = {}; }`"""
    body = struct_body(re.sub(r"/\*.*?\*/", " ", src, flags=re.S), struct)
    if body is None:
        return []
    fields, timers = [], None
    chunks = member_chunks(body)
    for k, c in enumerate(chunks):
        if re.fullmatch(r"struct \w+ \{.*\}", c):
            timers = re.findall(r"std::chrono::nanoseconds (%s) ?\{" % ID, c)
        if c == "time;" and k and re.fullmatch(r"struct \w+ \{ ?(std::chrono::nanoseconds %s ?\{ ?\} ?; ?)+\}" % ID, chunks[k - 1]):
            continue
        if re.fullmatch(r"struct \w+ \{.*\}", c) and chunks[k + 1:k + 2] == ["time;"]:
            if not re.fullmatch(r"struct \w+ \{ ?(std::chrono::nanoseconds %s ?\{ ?\} ?; ?)+\}" % ID, c):
                oog.append("%s: timer struct '%s'" % (struct, c[:60]))
            continue
        m = re.fullmatch(r"unsigned (%s) ?\{ ?\} ?;" % ID, c)
        if m:
            if m.group(1) in fields:
                oog.append("%s: counter %s declared twice" % (struct, m.group(1)))
            fields.append(m.group(1))
        elif not (re.fullmatch(r"struct \w+ \{ ?(std::chrono::nanoseconds %s ?\{ ?\} ?; ?)+\} time ?;" % ID, c) or
                  re.fullmatch(r"void reset\(\) \{ ?\*this = \{ ?\} ?; ?\}", c)):
            oog.append("%s: member '%s' is not a counter" % (struct, c[:60]))
    if timers != fields:          # the timer struct is not translated by itself: it must list the same names as the counters, in the same order
        oog.append("%s: the timers %s are not the counters %s" % (struct, timers, fields))
    return fields

def parse_defaults(src, oog):
    """default_* of the vtable: the body is exactly one of the shapes below (anything else with a throw -> out_of_grammar)"""
    out = []
    for m in re.finditer(r"ProblemVTable<Conf>::default_(%s)\(" % ID, src):
        name = m.group(1)
        k = src.index("{", balanced(src, m.end() - 1, "(", ")"))
        # skip a trailing return type
        body = src[k + 1:balanced(src, k) - 1]
        t = re.search(r'throw\s+not_implemented_error\(\s*"([^"]*)"\s*\)', body)
        stripped = re.sub(r"\s+", " ", re.sub(r"/\*.*?\*/|//[^\n]*", "", body, flags=re.S)).strip()
        if t:
            kind = "DThrows" if stripped.startswith("throw") else "DConditional"
            thr = r'throw not_implemented_error\( ?"[^"]*" ?\) ?;'
            if not (re.fullmatch(thr, stripped) or
                    re.fullmatch(r"if \(vtable\.m != 0\) " + thr, stripped) or
                    re.fullmatch(r"if \(vtable\.m == 0 && vtable\.(%s) != (?:ProblemVTable<Conf>::)?default_\1\) return vtable\.\1\([^;{}]*\); " % ID + thr, stripped)):
                oog.append("default_%s: body '%s' is not one of the known throwing shapes" % (name, stripped[:80]))
            out.append((name, kind, t.group(1)))
        else:
            out.append((name, "DComposes", None))
    return out

DL_DATA_MEMBERS = {
    "alpaqa_problem_functions_t": ["alpaqa_length_t n ALPAQA_DEFAULT(0);", "alpaqa_length_t m ALPAQA_DEFAULT(0);", "const char *name ALPAQA_DEFAULT(nullptr);"],
    "alpaqa_control_problem_functions_t": ["alpaqa_length_t N ALPAQA_DEFAULT(0), nx ALPAQA_DEFAULT(0), nu ALPAQA_DEFAULT(0), nh ALPAQA_DEFAULT(0), "
                                           "nh_N ALPAQA_DEFAULT(0), nc ALPAQA_DEFAULT(0), nc_N ALPAQA_DEFAULT(0);"],
}


def c_signatures(hsrc, oog):
    """function tables of dl-problem.h; every member of the two structs is accounted for (function pointer or one of the known data members)"""
    sigs = {}
    for sname in ("alpaqa_problem_functions_t", "alpaqa_control_problem_functions_t"):
        m = re.search(r"ALPAQA_BEGIN_STRUCT\(%s\)\s*\{" % sname, hsrc)
        if not m:
            continue
        i = m.end() - 1
        body = hsrc[i:balanced(hsrc, i)]
        body = re.sub(r"/\*.*?\*/", " ", re.sub(r"///[^\n]*|//[^\n]*", "", body), flags=re.S)
        d = {}
        chunks = member_chunks(body)
        # the data members come first, exactly these
        want = DL_DATA_MEMBERS[sname]
        if [re.sub(r"\s+", "", c) for c in chunks[:len(want)]] != [re.sub(r"\s+", "", w) for w in want]:
            oog.append("%s: does not start with the known data members %s" % (sname, want))
        for c in chunks[len(want):]:
            mm = re.fullmatch(r"[\w ]+?\*? ?\(\* ?(%s) ?\) ?\(([^()]*)\)( ALPAQA_DEFAULT\(nullptr\))? ?;" % ID, c)
            if mm:
                if mm.group(1) in d:
                    oog.append("%s: member %s declared twice" % (sname, mm.group(1)))
                ps = param_names(mm.group(2))
                d[mm.group(1)] = ps[1:] if ps and ps[0] == "instance" else ps
            else:
                oog.append("%s: member '%s' is not a function pointer" % (sname, c[:60]))
        sigs[sname] = d
    return sigs

def norm_arg(a):
    a = a.strip()
    m = re.fullmatch(r"(%s)\.size\(\)\s*==\s*0\s*\?\s*nullptr\s*:\s*(%s)\.data\(\)" % (ID, ID), a)
    if m and m.group(1) == m.group(2):
        return m.group(1)
    m = re.fullmatch(r"(%s)\.lowerbound\.data\(\)" % ID, a)
    if m:
        return "LOWER"
    m = re.fullmatch(r"(%s)\.upperbound\.data\(\)" % ID, a)
    if m:
        return "UPPER"
    m = re.fullmatch(r"(%s)\.data\(\)" % ID, a)
    if m:
        return m.group(1)
    return a

def norm_cparam(p):
    return {"zl": "LOWER", "lb": "LOWER", "zu": "UPPER", "ub": "UPPER"}.get(p, p)

def cpp_functions(cpp, cls):
    """(return-style, name, params, body) of every `auto CLS::name(params) const -> R { body }` / `bool CLS::name() const { body }`"""
    out = []
    for m in re.finditer(r"\b(auto|bool)\s+%s::(%s)\s*\(" % (cls, ID), cpp):
        j = balanced(cpp, m.end() - 1, "(", ")")
        k = cpp.find("{", j)
        semi = cpp.find(";", j)
        if k < 0 or (0 <= semi < k):
            continue
        head = cpp[j:k]
        if "const" not in head:
            continue
        e = balanced(cpp, k)
        out.append((m.group(1), m.group(2), cpp[m.end():j - 1], re.sub(r"\s+", " ", cpp[k + 1:e - 1]).strip()))
    return out

def parse_dl(cpp, cls, csig):
    fw, pv, fb, oog = [], [], [], []
    for kind, name, params, body in cpp_functions(cpp, cls):
        if kind == "bool":
            if not name.startswith("provides_"):
                continue
            mm = re.fullmatch(r"return\s+functions\s*->\s*(%s)\s*!=\s*nullptr\s*;" % ID, body) or \
                 re.fullmatch(r"return\s+nullptr\s*!=\s*functions\s*->\s*(%s)\s*;" % ID, body)
            pv.append((name, mm.group(1) if mm else "<special>"))
            continue
        cv = re.fullmatch(r"return\s+convert_sparsity<config_t>\s*\((.*)\)\s*;", body)
        if cv:
            body = "return " + cv.group(1).strip() + ";"
        mm = re.fullmatch(r"return\s+functions\s*->\s*(%s)\s*\(\s*instance\.get\(\)\s*(?:,\s*(.*))?\)\s*;" % ID, body)
        if mm:
            callee = mm.group(1)
            args = [norm_arg(a) for a in split_args(mm.group(2) or "")]
            cps = [norm_cparam(p) for p in csig.get(callee, ["<no such entry in dl-problem.h>"])]
            fw.append((name, callee, args, cps))
            continue
        mm = re.fullmatch(r"if\s*\(\s*functions\s*->\s*(%s)\s*\)\s*return\s+functions\s*->\s*(%s)\s*\(\s*instance\.get\(\)\s*,(.*?)\)\s*;\s*"
                         r"return\s+BoxConstrProblem<config_t>::(%s)\s*\((.*?)\)\s*;" % (ID, ID, ID), body)
        if mm:
            tested, callee, args, base, bargs = mm.groups()
            args = [norm_arg(a) for a in split_args(args)]
            cps = [norm_cparam(p) for p in csig.get(callee, ["<no such entry>"])]
            fb.append((name, tested, callee, base, args, cps, [a.strip() for a in split_args(bargs)], param_names(params)))
            continue
        if "functions->" in body and name not in ("get_name",):
            oog.append("%s::%s: %s" % (cls, name, body[:80]))
    return fw, pv, fb, oog

# ----------------------------------------------------------------------------------------------- Coq output

def cs(s):
    return '"' + s.replace('"', '""') + '"'

def co(s):
    return "None" if s is None else "(Some %s)" % cs(s)

def cl(items):
    return "[" + "; ".join(items) + "]"

def fwd_term(m):
    return "mkFwd %s %s %s %s %s %s %s" % (cs(m["name"]), co(m["counter"]), co(m["timer"]), cs(m["callee"]), co(m["requires"]),
                                         cl([cs(p) for p in m["params"]]), cl([cs(a) for a in m["args"]]))

def prov_term(m):
    return "mkProv %s %s %s" % (cs(m["name"]), cs(m["requires"] or "<none>"), cs(m["callee"]))

def generate(repo, verif):
    inc = os.path.join(repo, "src/alpaqa/include/alpaqa")
    rd = lambda p: open(p, encoding="utf-8").read()
    status = {"out_of_grammar": [], "files": []}
    def safe(p):
        try:
            status["files"].append(os.path.relpath(p, repo)); return rd(p)
        except OSError as ex:
            status["out_of_grammar"].append("cannot read %s" % p); return ""
    nlp_src = safe(os.path.join(inc, "problem/problem-with-counters.hpp"))
    ocp_src = safe(os.path.join(inc, "problem/ocproblem.hpp"))
    nlp = parse_wrapper(nlp_src, "ProblemWithCounters")
    ocp = parse_wrapper(ocp_src, "ControlProblemWithCounters")
    nlp_fields = counter_fields(safe(os.path.join(inc, "problem/problem-counters.hpp")), "EvalCounter", status["out_of_grammar"])
    ocp_fields = counter_fields(safe(os.path.join(inc, "problem/ocproblem-counters.hpp")), "OCPEvalCounter", status["out_of_grammar"])
    dfl = parse_defaults(safe(os.path.join(inc, "implementation/problem/type-erased-problem.tpp")), status["out_of_grammar"])
    csig = c_signatures(safe(os.path.join(repo, "src/interop/dl-api/include/alpaqa/dl/dl-problem.h")), status["out_of_grammar"])
    dlcpp = safe(os.path.join(repo, "src/interop/dl/src/dl-problem.cpp"))
    dl_fw, dl_pv, dl_fb, oog1 = parse_dl(dlcpp, "DLProblem", csig.get("alpaqa_problem_functions_t", {}))
    dlc_fw, dlc_pv, _, oog2 = parse_dl(dlcpp, "DLControlProblem", csig.get("alpaqa_control_problem_functions_t", {}))
    status["out_of_grammar"] += nlp["oog"] + ocp["oog"] + oog1 + oog2
    # every member of the C function tables is referenced by the C++ side (an entry nobody reads is not a forwarder of anything)
    referenced = set(re.findall(r"functions\s*->\s*(%s)" % ID, dlcpp))
    for sname, d in csig.items():
        for nm in d:
            if nm not in referenced:
                status["out_of_grammar"].append("%s: member %s is never read by dl-problem.cpp" % (sname, nm))
    declared = set(nm for d in csig.values() for nm in d) | set(re.findall(r"\b(\w+) ALPAQA_DEFAULT", " ".join(w for ws in DL_DATA_MEMBERS.values() for w in ws)))
    for nm in sorted(referenced - declared):
        status["out_of_grammar"].append("dl-problem.cpp reads functions->%s, which is not a member of the function tables" % nm)
    for nm, w in (("ProblemWithCounters", nlp), ("ControlProblemWithCounters", ocp)):
        if not w["found"] or not w["methods"]:
            status["out_of_grammar"].append("%s: struct or members not found" % nm)
    # does the DLControlProblem constructor test the member `functions` before it is assigned?
    m = re.search(r"DLControlProblem::DLControlProblem\([^{]*\{", dlcpp)
    ctor_order = "unknown"
    if m:
        body = dlcpp[m.end() - 1:balanced(dlcpp, m.end() - 1)]
        t = re.search(r"if\s*\(\s*!\s*(r\.)?functions\s*\)", body)
        a = re.search(r"\bfunctions\s*=\s*r\.functions\s*;", body)
        if t and a:
            ctor_order = "tests-r.functions" if t.group(1) else ("tests-member-before-assignment" if t.start() < a.start() else "tests-member-after-assignment")

    L = []
    L.append("(* GENERATED by translate/gen_C20_wrappers.py from %s — do not edit. *)" % repo)
    L.append("From Coq Require Import String List.\nFrom Alpaqa Require Import Counters.\nImport ListNotations.\nLocal Open Scope string_scope.\n")
    L.append("Definition nlp_methods : list fwd :=\n  %s.\n" % cl(["\n   " + fwd_term(m) for m in nlp["methods"]]))
    L.append("Definition nlp_provides : list prov :=\n  %s.\n" % cl(["\n   " + prov_term(m) for m in nlp["provides"]]))
    L.append("Definition ocp_methods : list fwd :=\n  %s.\n" % cl(["\n   " + fwd_term(m) for m in ocp["methods"]]))
    L.append("Definition ocp_provides : list prov :=\n  %s.\n" % cl(["\n   " + prov_term(m) for m in ocp["provides"]]))
    L.append("Definition nlp_counter_fields : list string := %s.\n" % cl([cs(f) for f in nlp_fields]))
    L.append("Definition ocp_counter_fields : list string := %s.\n" % cl([cs(f) for f in ocp_fields]))
    L.append("Definition nlp_unparsed_counters : list string := %s.\nDefinition ocp_unparsed_counters : list string := %s.\n" %
             (cl([cs(f) for f in nlp.get("unparsed_counters", [])]), cl([cs(f) for f in ocp.get("unparsed_counters", [])])))
    L.append("Definition nlp_reset_mode : reset_mode := %s.\n" % (nlp["reset"] or "ResetZeroesBlock"))
    L.append("Definition ocp_reset_mode : reset_mode := %s.\n" % (ocp["reset"] or "ResetZeroesBlock"))
    L.append("Definition nlp_decouple_copies : bool := %s.\nDefinition ocp_decouple_copies : bool := %s.\n" %
             ("true" if nlp["decouple"] else "false", "true" if ocp["decouple"] else "false"))
    L.append("Definition nlp_defaults : list dflt :=\n  %s.\n" % cl(["\n   mkDflt %s %s %s" % (cs(n), k, co(t)) for n, k, t in dfl]))
    L.append("Definition dl_forwards : list dlfwd :=\n  %s.\n" % cl(["\n   mkDl %s %s %s %s" % (cs(n), cs(c), cl([cs(a) for a in a_]), cl([cs(p) for p in p_])) for n, c, a_, p_ in dl_fw]))
    L.append("Definition dl_provides : list dlprov :=\n  %s.\n" % cl(["\n   mkDlProv %s %s" % (cs(n), cs(t)) for n, t in dl_pv]))
    L.append("Definition dl_fallbacks : list (dlfwd * (string * string * list string * list string)) :=\n  %s.\n" %
             cl(["\n   (mkDl %s %s %s %s, (%s, %s, %s, %s))" % (cs(n), cs(c), cl([cs(a) for a in a_]), cl([cs(p) for p in p_]), cs(t), cs(b), cl([cs(x) for x in ba]), cl([cs(x) for x in ps]))
                 for n, t, c, b, a_, p_, ba, ps in dl_fb]))
    L.append("Definition dlc_forwards : list dlfwd :=\n  %s.\n" % cl(["\n   mkDl %s %s %s %s" % (cs(n), cs(c), cl([cs(a) for a in a_]), cl([cs(p) for p in p_])) for n, c, a_, p_ in dlc_fw]))
    L.append("Definition dlc_provides : list dlprov :=\n  %s.\n" % cl(["\n   mkDlProv %s %s" % (cs(n), cs(t)) for n, t in dlc_pv]))
    out = "\n".join(L)
    gen = (os.environ.get("VERIF_GEN_OUT") or os.path.join(verif, "coq", "gen"))
    os.makedirs(gen, exist_ok=True)
    p = os.path.join(gen, "Wrappers.v")
    old = open(p, encoding="utf-8").read() if os.path.exists(p) else None
    if old != out:
        open(p, "w", encoding="utf-8").write(out)
    status.update(nlp_methods=len(nlp["methods"]), nlp_provides=len(nlp["provides"]), ocp_methods=len(ocp["methods"]),
                  ocp_provides=len(ocp["provides"]), nlp_fields=nlp_fields, ocp_fields=ocp_fields,
                  unparsed_counters=nlp.get("unparsed_counters", []) + ocp.get("unparsed_counters", []),
                  dl_special_provides=[n for n, t in dl_pv + dlc_pv if t == "<special>"],
                  nlp_reset=nlp["reset"], ocp_reset=ocp["reset"], nlp_decouple=nlp["decouple"], ocp_decouple=ocp["decouple"],
                  defaults=len(dfl), dl_forwards=len(dl_fw), dl_provides=len(dl_pv), dl_fallbacks=len(dl_fb),
                  dlc_forwards=len(dlc_fw), dlc_provides=len(dlc_pv), dlc_ctor=ctor_order,
                  tables=dict(nlp_methods=nlp["methods"], nlp_provides=nlp["provides"], ocp_methods=ocp["methods"],
                              ocp_provides=ocp["provides"], defaults=dfl, dl_forwards=dl_fw, dl_provides=dl_pv,
                              dl_fallbacks=dl_fb, dlc_forwards=dlc_fw, dlc_provides=dlc_pv))
    return status

if __name__ == "__main__":
    repo = sys.argv[1] if len(sys.argv) > 1 else os.environ.get("VERIF_REPO", "/repo")
    verif = os.path.dirname(os.path.dirname(os.path.abspath(__file__)))
    st = generate(repo, verif)
    st.pop("tables")
    print(json.dumps(st, indent=1, ensure_ascii=False))
