#!/usr/bin/env python3
"""gen_prox.py — translator G10: the proximal / projection kernels of alpaqa -> coq/gen/ProxGen.v (regenerated on every run).

Sources (under <repo>/src/alpaqa/include/alpaqa/):
  problem/box.hpp                 project, projecting_difference, dist_squared (both overloads)
  problem/box-constr-problem.hpp  eval_proj_grad_step_box, eval_prox_grad_step_box_l1_impl / _l1 / _l1_scal, eval_prox_grad_step,
                                  eval_proj_diff_g, eval_proj_multipliers_box, eval_inactive_indices_res_lna
  functions/l1-norm.hpp           L1Norm::prox (scalar and vector weight), L1NormComplex::prox (scalar weight, the soft_thres lambda)
  functions/prox.hpp              the default prox_step (forward point, fb_step = out - in)
  functions/indicator-box.hpp     prox / prox_step of a Box

Grammar accepted (everything else -> OutOfGrammar for that unit -> the unit's block is taken from translate/ref/ProxGen.ref.v
and the unit is reported `translator-out-of-grammar`; never a violation by itself):
  statements   [const] (auto|real_t|index_t|length_t|bool) [&] name = expr;   lambdas `[caps](params) { ... }` bound to a name;
               v = expr;  V.setZero();  f(args);  if [constexpr] (c) s [else s];  `for (index_t i = 0; i < n; ++i) s`;  return e;
               using ...; assert(...);  J(nJ++) = i;
  expressions  unary - + !, + - * /, < > <= >= == !=, && ||, c ? a : b, literals (dyadic), real_t(e), inf<config_t>,
               a.cwiseMax(b) a.cwiseMin(b) .cwiseAbs() .cwiseProduct(b) .cwiseQuotient(b) .array() .matrix() .reshaped(..) .eval(),
               (c).select(a, b), a.unaryExpr(f) a.binaryExpr(b, f), vec::Constant(n, c) vec::Zero(n) vec::Ones(n),
               std::max std::min (= cwiseMax/cwiseMin on scalars) std::fmax std::fmin std::abs std::sqrt, x(i), l1_reg(0), l1_reg.size(),
               blocks y.head(k) y.tail(n) y.topRows(k) y.bottomRows(n) y.segment(i, n) (only in eval_proj_multipliers_box),
               reductions norm_1(v) v.squaredNorm() a.dot(b) (only at vector level: return values),
               calls of the translated functions themselves (inlined; the named per-element definition is referenced).
Semantics:
  * one per-element Gallina definition over the `Num` class per function, plus the vector-level map (list T);
  * cwiseMax(a,b) -> Num.cmax a b = (a<b)?b:a and cwiseMin(a,b) -> Num.cmin a b = (b<a)?b:a WITH THE OPERAND ORDER OF THE SOURCE;
    std::fmax/fmin -> nfmax/nfmin;
  * box sides are `option T` (None = -inf for a lower, +inf for an upper bound; `Some l` is finite).  Infinite values are
    propagated symbolically through + - unary-, comparisons (decided), cwiseMax/Min, select / ?: ; a product with an infinite
    operand or inf-inf is out of grammar; a result that can be infinite is emitted as (n1 / n0) resp. (- (n1 / n0)) — exact at
    binary64, an unspecified real over R (the equality theorem then fails, as it should);
  * Eigen expression templates are lazy but alias-free here; a translated assignment is the coefficient-wise map.
Deterministic, python3 stdlib only, < 1 s.

Usage: gen_prox.py [repo] [outfile]      (defaults: $VERIF_REPO or /repo ; <verif>/coq/gen/ProxGen.v)
       gen_prox.py --write-ref [repo]    regenerate translate/ref/ProxGen.ref.v (only from an in-grammar tree)
write() returns (status, detail, units): status 'ok' | 'translator-out-of-grammar'; detail {unit: reason}; exit code 0 / 2."""
import os, re, sys, unicodedata
from fractions import Fraction

HERE = os.path.dirname(os.path.abspath(__file__))
VERIF = os.path.dirname(HERE)
INC = "src/alpaqa/include/alpaqa"
REF = os.path.join(HERE, "ref", "ProxGen.ref.v")


class OutOfGrammar(Exception):
    pass


def oog(msg):
    raise OutOfGrammar(msg)


# ============================================================================ lexer

def strip_comments(src):
    src = re.sub(r"/\*.*?\*/", " ", src, flags=re.S)
    return re.sub(r"//[^\n]*", " ", src)


def _idc(c):
    return c.isalnum() or c == "_" or unicodedata.category(c) in ("Mn", "Mc")


OPS2 = ("::", "->", "++", "--", "<=", ">=", "==", "!=", "&&", "||", "+=", "-=", "*=", "/=")


def tokenize(s):
    s = re.sub(r"\[\[[^\]]*\]\]", " ", s)
    toks, i = [], 0
    while i < len(s):
        c = s[i]
        if c.isspace():
            i += 1
        elif c.isdigit() or (c == "." and i + 1 < len(s) and s[i + 1].isdigit()):
            j = i
            while j < len(s) and (s[j].isalnum() or s[j] == "."):
                j += 1
            toks.append(("num", s[i:j])); i = j
        elif _idc(c) and not unicodedata.category(c).startswith("M"):
            j = i
            while j < len(s) and _idc(s[j]):
                j += 1
            toks.append(("id", s[i:j])); i = j
        elif c == '"':
            j = s.index('"', i + 1)
            toks.append(("str", s[i:j + 1])); i = j + 1
        elif s[i:i + 2] in OPS2:
            toks.append(("op", s[i:i + 2])); i += 2
        elif c in "+-*/%()<>{}[];,.?:=!&|~":
            toks.append(("op", c)); i += 1
        else:
            oog("unexpected character %r" % c)
    return toks


# ============================================================================ parser (expressions + statements)

TYPEWORDS = {"auto", "real_t", "index_t", "length_t", "bool", "vec", "cplx_t", "int", "double"}
WORDOPS = {"not": "!", "and": "&&", "or": "||"}


class Parser:
    def __init__(self, toks):
        self.t, self.i = toks, 0

    def peek(self, k=0):
        return self.t[self.i + k] if self.i + k < len(self.t) else (None, None)

    def isop(self, v, k=0):
        return self.peek(k) == ("op", v)

    def isid(self, v, k=0):
        return self.peek(k) == ("id", v)

    def eat(self, kind=None, val=None):
        k, v = self.peek()
        if k is None or (kind and k != kind) or (val is not None and v != val):
            oog("expected %s %s, found %r (token %d)" % (kind, val, (k, v), self.i))
        self.i += 1
        return v

    def done(self):
        return self.i >= len(self.t)

    # ---- expressions
    def expr(self):
        c = self.lor()
        if self.isop("?"):
            self.eat()
            a = self.expr()
            self.eat("op", ":")
            b = self.expr()
            return ("tern", c, a, b)
        return c

    def _binl(self, sub, ops):
        a = sub()
        while True:
            k, v = self.peek()
            if k == "id" and v in WORDOPS and WORDOPS[v] in ops:
                v = WORDOPS[v]
            elif not (k == "op" and v in ops):
                return a
            self.i += 1
            a = ("bin", v, a, sub())

    def lor(self):
        return self._binl(self.land, ("||",))

    def land(self):
        return self._binl(self.eq, ("&&",))

    def eq(self):
        return self._binl(self.rel, ("==", "!="))

    def rel(self):
        return self._binl(self.add, ("<", ">", "<=", ">="))

    def add(self):
        return self._binl(self.mul, ("+", "-"))

    def mul(self):
        return self._binl(self.unary, ("*", "/"))

    def unary(self):
        k, v = self.peek()
        if k == "op" and v in ("-", "+", "!"):
            self.eat()
            return ("un", v, self.unary())
        if k == "id" and v == "not":
            self.eat()
            return ("un", "!", self.unary())
        if k == "op" and v in ("++", "--"):
            self.eat()
            return ("preinc", v, self.unary())
        return self.postfix()

    def args(self):
        self.eat("op", "(")
        out = []
        if not self.isop(")"):
            out.append(self.expr())
            while self.isop(","):
                self.eat()
                out.append(self.expr())
        self.eat("op", ")")
        return out

    def postfix(self):
        e = self.primary()
        while True:
            if self.isop("."):
                self.eat()
                if self.isid("template"):
                    self.eat()
                e = ("member", e, self.eat("id"))
            elif self.isop("("):
                e = ("call", e, self.args())
            elif self.isop("++") or self.isop("--"):
                e = ("postinc", self.eat(), e)
            else:
                return e

    def primary(self):
        k, v = self.peek()
        if k == "num":
            self.eat()
            return ("num", v)
        if k == "op" and v == "(":
            self.eat()
            e = self.expr()
            self.eat("op", ")")
            return e
        if k == "op" and v == "[":
            return self.lam()
        if k == "id":
            name = self.eat()
            while self.isop("::") and self.peek(1)[0] == "id":
                self.eat()
                name += "::" + self.eat()
            if name in ("norm_1", "norm_inf") and name not in USINGS:
                oog("%s without its using-declaration" % name)
            if name.split("::")[-1] in ("inf", "NaN") and self.isop("<"):
                self.eat()
                self.eat("id")
                self.eat("op", ">")
            return ("id", name)
        oog("unexpected token %r in expression" % ((k, v),))

    def lam(self):
        self.eat("op", "[")
        caps = []
        while not self.isop("]"):
            if self.isop("&") or self.isop("="):
                self.eat()
                if self.peek()[0] == "id" and not self.isid("this"):
                    caps.append((self.eat(), None))
            elif self.peek()[0] == "id":
                n = self.eat()
                if self.isop("{"):
                    self.eat(); e = self.expr(); self.eat("op", "}")
                    caps.append((n, e))
                elif self.isop("="):
                    self.eat(); caps.append((n, self.expr()))
                else:
                    caps.append((n, None))
            else:
                oog("lambda capture")
            if self.isop(","):
                self.eat()
        self.eat("op", "]")
        params = []
        self.eat("op", "(")
        cur = []
        depth = 0
        while not (self.isop(")") and depth == 0):
            k, v = self.peek()
            if k is None:
                oog("lambda parameters")
            if v == "(": depth += 1
            if v == ")": depth -= 1
            if v == "," and depth == 0:
                params.append(cur); cur = []
            else:
                cur.append((k, v))
            self.i += 1
        if cur:
            params.append(cur)
        self.eat("op", ")")
        names = []
        for p in params:
            ids = [v for k, v in p if k == "id"]
            if not ids:
                oog("lambda parameter")
            names.append(ids[-1])
        if self.isid("mutable"):
            self.eat()
        if self.isop("->"):
            self.eat()
            while not self.isop("{"):
                self.i += 1
        return ("lambda", caps, names, self.block())

    # ---- statements
    def block(self):
        self.eat("op", "{")
        out = []
        while not self.isop("}"):
            s = self.stmt()
            if s is not None:
                out.append(s)
        self.eat("op", "}")
        return out

    def stmts_all(self):
        out = []
        while not self.done():
            s = self.stmt()
            if s is not None:
                out.append(s)
        return out

    def skip_to_semicolon(self):
        while not self.isop(";"):
            if self.done():
                oog("missing ;")
            self.i += 1
        self.eat()

    def is_decl(self):
        j = 0
        if self.isid("const", j):
            j += 1
        k, v = self.peek(j)
        if not (k == "id" and v in TYPEWORDS):
            return False
        j += 1
        while self.isop("&", j) or self.isop("&&", j):
            j += 1
        return self.peek(j)[0] == "id" and (self.isop("=", j + 1) or self.isop("{", j + 1) or self.isop(";", j + 1))

    def stmt(self):
        k, v = self.peek()
        if k == "op" and v == "{":
            return ("block", self.block())
        if k == "op" and v == ";":
            self.eat()
            return None
        if k == "id" and v == "if":
            self.eat()
            cx = False
            if self.isid("constexpr"):
                self.eat(); cx = True
            self.eat("op", "(")
            if cx:   # raw condition text (template ids are not expressions of this grammar)
                depth, raw = 0, []
                while not (self.isop(")") and depth == 0):
                    kk, vv = self.peek()
                    if kk is None:
                        oog("if constexpr condition")
                    if vv == "(": depth += 1
                    if vv == ")": depth -= 1
                    raw.append(vv); self.i += 1
                cond = ("raw", " ".join(raw))
            else:
                cond = self.expr()
            self.eat("op", ")")
            th = self.stmt()
            el = None
            if self.isid("else"):
                self.eat()
                el = self.stmt()
            return ("if", cond, th, el, cx)
        if k == "id" and v == "for":
            self.eat()
            self.eat("op", "(")
            init = self.stmt()
            cond = self.expr()
            self.eat("op", ";")
            incr = self.expr()
            self.eat("op", ")")
            return ("for", init, cond, incr, self.stmt())
        if k == "id" and v == "return":
            self.eat()
            e = None if self.isop(";") else self.expr()
            self.eat("op", ";")
            return ("return", e)
        if k == "id" and v == "using":
            self.eat()
            name = self.eat("id")
            while self.isop("::") and self.peek(1)[0] == "id":
                self.eat()
                name += "::" + self.eat()
            if name not in ("vec_util::norm_1", "vec_util::norm_inf"):
                oog("using-declaration of %s" % name)
            self.eat("op", ";")
            USINGS.add(name.split("::")[-1])
            return None
        if k == "id" and v == "static_assert":
            self.skip_to_semicolon()
            return None
        if self.is_decl():
            if self.isid("const"):
                self.eat()
            ty = self.eat("id")
            while self.isop("&") or self.isop("&&"):
                self.eat()
            name = self.eat("id")
            e = None
            if self.isop("="):
                self.eat(); e = self.expr()
            elif self.isop("{"):
                self.eat(); e = self.expr(); self.eat("op", "}")
            self.eat("op", ";")
            return ("decl", name, e, ty)
        e = self.expr()
        if self.peek()[0] == "op" and self.peek()[1] in ("=", "+=", "-=", "*=", "/="):
            op = self.eat()
            r = self.expr()
            self.eat("op", ";")
            return ("assign", e, op, r)
        self.eat("op", ";")
        return ("expr", e)


USINGS = set()          # the using-declarations seen so far in the function body being parsed (parse_stmts resets it)


def parse_stmts(text):
    USINGS.clear()
    return Parser(tokenize(text)).stmts_all()


# ============================================================================ source extraction

def _match(src, i, o, c):
    depth = 0
    for p in range(i, len(src)):
        if src[p] == o:
            depth += 1
        elif src[p] == c:
            depth -= 1
            if depth == 0:
                return p
    oog("unbalanced %s%s" % (o, c))


def split_top(text):
    out, cur, depth = [], [], 0
    for ch in text:
        if ch in "(<[{":
            depth += 1
        elif ch in ")>]}":
            depth -= 1
        if ch == "," and depth == 0:
            out.append("".join(cur)); cur = []
        else:
            cur.append(ch)
    if "".join(cur).strip():
        out.append("".join(cur))
    return out


def find_function(src, name, nparams=None):
    """(params, body_text) of the definition  name(...) [const] [-> T] { body }"""
    for m in re.finditer(r"(?<![\w.:>])%s\s*\(" % re.escape(name), src):
        i = m.end() - 1
        j = _match(src, i, "(", ")")
        mm = re.match(r"\s*(const\b)?\s*(noexcept\b)?\s*(->\s*[\w:<>\s]+?)?\s*\{", src[j + 1:j + 200])
        if not mm:
            continue
        b0 = j + mm.end()
        b1 = _match(src, b0, "{", "}")
        params = []
        for p in split_top(src[i + 1:j]):
            p = re.sub(r"\[\[[^\]]*\]\]", " ", p).split("=")[0].strip()
            pm = re.match(r"(.*?)([^\s&*]+)$", p, re.S)
            if not pm:
                oog("parameter %r of %s" % (p, name))
            params.append((pm.group(2), " ".join(pm.group(1).split())))
        if nparams is not None and len(params) != nparams:
            continue
        return params, src[b0 + 1:b1]
    oog("definition of %s not found" % name)


def struct_region(src, name):
    m = re.search(r"struct\s+%s\s*\{" % re.escape(name), src)
    if not m:
        oog("struct %s not found" % name)
    b0 = m.end() - 1
    return src[b0:_match(src, b0, "{", "}") + 1]


def flat(s):
    return " ".join(s.split())


# ============================================================================ symbolic values
# scalar/bool "trees": ("leaf", gallina) | ("inf", +1/-1) | ("case", optvar, tree_if_None, tree_if_Some)   (binder: optvar')

def leaf(t):
    return ("leaf", t)


TRUE, FALSE = ("leaf", "true"), ("leaf", "false")


def inf(s):
    return ("inf", s)


def mentions(text, name):
    return re.search(r"(?<![\w'])%s(?![\w'])" % re.escape(name), text) is not None


def tree_text(t):
    return t[1] if t[0] == "leaf" else "" if t[0] == "inf" else tree_text(t[2]) + " " + tree_text(t[3])


def case(var, n, s):
    if n == s and not mentions(tree_text(s), var + "'"):
        return n
    return ("case", var, n, s)


def bound_tree(var, sign):
    return ("case", var, inf(sign), leaf(var + "'"))


def is_pure(t):
    return t[0] == "leaf" or (t[0] == "case" and is_pure(t[2]) and is_pure(t[3]))


INF_TEXT = {1: "(n1 / n0)", -1: "(- (n1 / n0))"}


def emit(t, notes=None):
    if t[0] == "leaf":
        return t[1]
    if t[0] == "inf":
        if notes is not None:
            notes.append("result can be %sinf: emitted as %s" % ("+" if t[1] > 0 else "-", INF_TEXT[t[1]]))
        return INF_TEXT[t[1]]
    return "(match %s with None => %s | Some %s' => %s end)" % (t[1], emit(t[2], notes), t[1], emit(t[3], notes))


def const_leaves(t):
    return t in (TRUE, FALSE) if t[0] != "case" else const_leaves(t[2]) and const_leaves(t[3])


def norm(t):
    # a decided test (`lb == -inf`) stays a tree so that select / ?: / && can be resolved per case
    return leaf(emit(t)) if t[0] == "case" and is_pure(t) and not const_leaves(t) else t


def lift(f, ts, ctx=None):
    ctx = ctx or {}
    for k, t in enumerate(ts):
        if t[0] == "case":
            var = t[1]
            if var in ctx:
                ts2 = list(ts); ts2[k] = t[2] if ctx[var] == "n" else t[3]
                return lift(f, ts2, ctx)

            def br(w):
                c2 = dict(ctx); c2[var] = w
                ts2 = list(ts); ts2[k] = t[2] if w == "n" else t[3]
                return lift(f, ts2, c2)
            return case(var, br("n"), br("s"))
    return f(*ts)


def op(f, *ts):
    return norm(lift(f, list(ts)))


def l_neg(a):
    return inf(-a[1]) if a[0] == "inf" else leaf("(- %s)" % a[1])


def l_add(a, b):
    if a[0] == "inf" and b[0] == "inf":
        if a[1] != b[1]:
            oog("inf - inf")
        return a
    if a[0] == "inf":
        return a
    if b[0] == "inf":
        return b
    return leaf("(%s + %s)" % (a[1], b[1]))


def l_sub(a, b):
    if a[0] == "leaf" and b[0] == "leaf":
        return leaf("(%s - %s)" % (a[1], b[1]))
    return l_add(a, l_neg(b))


def l_mul(a, b):
    if a[0] == "inf" or b[0] == "inf":
        oog("product with an infinite operand")
    return leaf("(%s * %s)" % (a[1], b[1]))


def l_div(a, b):
    if a[0] == "inf" or b[0] == "inf":
        oog("quotient with an infinite operand")
    return leaf("(%s / %s)" % (a[1], b[1]))


def l_lt(a, b):
    if a[0] == "leaf" and b[0] == "leaf":
        return leaf("(%s <? %s)" % (a[1], b[1]))
    if a[0] == "inf" and b[0] == "inf":
        return TRUE if a[1] < b[1] else FALSE
    if a[0] == "inf":
        return TRUE if a[1] < 0 else FALSE
    return TRUE if b[1] > 0 else FALSE


def l_le(a, b):
    if a[0] == "leaf" and b[0] == "leaf":
        return leaf("(%s <=? %s)" % (a[1], b[1]))
    if a[0] == "inf" and b[0] == "inf":
        return TRUE if a[1] <= b[1] else FALSE
    if a[0] == "inf":
        return TRUE if a[1] < 0 else FALSE
    return TRUE if b[1] > 0 else FALSE


def l_eq(a, b):
    if a[0] == "leaf" and b[0] == "leaf":
        return leaf("(%s =? %s)" % (a[1], b[1]))
    if a[0] == "inf" and b[0] == "inf":
        return TRUE if a[1] == b[1] else FALSE
    return FALSE          # `Some l` is finite


def l_ite(c, a, b):
    if c == TRUE:
        return a
    if c == FALSE:
        return b
    if a == TRUE and b == FALSE:
        return c
    ta = a[1] if a[0] == "leaf" else INF_TEXT[a[1]]
    tb = b[1] if b[0] == "leaf" else INF_TEXT[b[1]]
    return leaf("(if %s then %s else %s)" % (c[1], ta, tb))


def l_cmax(a, b):      # Eigen cwiseMax / std::max : (a < b) ? b : a
    if a[0] == "leaf" and b[0] == "leaf":
        return leaf("(cmax %s %s)" % (a[1], b[1]))
    return l_ite(l_lt(a, b), b, a)


def l_cmin(a, b):      # Eigen cwiseMin / std::min : (b < a) ? b : a
    if a[0] == "leaf" and b[0] == "leaf":
        return leaf("(cmin %s %s)" % (a[1], b[1]))
    return l_ite(l_lt(b, a), b, a)


def l_fn(name):
    def f(*xs):
        if any(x[0] == "inf" for x in xs):
            oog("%s of an infinite operand" % name)
        return leaf("(%s %s)" % (name, " ".join(x[1] for x in xs)))
    return f


def l_and(a, b):
    if a == FALSE or b == FALSE:
        return FALSE
    if a == TRUE:
        return b
    if b == TRUE:
        return a
    return leaf("(%s && %s)" % (a[1], b[1]))


def l_or(a, b):
    if a == TRUE or b == TRUE:
        return TRUE
    if a == FALSE:
        return b
    if b == FALSE:
        return a
    return leaf("(%s || %s)" % (a[1], b[1]))


def l_not(a):
    return FALSE if a == TRUE else TRUE if a == FALSE else leaf("(negb %s)" % a[1])


def num_text(txt, nat=False):
    if nat:
        if not re.fullmatch(r"\d+", txt):
            oog("non-integer literal %r in an index expression" % txt)
        return "%s%%nat" % txt
    try:
        q = Fraction(txt)
    except ValueError:
        oog("bad literal %r" % txt)
    if q.denominator & (q.denominator - 1):
        oog("non-dyadic literal %r" % txt)

    def z(n):
        return "n0" if n == 0 else "n1" if n == 1 else "(nofZ %d%%Z)" % n
    return z(q.numerator) if q.denominator == 1 else "(%s / %s)" % (z(q.numerator), z(q.denominator))


class Reduction(OutOfGrammar):
    pass


# ============================================================================ evaluator (per coefficient)

IDENT_METHODS = {"array", "matrix", "reshaped", "eval", "transpose", "derived"}
REDUCTIONS = {"squaredNorm", "dot", "sum", "norm", "any", "all", "allFinite", "lpNorm", "maxCoeff", "minCoeff"}


class Ev:
    """ev(ast, env) -> value: ("S", tree) | ("B", tree) | ("N", nat text) | ("LIT", text) | ("BOX", lbS, ubS)
       | ("LIST", name) | ("FN", names, body, env) | ("C", re_tree, im_tree)"""

    def __init__(self, funcs=None):
        self.funcs = funcs or {}      # expression-bodied translated functions: name -> dict(params, ret, gname)

    def S(self, v, what="scalar"):
        if v[0] == "S":
            return v[1]
        if v[0] == "LIT":
            return leaf(num_text(v[1]))
        oog("%s expected, found %s" % (what, v[0]))

    def N(self, v):
        if v[0] == "N":
            return v[1]
        if v[0] == "LIT":
            return num_text(v[1], nat=True)
        oog("index expected, found %s" % v[0])

    def B(self, v):
        if v[0] == "B":
            return v[1]
        oog("condition expected, found %s" % v[0])

    def ev(self, a, env):
        k = a[0]
        if k == "num":
            return ("LIT", a[1])
        if k == "id":
            if a[1] in env:
                return env[a[1]]
            if a[1].split("::")[-1] == "inf":
                return ("S", inf(+1))
            oog("unknown identifier %s" % a[1])
        if k == "un":
            v = self.ev(a[2], env)
            if a[1] == "+":
                return v
            if a[1] == "-":
                if v[0] == "C":
                    oog("complex negation")
                return ("S", op(l_neg, self.S(v)))
            return ("B", op(l_not, self.B(v)))
        if k == "bin":
            return self.binop(a[1], self.ev(a[2], env), self.ev(a[3], env))
        if k == "tern":
            c = self.B(self.ev(a[1], env))
            x, y = self.ev(a[2], env), self.ev(a[3], env)
            if x[0] == "B" and y[0] == "B":
                return ("B", op(l_ite, c, x[1], y[1]))
            if x[0] == "C" or y[0] == "C":
                x, y = self.cplx(x), self.cplx(y)
                return ("C", op(l_ite, c, x[1], y[1]), op(l_ite, c, x[2], y[2]))
            return ("S", op(l_ite, c, self.S(x), self.S(y)))
        if k == "member":
            o = self.ev(a[1], env)
            if o[0] == "BOX" and a[2] in ("lowerbound", "upperbound"):
                return o[1] if a[2] == "lowerbound" else o[2]
            oog("member .%s of %s" % (a[2], o[0]))
        if k == "lambda":
            e2 = dict(env)
            for n, init in a[1]:
                if init is not None:
                    e2[n] = self.ev(init, env)
            return ("FN", a[2], a[3], e2)
        if k == "call":
            return self.call(a, env)
        oog("expression form %s" % k)

    def cplx(self, v):
        if v[0] == "C":
            return v
        t = self.S(v)
        return ("C", t, leaf("n0"))

    def binop(self, o, x, y):
        if o in ("&&", "||"):
            return ("B", op(l_and if o == "&&" else l_or, self.B(x), self.B(y)))
        if x[0] == "N" or y[0] == "N":
            p, q = self.N(x), self.N(y)
            if o in ("==", "!=", "<", ">", "<=", ">="):
                t = {"==": "(Nat.eqb %s %s)" % (p, q), "!=": "(negb (Nat.eqb %s %s))" % (p, q), "<": "(Nat.ltb %s %s)" % (p, q),
                     ">": "(Nat.ltb %s %s)" % (q, p), "<=": "(Nat.leb %s %s)" % (p, q), ">=": "(Nat.leb %s %s)" % (q, p)}[o]
                return ("B", leaf(t))
            if o in ("+", "-", "*"):
                return ("N", "(Nat.%s %s %s)" % ({"+": "add", "-": "sub", "*": "mul"}[o], p, q))
            oog("index operator %s" % o)
        if x[0] == "C" or y[0] == "C":
            if o == "*" and x[0] == "C" and y[0] != "C":      # complex * real
                s = self.S(y)
                return ("C", op(l_mul, x[1], s), op(l_mul, x[2], s))
            if o == "*" and y[0] == "C" and x[0] != "C":
                s = self.S(x)
                return ("C", op(l_mul, s, y[1]), op(l_mul, s, y[2]))
            oog("complex operator %s" % o)
        p, q = self.S(x), self.S(y)
        if o in ("+", "-", "*", "/"):
            return ("S", op({"+": l_add, "-": l_sub, "*": l_mul, "/": l_div}[o], p, q))
        if o == "<":
            return ("B", op(l_lt, p, q))
        if o == ">":
            return ("B", op(l_lt, q, p))
        if o == "<=":
            return ("B", op(l_le, p, q))
        if o == ">=":
            return ("B", op(l_le, q, p))
        if o == "==":
            return ("B", op(l_eq, p, q))
        if o == "!=":
            return ("B", op(l_not, op(l_eq, p, q)))
        oog("operator %s" % o)

    def apply(self, fn, argv):
        if fn[0] != "FN":
            oog("call of a non-function")
        names, body, cenv = fn[1], fn[2], fn[3]
        if len(names) != len(argv):
            oog("lambda arity")
        e2 = dict(cenv)
        e2.update(zip(names, argv))
        for s in body:
            if s[0] == "decl" and s[2] is not None:
                e2[s[1]] = self.ev(s[2], e2)
            elif s[0] == "return" and s[1] is not None:
                return self.ev(s[1], e2)
            else:
                oog("statement %s in an expression lambda" % s[0])
        oog("lambda without return")

    def call(self, a, env):
        fn, args = a[1], a[2]
        if fn[0] == "member":
            m = fn[2]
            if m in REDUCTIONS:
                raise Reduction("reduction .%s in a coefficient-wise expression" % m)
            o = self.ev(fn[1], env)
            if o[0] == "BOX" and m in ("lowerbound", "upperbound") and len(args) == 1:   # C.lowerbound(i) in the coefficient loop
                i = self.ev(args[0], env)
                if i[0] == "N" and i[1] == env.get("@loopvar"):
                    return o[1] if m == "lowerbound" else o[2]
                oog("box coefficient access with an index other than the loop variable")
            if m in IDENT_METHODS:
                return o
            if m == "size" or m == "rows":
                return ("N", "(length %s)" % o[1]) if o[0] == "LIST" else ("N", "?size")
            if m == "cols":
                return ("N", "1%nat")
            if o[0] == "C" and m in ("real", "imag") and not args:
                return ("S", o[1] if m == "real" else o[2])
            if o[0] == "B" and m == "select" and len(args) == 2:
                x, y = self.ev(args[0], env), self.ev(args[1], env)
                return ("S", op(l_ite, o[1], self.S(x), self.S(y)))
            if o[0] in ("S", "LIT"):
                s = self.S(o)
                if m in ("cwiseMax", "cwiseMin", "max", "min") and len(args) == 1:
                    f = l_cmax if m in ("cwiseMax", "max") else l_cmin
                    return ("S", op(f, s, self.S(self.ev(args[0], env))))
                if m in ("cwiseAbs", "abs") and not args:
                    return ("S", op(l_fn("nabs"), s))
                if m in ("cwiseSqrt", "sqrt") and not args:
                    return ("S", op(l_fn("nsqrt"), s))
                if m in ("cwiseProduct", "cwiseQuotient") and len(args) == 1:
                    return ("S", op(l_mul if m == "cwiseProduct" else l_div, s, self.S(self.ev(args[0], env))))
                if m == "unaryExpr" and len(args) == 1:
                    return self.apply(self.ev(args[0], env), [o])
                if m == "binaryExpr" and len(args) == 2:
                    return self.apply(self.ev(args[1], env), [o, self.ev(args[0], env)])
            if o[0] == "C" and m == "unaryExpr" and len(args) == 1:
                return self.apply(self.ev(args[0], env), [o])
            oog("method .%s on %s" % (m, o[0]))
        if fn[0] != "id":
            oog("call form")
        name = fn[1]
        base = name.split("::")[-1]
        if name in env:
            f = env[name]
            if f[0] == "FN":
                return self.apply(f, [self.ev(x, env) for x in args])
            if f[0] in ("S", "C") and len(args) == 1:       # x(i) inside the per-coefficient loop
                i = self.ev(args[0], env)
                if i[0] == "N" and i[1] == env.get("@loopvar"):
                    return f
                oog("coefficient access %s(...) with an index other than the loop variable" % name)
            if f[0] == "LIST" and len(args) == 1:
                return ("S", leaf("(nth %s %s n0)" % (self.N(self.ev(args[0], env)), f[1])))
            oog("call of %s" % name)
        if base in ("norm_1", "norm_inf", "norm_2"):
            raise Reduction("reduction %s in a coefficient-wise expression" % base)
        if base in ("real_t", "double") and len(args) == 1:
            return ("S", self.S(self.ev(args[0], env)))
        if base in ("Constant", "Zero", "Ones") and len(args) == (2 if base == "Constant" else 1):
            if self.ev(args[0], env)[0] != "N":              # the size argument is not modelled but must be a known size
                oog("size argument of %s" % name)
            return ("S", self.S(self.ev(args[1], env)) if base == "Constant" else leaf("n0" if base == "Zero" else "n1"))
        if name in ("std::max", "std::min", "std::fmax", "std::fmin") and len(args) == 2:
            x, y = self.S(self.ev(args[0], env)), self.S(self.ev(args[1], env))
            f = {"std::max": l_cmax, "std::min": l_cmin, "std::fmax": l_fn("nfmax"), "std::fmin": l_fn("nfmin")}[name]
            return ("S", op(f, x, y))
        if name in ("std::abs", "std::fabs") and len(args) == 1:
            return ("S", op(l_fn("nabs"), self.S(self.ev(args[0], env))))
        if name == "std::sqrt" and len(args) == 1:
            return ("S", op(l_fn("nsqrt"), self.S(self.ev(args[0], env))))
        if base in self.funcs:
            return self.call_func(self.funcs[base], [self.ev(x, env) for x in args])
        oog("call of unknown function %s" % name)

    def arg_texts(self, v):
        """Gallina argument text(s) of a value passed to a named generated definition"""
        if v[0] == "BOX":
            out = []
            for t, sg in ((v[1][1], -1), (v[2][1], +1)):
                if not (t[0] == "case" and t == bound_tree(t[1], sg)):
                    oog("box argument is not a plain box")
                out.append(t[1])
            return out
        t = self.S(v)
        if not is_pure(t):
            oog("possibly infinite argument of a translated function")
        return [emit(t)]

    def call_func(self, f, argv):
        if len(argv) != len(f["params"]):
            oog("arity of %s" % f["name"])
        if f.get("gname"):
            try:
                texts = []
                byname = dict(zip([p for p, _ in f["params"]], argv))
                for pn in f["gorder"]:
                    texts += self.arg_texts(byname[pn])
                return ("S", leaf("(%s %s)" % (f["gname"], " ".join(texts))))
            except OutOfGrammar:
                pass
        e2 = dict(zip([p for p, _ in f["params"]], argv))
        return self.ev(f["ret"], e2)


# ============================================================================ Gallina names of C++ variables

GNAME = {"grad_ψ": "g", "x̂": "xh", "in": "v", "fwd_step": "d", "fb_step": "p", "γ_fwd": "γf", "penalty_alm_split": "k",
         "l1_reg": "l1", "λ_vec": "λ"}


def gname(n):
    return GNAME.get(n, n)


def used_lists(text, lists):
    return [l for l in lists if mentions(text, l)]


def mapk(body, used):
    if not used:
        oog("coefficient-wise expression without a vector operand")
    if len(used) > 5:
        oog("coefficient-wise expression over more than five vectors")
    if len(used) == 1 and body == used[0]:
        return used[0]
    fn = {1: "map", 2: "map2", 3: "map3", 4: "zmap4", 5: "zmap5"}[len(used)]
    return "(%s (fun %s => %s) %s)" % (fn, " ".join(used), body, " ".join(used))


# ============================================================================ units

class Unit:
    def __init__(self, name, cpp):
        self.name, self.cpp, self.defs, self.notes = name, cpp, [], []

    def add(self, gn, sig, body):
        self.defs.append((gn, sig, body))


def bind_params(params, kinds):
    """kinds: cpp name -> 'box' | 'vec' | 'scal' | 'out' | 'idx' | 'skip'.  returns (env, lists)"""
    env, lists = {}, []
    for n, ty in params:
        k = kinds.get(n)
        if k is None:
            oog("unexpected parameter %s (%s)" % (n, ty))
        if k == "box":
            env[n] = ("BOX", ("S", bound_tree("lb", -1)), ("S", bound_tree("ub", +1)))
            lists += ["lb", "ub"]
        elif k == "vec":
            env[n] = ("S", leaf(gname(n))); lists.append(gname(n))
        elif k == "scal":
            env[n] = ("S", leaf(gname(n)))
        elif k == "idx":
            env[n] = ("N", gname(n))
    lists = [l for l in ("lb", "ub") if l in lists] + [l for l in lists if l not in ("lb", "ub")]
    return env, lists


class StepState:
    def __init__(self):
        self.rec = []           # assignment records of output vectors, in execution order
        self.version = {}
        self.named_body = {}    # gname -> tree (depth 0 only)


class Translator:
    def __init__(self, repo):
        self.repo = repo
        self.src = {}
        self.ev = Ev()
        self.steps = {}         # translated step functions: cpp name -> dict(params, kinds, body, desig)

    def source(self, rel):
        if rel not in self.src:
            self.src[rel] = strip_comments(open(os.path.join(self.repo, INC, rel), encoding="utf-8").read())
        return self.src[rel]

    # ---------------------------------------------------------------- box.hpp
    def unit_project(self):
        src = self.source("problem/box.hpp")
        u = Unit("project", "box.hpp: project, projecting_difference")
        for name, gn in (("project", "g_proj1"), ("projecting_difference", "g_projdiff1")):
            params, body = find_function(src, name)
            st = parse_stmts(body)
            if len(st) != 1 or st[0][0] != "return":
                oog("%s is not a single return expression" % name)
            env, _ = bind_params(params, {"v": "vec", "box": "box"})
            t = self.ev.S(self.ev.ev(st[0][1], env))
            u.add(gn, "(lb ub : option T) (v : T) : T", emit(t, u.notes))
            self.ev.funcs[name] = dict(name=name, params=params, ret=st[0][1], gname=gn, gorder=["box", "v"])
        u.add("g_proj", "(lb ub : list (option T)) (v : list T) : list T", "map3 g_proj1 lb ub v")
        u.add("g_projdiff", "(lb ub : list (option T)) (v : list T) : list T", "map3 g_projdiff1 lb ub v")
        return u

    def unit_dist(self):
        src = self.source("problem/box.hpp")
        u = Unit("dist_squared", "box.hpp: dist_squared (both overloads)")
        params, body = find_function(src, "dist_squared", nparams=2)
        env, lists = bind_params(params, {"v": "vec", "box": "box"})
        r = self.vector_return(parse_stmts(body), env, lists)
        u.add("g_dist_squared", "(lb ub : list (option T)) (v : list T) : T", r)
        params, body = find_function(src, "dist_squared", nparams=3)
        env, lists = bind_params(params, {"v": "vec", "box": "box", "Σ": "vec"})
        r = self.vector_return(parse_stmts(body), env, lists)
        u.add("g_dist_squared_Σ", "(lb ub : list (option T)) (v Σ : list T) : T", r)
        return u

    def vector_return(self, stmts, env, lists):
        """[auto d = coefficient-wise expr;]* return vector-level expr;"""
        env = dict(env)
        lazy = {}
        for s in stmts:
            if s[0] == "decl" and s[2] is not None:
                lazy[s[1]] = s[2]
                env[s[1]] = self.ev.ev(s[2], env)
            elif s[0] == "return" and s[1] is not None:
                k, t = self.evv(s[1], env, lists, lazy)
                if k != "S":
                    oog("vector-valued return")
                return t
            else:
                oog("statement %s" % s[0])
        oog("no return")

    def evv(self, a, env, lists, lazy=None):
        """vector-level value: ("S", scalar gallina) | ("L", list gallina)"""
        lazy = lazy or {}
        ev = self.ev
        if a[0] == "num":
            return ("S", num_text(a[1]))
        if a[0] == "id":
            if a[1] in lazy:
                return self.evv(lazy[a[1]], env, lists, lazy)
            if gname(a[1]) in lists:
                return ("L", gname(a[1]))
            v = env.get(a[1])
            if v is not None and v[0] in ("S", "LIT") and is_pure(ev.S(v)):
                return ("S", emit(ev.S(v)))
            oog("identifier %s at vector level" % a[1])
        if a[0] == "call" and a[1][0] == "id":
            base = a[1][1].split("::")[-1]
            if base == "norm_1" and len(a[2]) == 1:
                return ("S", "(vnorm1 %s)" % self.L(a[2][0], env, lists, lazy))
            if base in ("real_t",) and len(a[2]) == 1:
                return self.evv(a[2][0], env, lists, lazy)
        if a[0] == "call" and a[1][0] == "member":
            m, o = a[1][2], a[1][1]
            if m == "squaredNorm" and not a[2]:
                return ("S", "(vsqnorm %s)" % self.L(o, env, lists, lazy))
            if m == "dot" and len(a[2]) == 1:
                return ("S", "(vdot %s %s)" % (self.L(o, env, lists, lazy), self.L(a[2][0], env, lists, lazy)))
            if m in IDENT_METHODS:
                return self.evv(o, env, lists, lazy)
            if m == "cwiseProduct" and len(a[2]) == 1:
                x, y = self.evv(o, env, lists, lazy), self.evv(a[2][0], env, lists, lazy)
                if x[0] == "L" and y[0] == "L":
                    return ("L", "(vmul %s %s)" % (x[1], y[1]))
        if a[0] == "bin" and a[1] in "+-*/":
            try:
                x, y = self.evv(a[2], env, lists, lazy), self.evv(a[3], env, lists, lazy)
                if x[0] == "S" and y[0] == "S":
                    return ("S", "(%s %s %s)" % (x[1], a[1], y[1]))
            except Reduction:
                raise
            except OutOfGrammar:
                pass
        # coefficient-wise fall-back
        t = ev.S(ev.ev(a, env))
        notes = []
        body = emit(t, notes)
        used = used_lists(body, lists)
        if not used:
            return ("S", body)
        return ("L", mapk(body, used))

    def L(self, a, env, lists, lazy):
        k, t = self.evv(a, env, lists, lazy)
        if k != "L":
            oog("vector expected")
        return t

    # ---------------------------------------------------------------- step functions (outputs x̂, p)
    def exec_step(self, stmts, env_i, env_a, st, outs, desig, lists, depth, last):
        """executes a statement list; returns a result ("ret", records, ret_ast_env) or ("ite", cond, r1, r2)"""
        ev = self.ev
        for idx, s in enumerate(stmts):
            k = s[0]
            if k == "block":
                return self.exec_step(s[1] + stmts[idx + 1:], env_i, env_a, st, outs, desig, lists, depth, last)
            if k == "decl":
                if s[2] is None:
                    oog("declaration without initialiser")
                env_i[s[1]] = ev.ev(s[2], env_i)
                env_a[s[1]] = ev.ev(s[2], env_a)
            elif k == "assign":
                if s[2] != "=" or s[1][0] != "id" or s[1][1] not in outs:
                    oog("assignment to %s" % (s[1],))
                var = s[1][1]
                gv = gname(var)
                ti = ev.S(ev.ev(s[3], env_i))
                ta = ev.S(ev.ev(s[3], env_a))
                named = None
                if var in desig and last.get(var) is s:
                    gn, sig = desig[var]
                    if depth == 0:
                        st.named_body[gn] = ti
                    args = []
                    for src_name in sig:
                        v = env_i.get(src_name)
                        if v is None:
                            oog("%s needs %s" % (gn, src_name))
                        args += ev.arg_texts(v)
                    named = "(%s %s)" % (gn, " ".join(args))
                    ti = leaf(named)
                deps = {o: st.version.get(o, 0) for o in [gname(x) for x in outs] if mentions(tree_text(ta), o)}
                st.version[gv] = st.version.get(gv, 0) + 1
                st.rec.append(dict(var=gv, inline=ti, alias=ta, named=named, deps=deps))
                env_i[var] = ("S", ti)
                env_a[var] = ("S", leaf(gv))
            elif k == "expr":
                e = s[1]
                if e[0] == "call" and e[1][0] == "id" and e[1][1] == "assert":
                    continue
                if e[0] == "call" and e[1][0] == "id" and e[1][1] in self.steps:
                    self.inline_step(self.steps[e[1][1]], e[2], env_i, env_a, st, outs, lists, depth)
                    continue
                oog("expression statement")
            elif k == "if":
                if s[4]:
                    oog("if constexpr inside a step function")
                c = ev.B(ev.ev(s[1], env_i))
                if not is_pure(c) or used_lists(emit(c), lists):
                    oog("coefficient-dependent control flow")
                th = [s[2]] if s[2][0] != "block" else s[2][1]
                el = [] if s[3] is None else [s[3]] if s[3][0] != "block" else s[3][1]
                if not self.has_return(th):
                    oog("if without return in a step function")
                import copy
                st1, st2 = copy.deepcopy(st), copy.deepcopy(st)
                r1 = self.exec_step(th, dict(env_i), dict(env_a), st1, outs, desig, lists, depth, last)
                r2 = self.exec_step(el + stmts[idx + 1:], dict(env_i), dict(env_a), st2, outs, desig, lists, depth, last)
                st.named_body.update(st1.named_body); st.named_body.update(st2.named_body)
                return ("ite", emit(c), r1, r2)
            elif k == "return":
                return ("ret", st, s[1], dict(env_a))
            else:
                oog("statement %s in a step function" % k)
        return ("ret", st, None, dict(env_a))

    @staticmethod
    def has_return(stmts):
        for s in stmts:
            if s[0] == "return":
                return True
            if s[0] == "block" and Translator.has_return(s[1]):
                return True
            if s[0] == "if" and (Translator.has_return([s[2]]) or (s[3] is not None and Translator.has_return([s[3]]))):
                return True
        return False

    def last_assign(self, stmts, outs):
        """last TOP-LEVEL statement assigning each output (directly or through a translated callee)"""
        last = {}
        for s in stmts:
            if s[0] == "assign" and s[1][0] == "id" and s[1][1] in outs:
                last[s[1][1]] = s
            elif s[0] == "expr" and s[1][0] == "call" and s[1][1][0] == "id" and s[1][1][1] in self.steps:
                f = self.steps[s[1][1][1]]
                for (pn, _), arg in zip(f["params"], s[1][2]):
                    if f["kinds"].get(pn) == "out" and arg[0] == "id" and arg[1] in outs:
                        last[arg[1]] = s
        return last

    def inline_step(self, f, args, env_i, env_a, st, outs, lists, depth):
        if len(args) != len(f["params"]):
            oog("arity of %s" % f["name"])
        ci, ca, omap = {}, {}, {}
        for (pn, _), arg in zip(f["params"], args):
            if f["kinds"][pn] == "out":
                if arg[0] != "id" or arg[1] not in outs:
                    oog("output argument of %s" % f["name"])
                omap[pn] = arg[1]
            else:
                ci[pn] = self.ev.ev(arg, env_i)
                ca[pn] = self.ev.ev(arg, env_a)
        # execute the callee body on the caller's values; its outputs are renamed to the caller's variables
        body = self.rename_outs(f["body"], omap)
        couts = set(omap.values())
        desig = {omap[v]: d for v, d in f["desig"].items() if v in omap}
        # the signature of the callee's named definition refers to the callee's parameter names
        last = self.last_assign(body, couts)
        r = self.exec_step(body, ci, ca, st, couts, desig, lists, depth + 1, last)
        if r[0] != "ret":
            oog("branching callee")
        for v in couts:
            if v in ci:
                env_i[v] = ci[v]; env_a[v] = ca[v]

    def rename_outs(self, x, omap):
        if isinstance(x, tuple):
            if len(x) == 2 and x[0] == "id" and x[1] in omap:
                return ("id", omap[x[1]])
            return tuple(self.rename_outs(y, omap) for y in x)
        if isinstance(x, list):
            return [self.rename_outs(y, omap) for y in x]
        return x

    def step_result(self, r, outs_order, lists, ret_needed):
        """vector-level Gallina of an exec_step result"""
        if r[0] == "ite":
            return "if %s then %s else %s" % (r[1], self.step_result(r[2], outs_order, lists, ret_needed),
                                              self.step_result(r[3], outs_order, lists, ret_needed))
        _, st, ret, env_a = r
        final = {}
        for i, rec in enumerate(st.rec):
            final[rec["var"]] = (i, rec)
        for o in outs_order:
            if o not in final:
                oog("output %s is not assigned" % o)
        lets = []
        all_lists = list(lists) + [o for o in outs_order]
        for i, rec in sorted(final.values(), key=lambda z: z[0]):
            if rec["named"]:
                body = rec["named"]
            else:
                ok = all(st.version.get(o, 0) == ver and final[o][0] < i for o, ver in rec["deps"].items())
                t = rec["alias"] if ok else rec["inline"]
                if not is_pure(t):
                    oog("output %s can be infinite" % rec["var"])
                body = emit(t)
            used = used_lists(body, all_lists)
            lets.append("let %s := %s in" % (rec["var"], mapk(body, used)))
        tup = ", ".join(outs_order)
        if ret_needed:
            if ret is None:
                oog("missing return value")
            k, t = self.evv(ret, env_a, all_lists)
            if k != "S":
                oog("vector-valued return")
            tup += ", " + t
        return "%s (%s)" % (" ".join(lets), tup)

    def translate_step(self, u, src, cname, kinds, desig, vec_name, vec_sig, outs_order, ret_needed, region=None, body_stmts=None,
                       params=None):
        if body_stmts is None:
            params, body = find_function(src, cname)
            body_stmts = parse_stmts(body)
        env, lists = bind_params(params, kinds)
        outs = {n for n, _ in params if kinds.get(n) == "out"}
        st = StepState()
        last = self.last_assign(body_stmts, outs)
        r = self.exec_step(body_stmts, dict(env), dict(env), st, outs, desig, lists, 0, last)
        for v, (gn, sig) in desig.items():
            if gn not in st.named_body:
                oog("no assignment to %s in %s" % (v, cname))
            u.add(gn, PER_ELEM_SIG[gn], emit(st.named_body[gn], u.notes))
        u.add(vec_name, vec_sig, self.step_result(r, outs_order, lists, ret_needed))
        self.steps[cname] = dict(name=cname, params=params, kinds=kinds, body=body_stmts, desig=desig)

    def unit_proj_grad_step(self):
        src = self.source("problem/box-constr-problem.hpp")
        u = Unit("proj_grad_step", "box-constr-problem.hpp: eval_proj_grad_step_box")
        self.translate_step(u, src, "eval_proj_grad_step_box",
                            {"C": "box", "γ": "scal", "x": "vec", "grad_ψ": "vec", "x̂": "out", "p": "out"},
                            {"p": ("g_proj_step1", ["C", "γ", "x", "grad_ψ"])},
                            "g_proj_grad_step", "(lb ub : list (option T)) (γ : T) (x g : list T) : list T * list T * T", ["xh", "p"], True)
        return u

    def unit_prox_grad_step_l1(self):
        src = self.source("problem/box-constr-problem.hpp")
        u = Unit("prox_grad_step_l1", "box-constr-problem.hpp: eval_prox_grad_step_box_l1_impl, _l1, _l1_scal")
        K = {"C": "box", "γ": "scal", "x": "vec", "grad_ψ": "vec", "x̂": "out", "p": "out"}
        self.translate_step(u, src, "eval_prox_grad_step_box_l1_impl", dict(K, λ="vec"),
                            {"p": ("g_prox_step_l1_1", ["C", "λ", "γ", "x", "grad_ψ"])},
                            "g_prox_grad_step_l1_impl", "(lb ub : list (option T)) (λ : list T) (γ : T) (x g : list T) : list T * list T",
                            ["xh", "p"], False)
        self.translate_step(u, src, "eval_prox_grad_step_box_l1", dict(K, λ="vec"), {},
                            "g_prox_grad_step_l1", "(lb ub : list (option T)) (λ : list T) (γ : T) (x g : list T) : list T * list T * T",
                            ["xh", "p"], True)
        self.translate_step(u, src, "eval_prox_grad_step_box_l1_scal", dict(K, λ="scal"), {},
                            "g_prox_grad_step_l1_scal", "(lb ub : list (option T)) (λ γ : T) (x g : list T) : list T * list T * T",
                            ["xh", "p"], True)
        return u

    def unit_dispatch(self):
        src = self.source("problem/box-constr-problem.hpp")
        u = Unit("eval_prox_grad_step", "box-constr-problem.hpp: BoxConstrProblem::eval_prox_grad_step, eval_proj_diff_g")
        params, body = find_function(src, "eval_prox_grad_step")
        if [n for n, _ in params] != ["γ", "x", "grad_ψ", "x̂", "p"]:
            oog("parameters of eval_prox_grad_step")
        env = {"l1_reg": ("LIST", "l1"), "γ": ("S", leaf("γ")), "x": ("LIST", "x"), "grad_ψ": ("LIST", "g")}
        VEC = {"eval_proj_grad_step_box": "g_proj_grad_step", "eval_prox_grad_step_box_l1": "g_prox_grad_step_l1",
               "eval_prox_grad_step_box_l1_scal": "g_prox_grad_step_l1_scal"}

        def ret_call(e):
            if not (e[0] == "call" and e[1][0] == "id" and e[1][1] in VEC):
                oog("return of eval_prox_grad_step is not a call of a translated step function")
            f = self.steps.get(e[1][1]) or STEP_SIGS.get(e[1][1])    # a callee that fell back to its reference keeps its signature
            if f is None or len(f["params"]) != len(e[2]):
                oog("callee %s" % e[1][1])
            out = []
            for (pn, _), a in zip(f["params"], e[2]):
                kd = f["kinds"][pn]
                if kd == "box":
                    if a != ("id", "C"):
                        oog("box argument")
                    out += ["lb", "ub"]
                elif kd == "out":
                    if a not in (("id", "x̂"), ("id", "p")) or a[1] != pn:
                        oog("output argument order")
                else:
                    v = self.ev.ev(a, env)
                    if v[0] == "LIST":
                        if kd != "vec":
                            oog("vector passed for a scalar")
                        out.append(v[1])
                    else:
                        if kd != "scal":
                            oog("scalar passed for a vector")
                        out.append(emit(self.ev.S(v)))
            return "%s %s" % (VEC[e[1][1]], " ".join(out))

        def chain(stmts):
            if not stmts:
                oog("missing return")
            s = stmts[0]
            if s[0] == "block":
                return chain(s[1] + stmts[1:])
            if s[0] == "return" and s[1] is not None:
                if len(stmts) > 1:
                    oog("statement after a return in eval_prox_grad_step (unreachable)")
                return ret_call(s[1])
            if s[0] == "if" and not s[4]:
                c = emit(self.ev.B(self.ev.ev(s[1], env)))
                return "if %s then %s else %s" % (c, chain([s[2]]), chain(([s[3]] if s[3] is not None else []) + stmts[1:]))
            oog("statement %s in eval_prox_grad_step" % s[0])
        u.add("g_eval_prox_grad_step", "(lb ub : list (option T)) (l1 : list T) (γ : T) (x g : list T) : list T * list T * T",
              chain(parse_stmts(body)))
        # eval_proj_diff_g
        params, body = find_function(src, "eval_proj_diff_g")
        st = parse_stmts(body)
        if [n for n, _ in params] != ["z", "p"] or len(st) != 1 or st[0][0] != "assign" or st[0][1] != ("id", "p") or st[0][2] != "=":
            oog("eval_proj_diff_g")
        env2 = {"z": ("S", leaf("z")), "D": ("BOX", ("S", bound_tree("lb", -1)), ("S", bound_tree("ub", +1)))}
        body = emit(self.ev.S(self.ev.ev(st[0][3], env2)), u.notes)
        u.add("g_proj_diff_g", "(lb ub : list (option T)) (z : list T) : list T", mapk(body, used_lists(body, ["lb", "ub", "z"])))
        return u

    # ---------------------------------------------------------------- multipliers (blocks)
    def unit_multipliers(self):
        src = self.source("problem/box-constr-problem.hpp")
        u = Unit("proj_multipliers", "box-constr-problem.hpp: eval_proj_multipliers_box")
        params, body = find_function(src, "eval_proj_multipliers_box")
        if [n for n, _ in params] != ["D", "y", "M", "penalty_alm_split"]:
            oog("parameters of eval_proj_multipliers_box")
        ev = self.ev
        nenv = {"penalty_alm_split": ("N", "k"), "y": ("LIST", "y")}
        views = {}                  # cpp name -> (base list, elem kind, off, len)
        lazy = {}                   # cpp name -> ast (coefficient-wise expression over views)
        lets = []
        named = None

        def base_of(a):
            if a == ("id", "y"):
                return "y", "plain"
            if a == ("member", ("id", "D"), "lowerbound"):
                return "lb", "lower"
            if a == ("member", ("id", "D"), "upperbound"):
                return "ub", "upper"
            return None

        def view_of(a):
            if a[0] == "call" and a[1][0] == "member" and a[1][2] in ("head", "tail", "topRows", "bottomRows", "segment"):
                b = base_of(a[1][1])
                if b is None:
                    oog("block of an unsupported vector")
                m = a[1][2]
                ns = [ev.N(ev.ev(x, nenv)) for x in a[2]]
                if m in ("head", "topRows") and len(ns) == 1:
                    return (b[0], b[1], "0%nat", ns[0])
                if m in ("tail", "bottomRows") and len(ns) == 1:
                    return (b[0], b[1], "(Nat.sub (length %s) %s)" % (b[0], ns[0]), ns[0])  # bound to a name at creation
                if m == "segment" and len(ns) == 2:
                    return (b[0], b[1], ns[0], ns[1])
                oog("block arguments")
            return None

        def elem_env(used):
            env = {"M": ("S", leaf("M"))}
            env.update((n, v) for n, v in nenv.items() if v[0] == "N")         # sizes (arguments of vec::Constant / Zero)
            for n, (b, kind, off, ln) in views.items():
                env[n] = ("S", leaf("y")) if kind == "plain" else ("S", bound_tree(b, -1 if kind == "lower" else +1))
            for n, a in lazy.items():
                env[n] = ev.ev(subst_views(a), env)
            return env

        def subst_views(a):
            return a

        def views_used(a, acc):
            if isinstance(a, tuple):
                if len(a) == 2 and a[0] == "id":
                    if a[1] in views:
                        acc.append(a[1])
                    elif a[1] in lazy:
                        views_used(lazy[a[1]], acc)
                else:
                    for x in a:
                        views_used(x, acc)
            elif isinstance(a, list):
                for x in a:
                    views_used(x, acc)
            return acc

        for s in parse_stmts(body):
            if s[0] == "decl" and s[2] is not None:
                v = view_of(s[2])
                if v is not None:
                    if v[2] != "0%nat" and not re.fullmatch(r"\w+", v[2]):     # the block keeps the offset it was created with
                        lets.append("let off_%s := %s in" % (s[1], v[2]))
                        v = (v[0], v[1], "off_" + s[1], v[3])
                    views[s[1]] = v
                    continue
                try:
                    val = ev.ev(s[2], nenv)
                    if val[0] == "N":
                        lets.append("let %s := %s in" % (s[1], val[1]))
                        nenv[s[1]] = ("N", s[1])
                        continue
                except OutOfGrammar:
                    pass
                lazy[s[1]] = s[2]
            elif s[0] == "expr" and s[1][0] == "call" and s[1][1][0] == "member" and s[1][1][2] == "setZero" and not s[1][2]:
                tgt = s[1][1][1]
                if tgt[0] != "id" or tgt[1] not in views or views[tgt[1]][0] != "y":
                    oog("setZero on something that is not a block of y")
                _, _, off, ln = views[tgt[1]]
                lets.append("let y := vsplice %s %s (vconst %s n0) y in" % (off, ln, ln))
            elif s[0] == "assign" and s[2] == "=" and s[1][0] == "id" and s[1][1] in views and views[s[1][1]][0] == "y":
                if named is not None:
                    oog("second coefficient-wise assignment to y")
                tb, _, toff, tlen = views[s[1][1]]
                used = sorted(set(views_used(s[3], [])))
                bases = {}
                for n in used:
                    b, kind, off, ln = views[n]
                    if b in bases and bases[b] != (off, ln):
                        oog("two different blocks of %s in one expression" % b)
                    bases[b] = (off, ln)
                if not set(bases) <= {"lb", "ub", "y"}:
                    oog("multiplier expression uses an unexpected vector")
                if bases.get("y", (toff, tlen)) != (toff, tlen):
                    oog("source and target blocks of y differ")
                for b in ("lb", "ub", "y"):        # a vector the expression does not read: any block of the right length will do
                    if b not in bases:
                        bases[b] = (toff, tlen)
                        u.notes.append("the expression assigned to %s does not read %s" % (s[1][1], b))
                t = ev.S(ev.ev(s[3], elem_env(used)))
                named = emit(t, u.notes)
                sl = " ".join("(vslice %s %s %s)" % (bases[b][0], bases[b][1], b) for b in ("lb", "ub", "y"))
                lets.append("let y := vsplice %s %s (map3 (fun lb ub y => g_proj_multiplier1 lb ub M y) %s) y in" % (toff, tlen, sl))
            else:
                oog("statement %s in eval_proj_multipliers_box" % s[0])
        if named is None:
            oog("no assignment to a block of y")
        u.add("g_proj_multiplier1", "(lb ub : option T) (M y : T) : T", named)
        u.add("g_proj_multipliers", "(k : nat) (lb ub : list (option T)) (M : T) (y : list T) : list T", " ".join(lets) + " y")
        return u

    # ---------------------------------------------------------------- inactive indices
    def exec_J(self, stmts, env):
        """per-coefficient execution of statements whose only effect is `J(nJ++) = i`; returns the B tree `i was appended`"""
        ev = self.ev
        res = FALSE
        env = dict(env)

        def seq(a, b):
            if a == FALSE:
                return b
            if b == FALSE:
                return a
            oog("an index may be appended twice")
        for s in stmts:
            k = s[0]
            if k == "block":
                res = seq(res, self.exec_J(s[1], env))
            elif k == "decl" and s[2] is not None:
                env[s[1]] = ev.ev(s[2], env)
            elif k == "if" and not s[4]:
                c = ev.B(ev.ev(s[1], env))
                a = self.exec_J([s[2]], env)
                b = self.exec_J([s[3]], env) if s[3] is not None else FALSE
                res = seq(res, op(l_ite, c, a, b))
            elif k == "assign":
                lhs = s[1]
                ok = (s[2] == "=" and lhs[0] == "call" and lhs[1] == ("id", "J") and lhs[2] == [("postinc", "++", ("id", "nJ"))])
                if not ok:
                    oog("assignment in the index loop")
                v = ev.ev(s[3], env)
                if not (v[0] == "N" and v[1] == env.get("@loopvar")):
                    oog("J receives something other than the loop index")
                res = seq(res, TRUE)
            elif k == "expr" and s[1][0] == "call" and s[1][1][0] == "id" and env.get(s[1][1][1], ("",))[0] == "FN":
                f = env[s[1][1][1]]
                argv = [ev.ev(x, env) for x in s[1][2]]
                if len(argv) != len(f[1]):
                    oog("lambda arity")
                e2 = dict(f[3]); e2["@loopvar"] = env.get("@loopvar")
                # lambdas defined earlier capture by reference: later bindings of the enclosing scope are visible
                for kk, vv in env.items():
                    e2.setdefault(kk, vv)
                e2.update(zip(f[1], argv))
                res = seq(res, self.exec_J(f[2], e2))
            else:
                oog("statement %s in the index loop" % k)
        return res

    def unit_inactive(self):
        src = self.source("problem/box-constr-problem.hpp")
        u = Unit("inactive_indices", "box-constr-problem.hpp: eval_inactive_indices_res_lna (+ both lambdas)")
        params, body = find_function(src, "eval_inactive_indices_res_lna")
        if [n for n, _ in params] != ["γ", "x", "grad_ψ", "J"]:
            oog("parameters of eval_inactive_indices_res_lna")
        ev = self.ev
        env = {"γ": ("S", leaf("γ")), "x": ("S", leaf("x")), "grad_ψ": ("S", leaf("g")), "l1_reg": ("LIST", "l1"),
               "C": ("BOX", ("S", bound_tree("lb", -1)), ("S", bound_tree("ub", +1))), "n": ("N", "?n")}
        loops = []

        def loop(s, env):
            init, cond, incr, bd = s[1], s[2], s[3], s[4]
            if not (init and init[0] == "decl" and init[2] == ("num", "0")):
                oog("loop initialisation")
            i = init[1]
            if cond != ("bin", "<", ("id", i), ("id", "n")) or incr not in (("preinc", "++", ("id", i)), ("postinc", "++", ("id", i))):
                oog("loop bounds are not 0 <= i < n")
            e2 = dict(env); e2[i] = ("N", "i"); e2["@loopvar"] = "i"
            # C.lowerbound(i): a box member indexed by the loop variable is the coefficient itself
            e2["C"] = env["C"]
            body = [bd] if bd[0] != "block" else bd[1]
            weight = None
            rest = []
            for st in body:
                if st[0] == "decl" and st[2] is not None and weight is None and not rest:
                    v = ev.ev(st[2], e2)
                    if v[0] in ("S", "LIT") and mentions(emit(ev.S(v)), "l1"):
                        weight = emit(ev.S(v))
                        e2[st[1]] = ("S", leaf("λ"))
                        continue
                rest.append(st)
            return weight, emit(self.exec_J(rest, e2), u.notes)

        # box members indexed with (i): handled by the evaluator through call on an S value
        is_zero = None
        structure = None
        sts = parse_stmts(body)
        # the counter: declared first (`index_t nJ = 0;`, the lambdas capture it) and returned last (`return nJ;`), nothing after it
        if len(sts) < 2 or sts[0][:3] != ("decl", "nJ", ("num", "0")) or sts[-1] != ("return", ("id", "nJ")) or \
                any(x[0] == "return" or (x[0] == "decl" and x[1] == "nJ") for x in sts[1:-1]):
            oog("eval_inactive_indices_res_lna does not start with `index_t nJ = 0;` and end with its only `return nJ;`")
        for s in sts:
            if s[0] == "decl" and s[2] is not None:
                if s[1] == "nJ":
                    if s[2] != ("num", "0"):
                        oog("nJ does not start at 0")
                    continue
                env[s[1]] = ev.ev(s[2], env)
            elif s[0] == "if" and not s[4] and s[2][0] == "for" and s[3] is not None and s[3][0] == "for":
                if structure is not None:
                    oog("more than one loop nest")
                c = ev.B(ev.ev(s[1], env))
                structure = (emit(c), loop(s[2], env), loop(s[3], env))
            elif s[0] == "return":
                if s[1] != ("id", "nJ"):
                    oog("return value is not nJ")
            else:
                oog("statement %s in eval_inactive_indices_res_lna" % s[0])
        if structure is None:
            oog("loop structure `if (λ_is_0) for ... else for ...` not found")
        c, (w1, b1), (w2, b2) = structure
        if w1 is not None or w2 is None:
            oog("expected a weight-free first loop and a weighted second loop")
        for b in (b1, b2):
            if mentions(b, "i") or mentions(b, "l1"):
                oog("index-dependent loop body")
        u.add("g_inactive_box1", "(lb ub : option T) (γ x g : T) : bool", b1)
        u.add("g_inactive1", "(lb ub : option T) (λ γ x g : T) : bool", b2)
        u.add("g_l1_weight", "(l1 : list T) (i : nat) : T", w2)
        u.add("g_l1_is_zero", "(l1 : list T) : bool", c)
        u.add("g_inactive_indices", "(lb ub : list (option T)) (l1 : list T) (γ : T) (x g : list T) : list nat",
              "if g_l1_is_zero l1 then idx_filter4 (fun i lb ub x g => g_inactive_box1 lb ub γ x g) 0%nat lb ub x g "
              "else idx_filter4 (fun i lb ub x g => g_inactive1 lb ub (g_l1_weight l1 i) γ x g) 0%nat lb ub x g")
        return u

    # ---------------------------------------------------------------- l1-norm.hpp
    def l1_branches(self, struct):
        src = struct_region(self.source("functions/l1-norm.hpp"), struct)
        params, body = find_function(src, "prox")
        body = flat(body)
        ones = "if constexpr (std::is_same_v<weight_t, vec>) if (λ.size() == 0) λ = weight_t::Ones(n);"
        if body.count(ones) != 1 or flat("} else { " + ones) not in body:
            oog("%s::prox: the all-ones default `%s` is not the first statement of the vector-weight branch" % (struct, ones))
        body = body.replace(ones, " ")          # recognised and NOT modelled: an empty weight vector means all-ones
        st = parse_stmts(body)
        pre, a, b = [], None, None
        for s in st:
            if s[0] == "if" and s[4]:
                if flat(s[1][1]) != "scalar_weight" or s[3] is None or a is not None:
                    oog("if constexpr structure of %s::prox" % struct)
                a = s[2][1] if s[2][0] == "block" else [s[2]]
                b = s[3][1] if s[3][0] == "block" else [s[3]]
            elif a is None:
                pre.append(s)
            else:
                oog("statement after the if constexpr of %s::prox" % struct)
        if a is None:
            oog("if constexpr (scalar_weight) not found in %s::prox" % struct)
        return params, pre + a, pre + b

    def unit_l1(self):
        u = Unit("l1_prox", "l1-norm.hpp: L1Norm::prox (scalar weight; vector weight)")
        params, sa, sb = self.l1_branches("L1Norm")
        if [n for n, _ in params] != ["in", "out", "γ"]:
            oog("parameters of L1Norm::prox")
        K = {"in": "vec", "out": "out", "γ": "scal"}
        pp = [("λ", "weight_t")] + params
        self.translate_step(u, None, "L1Norm::prox[scalar]", dict(K, λ="scal"), {"out": ("g_l1_prox1", ["λ", "γ", "in"])},
                            "g_l1_prox_scal", "(λ γ : T) (v : list T) : list T * T", ["out"], True, body_stmts=sa, params=pp)
        self.translate_step(u, None, "L1Norm::prox[vector]", dict(K, λ="vec"), {"out": ("g_l1_prox_w1", ["λ", "γ", "in"])},
                            "g_l1_prox_vec", "(λ : list T) (γ : T) (v : list T) : list T * T", ["out"], True, body_stmts=sb, params=pp)
        u.notes.append("`if (λ.size() == 0) λ = Ones(n)` (vector weight) is recognised and not modelled")
        return u

    # L1NormComplex::prox, consume-everything: besides the translated statements (the soft_thres lambda and `out = in.unaryExpr(..)` of the
    # scalar-weight branch) the body consists of exactly these statements, in this order (asserts apart): known, not modelled
    L1C_SCALAR = ["const length_t n = in.size();", "if (λ == 0) { out = in; return 0; }", "<lambda>", "<out>",
                  "return λ * norm_1(out.reshaped());"]
    L1C_VECTOR = ["const length_t n = in.size();",
                  "auto soft_thres = [γ](cplx_t x, real_t λ) { real_t γλ = γ * λ; auto mag2 = x.real() * x.real() + x.imag() * x.imag(); "
                  "return mag2 <= γλ * γλ ? 0 : x * (1 - γλ / std::sqrt(mag2)); };",
                  "out = in.binaryExpr(λ, soft_thres);", "return norm_1(out.cwiseProduct(λ).reshaped());"]

    def unit_l1c(self):
        u = Unit("l1c_prox", "l1-norm.hpp: L1NormComplex::prox (scalar weight): the soft_thres lambda")
        params, sa, sb = self.l1_branches("L1NormComplex")
        if [n for n, _ in params] != ["in", "out", "γ"]:
            oog("parameters of L1NormComplex::prox")
        ev = self.ev
        env = {"λ": ("S", leaf("λ")), "γ": ("S", leaf("γ")), "in": ("C", leaf("a"), leaf("b"))}
        out = None
        is_assert = lambda s: s[0] == "expr" and s[1][0] == "call" and s[1][1] == ("id", "assert")

        def known(text):
            USINGS.update(("norm_1", "norm_inf"))
            return Parser(tokenize(text)).stmts_all()[0]
        sa = [s for s in sa if not is_assert(s)]
        sb = [s for s in sb if not is_assert(s)]
        if len(sa) != len(self.L1C_SCALAR) or len(sb) != len(self.L1C_VECTOR):
            oog("number of statements of L1NormComplex::prox")
        for s, k in zip(sb, self.L1C_VECTOR):
            if s != known(k):
                oog("vector-weight branch of L1NormComplex::prox: statement %s differs from the known `%s`" % (s[0], k[:40]))
        for s, k in zip(sa, self.L1C_SCALAR):
            if k == "<lambda>":
                if not (s[0] == "decl" and s[2] is not None and s[2][0] == "lambda"):
                    oog("soft_thres lambda expected in L1NormComplex::prox")
                env[s[1]] = ev.ev(s[2], env)
            elif k == "<out>":
                if not (s[0] == "assign" and s[1] == ("id", "out") and s[2] == "="):
                    oog("`out = in.unaryExpr(soft_thres)` expected in L1NormComplex::prox")
                v = ev.ev(s[3], env)
                if v[0] == "C":
                    out = v
            elif s != known(k):
                oog("scalar-weight branch of L1NormComplex::prox: statement %s differs from the known `%s`" % (s[0], k[:40]))
        if out is None:
            oog("out = in.unaryExpr(soft_thres) not found")
        u.add("g_l1c_prox1", "(λ γ : T) (z : T * T) : T * T",
              "let '(a, b) := z in (%s, %s)" % (emit(out[1], u.notes), emit(out[2], u.notes)))
        return u

    # ---------------------------------------------------------------- prox.hpp / indicator-box.hpp
    def unit_prox_step(self):
        u = Unit("prox_step", "prox.hpp: default prox_step; indicator-box.hpp: prox and prox_step of a Box")
        src = self.source("functions/prox.hpp")
        m = re.search(r"fb_step\s*=\s*([^;]+);\s*auto\s*&&\s*h_out\s*=\s*prox\(\s*func\s*,\s*fb_step\s*,\s*out\s*,\s*γ\s*\)\s*;\s*"
                      r"fb_step\s*=\s*([^;]+);\s*return\s+h_out\s*;", src)
        if not m:
            oog("default prox_step body")
        ev = self.ev
        env = {"in": ("S", leaf("v")), "fwd_step": ("S", leaf("d")), "γ_fwd": ("S", leaf("γf")), "out": ("S", leaf("out"))}
        u.add("g_prox_step_fwd1", "(γf v d : T) : T", emit(ev.S(ev.ev(Parser(tokenize(m.group(1))).expr(), env))))
        u.add("g_prox_step_fb1", "(v out : T) : T", emit(ev.S(ev.ev(Parser(tokenize(m.group(2))).expr(), env))))
        src = self.source("functions/indicator-box.hpp")
        fns = []
        for m in re.finditer(r"alpaqa_tag_invoke\s*\(\s*tag_t<alpaqa::(prox|prox_step)>", src):
            i = src.index("(", m.start())
            j = _match(src, i, "(", ")")
            b0 = src.index("{", j)
            fns.append((m.group(1), src[b0 + 1:_match(src, b0, "{", "}")]))
        if [f for f, _ in fns] != ["prox", "prox_step"]:
            oog("indicator-box.hpp: tag_invoke overloads")
        box = ("BOX", ("S", bound_tree("lb", -1)), ("S", bound_tree("ub", +1)))
        for which, body in fns:
            env = {"self": box, "in": ("S", leaf("v")), "fwd_step": ("S", leaf("d")), "γ_fwd": ("S", leaf("γf"))}
            got = {}
            sts = parse_stmts(body)
            if not sts or sts[-1] != ("return", ("num", "0")) or any(x[0] == "return" for x in sts[:-1]):
                oog("Box %s does not end with its only `return 0;`" % which)
            for s in sts:
                if s[0] == "expr" and s[1][0] == "call" and s[1][1] == ("id", "assert"):
                    continue
                if s[0] == "assign" and s[2] == "=" and s[1][0] == "id":
                    t = ev.S(ev.ev(s[3], env))
                    got[s[1][1]] = t
                    env[s[1][1]] = ("S", t)
                elif s[0] == "return":
                    if s[1] != ("num", "0"):
                        oog("Box prox does not return 0")
                else:
                    oog("statement %s in Box %s" % (s[0], which))
            if which == "prox":
                if set(got) != {"out"}:
                    oog("Box prox outputs")
                u.add("g_box_prox1", "(lb ub : option T) (v : T) : T", emit(got["out"], u.notes))
            else:
                if set(got) != {"out", "fb_step"}:
                    oog("Box prox_step outputs")
                u.add("g_box_prox_step1", "(lb ub : option T) (γf v d : T) : T", emit(got["fb_step"], u.notes))
                env2 = dict(env); env2["fb_step"] = ("S", leaf("p"))
                for s in parse_stmts(body):
                    if s[0] == "assign" and s[1] == ("id", "out"):
                        u.add("g_box_prox_step_out1", "(v p : T) : T", emit(ev.S(ev.ev(s[3], env2))))
        return u


_K = {"C": "box", "γ": "scal", "x": "vec", "grad_ψ": "vec", "x̂": "out", "p": "out"}
STEP_SIGS = {
    "eval_proj_grad_step_box": dict(params=[(n, "") for n in ("C", "γ", "x", "grad_ψ", "x̂", "p")], kinds=_K),
    "eval_prox_grad_step_box_l1": dict(params=[(n, "") for n in ("C", "λ", "γ", "x", "grad_ψ", "x̂", "p")], kinds=dict(_K, λ="vec")),
    "eval_prox_grad_step_box_l1_scal": dict(params=[(n, "") for n in ("C", "λ", "γ", "x", "grad_ψ", "x̂", "p")], kinds=dict(_K, λ="scal")),
}

PER_ELEM_SIG = {
    "g_proj_step1": "(lb ub : option T) (γ x g : T) : T",
    "g_prox_step_l1_1": "(lb ub : option T) (λ γ x g : T) : T",
    "g_l1_prox1": "(λ γ v : T) : T",
    "g_l1_prox_w1": "(λ γ v : T) : T",
}

UNITS = ["project", "dist", "proj_grad_step", "prox_grad_step_l1", "dispatch", "multipliers", "inactive", "l1", "l1c", "prox_step"]
UNIT_NAMES = {"project": "project", "dist": "dist_squared", "proj_grad_step": "proj_grad_step", "prox_grad_step_l1": "prox_grad_step_l1",
              "dispatch": "eval_prox_grad_step", "multipliers": "proj_multipliers", "inactive": "inactive_indices", "l1": "l1_prox",
              "l1c": "l1c_prox", "prox_step": "prox_step"}


def render_unit(u, status):
    L = ["  (* BEGIN %s [%s] *)" % (u.name, status), "  (* C++: %s *)" % u.cpp]
    for n in sorted(set(u.notes), key=u.notes.index):
        L.append("  (* note: %s *)" % n.replace("*)", "* )").replace("(*", "( *"))
    for gn, sig, body in u.defs:
        L.append("  Definition %s %s :=\n    %s." % (gn, sig, body))
    L.append("  (* END %s *)" % u.name)
    return "\n".join(L)


def ref_blocks():
    out = {}
    if os.path.exists(REF):
        txt = open(REF, encoding="utf-8").read()
        for m in re.finditer(r"  \(\* BEGIN (\w+) \[[^\]]*\] \*\)\n(.*?)  \(\* END \1 \*\)", txt, re.S):
            out[m.group(1)] = m.group(2)
    return out


HEADER = """(* ProxGen.v — GENERATED by translate/gen_prox.py; do not edit.
   origin: %s
   status: %s *)
From Coq Require Import List ZArith Bool.
From Alpaqa Require Import Num Vec ProxGenLib.
Import ListNotations.

Section ProxGen.
  Context {T : Type} `{Num T}.
  Local Open Scope bool_scope.
  Local Open Scope num_scope.
"""


def generate(repo):
    tr = Translator(repo)
    blocks, status = [], {}
    refs = None
    for key in UNITS:
        uname = UNIT_NAMES[key]
        try:
            u = getattr(tr, "unit_" + key)()
            blocks.append(render_unit(u, "ok"))
            status[uname] = "ok"
        except (OutOfGrammar, OSError, UnicodeDecodeError, RecursionError) as ex:
            if refs is None:
                refs = ref_blocks()
            reason = flat(str(ex))[:200].replace("*)", "* )").replace("(*", "( *")
            status[uname] = "out-of-grammar: " + reason
            if uname not in refs:
                raise OutOfGrammar("unit %s out of grammar (%s) and no reference block" % (uname, reason))
            blocks.append("  (* BEGIN %s [REFERENCE — source out of grammar: %s] *)\n%s  (* END %s *)" % (uname, reason, refs[uname], uname))
            # later units may call the functions of this unit: they then fall back as well (callee unknown) — reported per unit
    return blocks, status


def write(repo=None, outfile=None):
    repo = repo or os.environ.get("VERIF_REPO", "/repo")
    outfile = outfile or os.path.join(os.environ.get("VERIF_GEN_OUT") or os.path.join(VERIF, "coq", "gen"), "ProxGen.v")
    blocks, status = generate(repo)
    bad = {k: v for k, v in status.items() if v != "ok"}
    st = "ok" if not bad else "translator-out-of-grammar"
    txt = HEADER % (os.path.join(repo, INC), "; ".join("%s=%s" % (k, "ok" if v == "ok" else "REFERENCE") for k, v in status.items()))
    txt += "\n" + "\n\n".join(blocks) + "\n\nEnd ProxGen.\n"
    os.makedirs(os.path.dirname(outfile), exist_ok=True)
    old = open(outfile, encoding="utf-8").read() if os.path.exists(outfile) else None
    if old != txt:
        open(outfile, "w", encoding="utf-8").write(txt)
    return st, bad, status


if __name__ == "__main__":
    if len(sys.argv) > 1 and sys.argv[1] == "--write-ref":
        st, bad, status = write(sys.argv[2] if len(sys.argv) > 2 else None, REF + ".tmp")
        if st != "ok":
            os.remove(REF + ".tmp")
            print("refusing to write a reference from an out-of-grammar tree:", bad)
            sys.exit(2)
        os.replace(REF + ".tmp", REF)
        print("reference written:", REF)
        sys.exit(0)
    st, bad, status = write(*(sys.argv[1:3]))
    print(st, bad if bad else "%d units" % len(status))
    sys.exit(0 if st == "ok" else 2)
