#!/usr/bin/env python3
"""gen_C07_alm.py — translators G4 and G5 for C07 (DESIGN.md §2.3).

G4  reads  <repo>/src/alpaqa/include/alpaqa/implementation/outer/internal/alm-helpers.tpp  (update_penalty_weights,
    initialize_penalty) and  .../implementation/outer/alm.tpp  (penalty selection, termination expression, exit, status
    selection chain, Interrupted test, the read of ALM's own stop flag (`bool interrupted = stop_signal.stop_requested();`,
    which must sit after the inner solve and after the Interrupted-inner return, before the exit test), failure counter,
    tolerance update, out_of_iter/out_of_time, time_remaining, the call of update_penalty_weights, the InnerSolveOptions
    initialisers)  and  outer/alm.hpp  (the statements of ALMSolver::stop())  and writes  coq/gen/AlmGen.v : Gallina definitions over
    `Num`, translated expression by expression (recursive descent over a restricted C++ expression grammar), statement
    shapes matched against the loop forms that occur.  theories/AlmGenEq.v proves every generated kernel equal to the
    kernel of the hand model Alm.v the theorems are about, so a source change breaks a proof obligation.
G5  reads the five `InnerStatsAccumulator` `operator+=` bodies (inner/panoc.hpp zerofpr.hpp pantr.hpp fista.hpp
    panoc-ocp.hpp) and the corresponding Stats structs and writes  coq/gen/StatsAcc.v : per solver the table
    (field, Sum | Last | Max) and the list of Stats fields.

Restricted grammar
  expr  := or ['?' expr ':' expr] ; or := and ('||' and)* ; and := neg ('&&' neg)* ; neg := ('!'|'not') neg | cmp
  cmp   := sum [('<'|'<='|'>'|'>='|'==') sum] ; sum := prod (('+'|'-') prod)* ; prod := un (('*'|'/') un)* ; un := '-' un | atom
  atom  := number | '(' expr ')' | identifier (params.x, ps.ε, SolverStatus::X, locals)
         | std::fmax/fmin/max/min(a,b) | std::abs(a) | std::clamp(a,lo,hi) | real_t(a) | V(i) | V(0) | V.squaredNorm()
         | Σ->allFinite() | Σ->norm() | norm_inf(V) | decltype(time_elapsed){0} | stop_signal.stop_requested()
  stmt  := '{' stmt* '}' | if '(' expr ')' stmt [else stmt] | return ';' | for '(' index_t i = 0; i < e.rows(); ++i ')' stmt
         | [const] real_t x = expr ';' | x = expr ';' | Σ(i) = expr ';' | Σ.setConstant(expr) ';'
Anything else -> OutOfGrammar with the offending text; the files then hold the REFERENCE kernels (= the hand model), the
status `translator-out-of-grammar` is returned (CLI exit code 2) and recorded in the evidence by lib/vf/props/C07.py.

Consume-everything (translate/strict.py, DESIGN §9.4): `account_loop` matches the body of the outer loop statement by statement (the
translated expressions are wild cards there, every other statement is fixed text incl. the print block and the two result blocks);
every member of the Stats structs is a field of a known form.

Usage: gen_C07_alm.py [repo] [outdir]"""
import os, re, sys, unicodedata
from fractions import Fraction
sys.path.insert(0, os.path.dirname(os.path.abspath(__file__)))
import strict

HERE = os.path.dirname(os.path.abspath(__file__))
VERIF = os.path.dirname(HERE)
INC = "src/alpaqa/include/alpaqa"
HELPERS = INC + "/implementation/outer/internal/alm-helpers.tpp"
ALM = INC + "/implementation/outer/alm.tpp"
ALM_HPP = INC + "/outer/alm.hpp"
ACC_FILES = [("panoc", "inner/panoc.hpp", "PANOCStats"), ("zerofpr", "inner/zerofpr.hpp", "ZeroFPRStats"),
             ("pantr", "inner/pantr.hpp", "PANTRStats"), ("fista", "inner/fista.hpp", "FISTAStats"),
             ("panococp", "inner/panoc-ocp.hpp", "PANOCOCPStats")]


class OutOfGrammar(Exception):
    pass


# ----------------------------------------------------------------------------- tokenizer

def _idc(c):
    return c.isalnum() or c == "_" or unicodedata.category(c)[0] in "LM"


def tokenize(s):
    toks, i, n = [], 0, len(s)
    while i < n:
        c = s[i]
        if c.isspace():
            i += 1
        elif c.isdigit() or (c == "." and i + 1 < n and s[i + 1].isdigit()):
            j = i
            while j < n and (s[j].isdigit() or s[j] == "." or s[j] in "eE" and j + 1 < n and (s[j + 1].isdigit() or s[j + 1] in "+-")):
                j += 1
            toks.append(("num", s[i:j])); i = j
        elif _idc(c):
            j = i
            while j < n:
                if _idc(s[j]):
                    j += 1
                elif s.startswith("->", j) and j + 2 < n and _idc(s[j + 2]):
                    j += 2
                elif s.startswith("::", j) and j + 2 < n and _idc(s[j + 2]):
                    j += 2
                elif s[j] == "." and j + 1 < n and _idc(s[j + 1]) and not s[j + 1].isdigit():
                    j += 1
                else:
                    break
            toks.append(("id", s[i:j])); i = j
        elif s[i:i + 2] in ("&&", "||", ">=", "<=", "==", "!=", "++", "+=", "-=", "*=", "/="):
            toks.append(("op", s[i:i + 2])); i += 2
        elif c in "+-*/()<>{};=,?:!&*":
            toks.append(("op", c)); i += 1
        else:
            raise OutOfGrammar("unexpected character %r in %r" % (c, s[max(0, i - 30):i + 30]))
    return toks


# ----------------------------------------------------------------------------- expressions -> typed Gallina

PARAM_FIELDS = {   # ALMParams member -> (type, projection of Alm.alm_params)
    "tolerance": ("T", "p_tol"), "dual_tolerance": ("T", "p_dual_tol"), "penalty_update_factor": ("T", "p_Delta"),
    "initial_penalty": ("T", "p_init_pen"), "initial_penalty_factor": ("T", "p_init_pen_factor"),
    "initial_tolerance": ("T", "p_init_tol"), "tolerance_update_factor": ("T", "p_rho"),
    "rel_penalty_increase_threshold": ("T", "p_theta"), "max_multiplier": ("T", "p_M"),
    "max_penalty": ("T", "p_max_pen"), "min_penalty": ("T", "p_min_pen"),
    "max_iter": ("nat", "p_max_iter"), "single_penalty_factor": ("bool", "p_single"),
}
STATUSES = ["Busy", "Converged", "MaxTime", "MaxIter", "NotFinite", "NoProgress", "Interrupted", "Exception"]


def num_lit(txt, ty):
    try:
        q = Fraction(txt)
    except ValueError:
        raise OutOfGrammar("bad number %r" % txt)
    if ty == "nat":
        if q.denominator != 1: raise OutOfGrammar("non-integer literal %r in a nat expression" % txt)
        return "%d%%nat" % q.numerator
    if ty == "Z":
        if q.denominator != 1: raise OutOfGrammar("non-integer literal %r in a duration expression" % txt)
        return "%d%%Z" % q.numerator
    if q.denominator & (q.denominator - 1):
        raise OutOfGrammar("non-dyadic literal %r" % txt)

    def z(k):
        return "n0" if k == 0 else "n1" if k == 1 else "n2" if k == 2 else "(nofZ %d%%Z)" % k
    return z(q.numerator) if q.denominator == 1 else "(%s / %s)" % (z(q.numerator), z(q.denominator))


class P:
    """token-stream parser; env: identifier -> (type, gallina); vecs: vector name -> {index-token: (type, gallina)}"""

    def __init__(self, toks, env, vecs=None, what=""):
        self.t, self.i, self.env, self.vecs, self.what = toks, 0, dict(env), vecs or {}, what

    def peek(self, k=0):
        return self.t[self.i + k] if self.i + k < len(self.t) else (None, None)

    def at(self, val):
        return self.peek() == ("op", val) or self.peek() == ("id", val)

    def eat(self, val=None):
        k, v = self.peek()
        if k is None or (val is not None and v != val):
            raise OutOfGrammar("%s: expected %r, found %r (token %d)" % (self.what, val, v, self.i))
        self.i += 1
        return v

    def text(self, a, b):
        return " ".join(v for _, v in self.t[a:b])

    # -- expressions
    def expr(self):
        c = self.orx()
        if self.at("?"):
            self.eat()
            a = self.expr(); self.eat(":"); b = self.expr()
            self.need(c, "bool")
            if a[0] != b[0]:
                if {a[0], b[0]} == {"T", "lit"} or {a[0], b[0]} == {"Z", "lit"}:
                    pass
                else:
                    raise OutOfGrammar("%s: ternary arms of different types %s / %s" % (self.what, a[0], b[0]))
            ty = a[0] if a[0] != "lit" else b[0]
            return (ty, "(if %s then %s else %s)" % (c[1], self.lit(a, ty), self.lit(b, ty)))
        return c

    def need(self, e, ty):
        if e[0] != ty:
            raise OutOfGrammar("%s: expected a %s expression, got %s: %s" % (self.what, ty, e[0], e[1]))

    def lit(self, e, ty):
        """numeric literals are typed by their context"""
        return num_lit(e[1], ty) if e[0] == "lit" else e[1]

    def orx(self):
        a = self.andx()
        while self.at("||"):
            self.eat(); b = self.andx(); self.need(a, "bool"); self.need(b, "bool")
            a = ("bool", "(%s || %s)" % (a[1], b[1]))
        return a

    def andx(self):
        a = self.neg()
        while self.at("&&"):
            self.eat(); b = self.neg(); self.need(a, "bool"); self.need(b, "bool")
            a = ("bool", "(%s && %s)" % (a[1], b[1]))
        return a

    def neg(self):
        if self.at("!") or self.at("not"):
            self.eat(); a = self.neg(); self.need(a, "bool")
            return ("bool", "(negb %s)" % a[1])
        return self.cmp()

    def unify(self, a, b):
        ty = a[0] if a[0] != "lit" else b[0]
        if ty == "lit": ty = "T"
        if (a[0] not in (ty, "lit")) or (b[0] not in (ty, "lit")):
            raise OutOfGrammar("%s: operands of different types: %s : %s and %s : %s" % (self.what, a[1], a[0], b[1], b[0]))
        return ty, self.lit(a, ty), self.lit(b, ty)

    def cmp(self):
        a = self.sum()
        k, v = self.peek()
        if k == "op" and v in ("<", "<=", ">", ">=", "=="):
            self.eat(); b = self.sum()
            ty, x, y = self.unify(a, b)
            if ty == "T":
                if v == "==": return ("bool", "(%s =? %s)" % (x, y))
                return ("bool", {">": "(%s <? %s)" % (y, x), "<": "(%s <? %s)" % (x, y),
                                 ">=": "(%s <=? %s)" % (y, x), "<=": "(%s <=? %s)" % (x, y)}[v])
            if ty in ("nat", "Z"):
                m = "Nat" if ty == "nat" else "Z"
                return ("bool", {"==": "(%s.eqb %s %s)", "<": "(%s.ltb %s %s)", "<=": "(%s.leb %s %s)"}[v] % (m, x, y) if v in ("==", "<", "<=")
                        else {">": "(%s.ltb %s %s)", ">=": "(%s.leb %s %s)"}[v] % (m, y, x))
            if ty == "status" and v == "==":
                return ("bool", "(status_eqb %s %s)" % (x, y))
            raise OutOfGrammar("%s: comparison %s on %s" % (self.what, v, ty))
        return a

    def arith(self, a, op, b):
        ty, x, y = self.unify(a, b)
        if ty == "T": return ("T", "(%s %s %s)" % (x, op, y))
        if ty in ("nat", "Z") and op in "+-*": return (ty, "(%s %s %s)%%%s" % (x, op, y, ty))
        raise OutOfGrammar("%s: operator %s on %s" % (self.what, op, ty))

    def sum(self):
        a = self.prod()
        while self.peek() in (("op", "+"), ("op", "-")):
            op = self.eat(); a = self.arith(a, op, self.prod())
        return a

    def prod(self):
        a = self.un()
        while self.peek() in (("op", "*"), ("op", "/")):
            op = self.eat(); a = self.arith(a, op, self.un())
        return a

    def un(self):
        if self.at("-"):
            self.eat(); a = self.un()
            if a[0] == "lit": return ("T", "(- %s)" % num_lit(a[1], "T"))
            self.need(a, "T")
            return ("T", "(- %s)" % a[1])
        return self.atom()

    def args(self, n):
        self.eat("(")
        out = []
        for k in range(n):
            out.append(self.expr())
            if k + 1 < n: self.eat(",")
        self.eat(")")
        return out

    def atom(self):
        k, v = self.peek()
        if k == "num":
            self.eat(); return ("lit", v)
        if k == "op" and v == "(":
            self.eat(); e = self.expr(); self.eat(")"); return e
        if k != "id":
            raise OutOfGrammar("%s: unexpected token %r" % (self.what, v))
        self.eat()
        if v in ("std::fmax", "std::fmin", "std::max", "std::min"):
            a, b = self.args(2); ty, x, y = self.unify(a, b)
            if ty != "T": raise OutOfGrammar("%s: %s on %s" % (self.what, v, ty))
            return ("T", "(%s %s %s)" % ({"std::fmax": "nfmax", "std::fmin": "nfmin", "std::max": "cmax", "std::min": "cmin"}[v], x, y))
        if v == "std::abs":
            (a,) = self.args(1); self.need(a, "T"); return ("T", "(nabs %s)" % a[1])
        if v == "std::clamp":
            a, b, c = self.args(3)
            for e in (a, b, c): self.need(e, "T")
            return ("T", "(clamp %s %s %s)" % (a[1], b[1], c[1]))
        if v == "real_t":
            (a,) = self.args(1)
            return ("T", self.lit(a, "T")) if a[0] in ("lit", "T") else self._bad("real_t(%s)" % a[1])
        if v == "norm_inf":
            (a,) = self.args(1); self.need(a, "vec"); return ("T", "(vnorminf %s)" % a[1])
        if v == "decltype" and self.at("("):
            self.args(1); self.eat("{"); z = self.eat(); self.eat("}")
            return ("Z", num_lit(z, "Z"))
        if v.startswith("SolverStatus::") and v[14:] in STATUSES:
            return ("status", v[14:])
        if v.startswith("params."):
            f = v[7:]
            if f == "max_time": return self.env.get("params.max_time") or self._bad(v)
            if f in PARAM_FIELDS: return (PARAM_FIELDS[f][0], "(%s P)" % PARAM_FIELDS[f][1])
            return self._bad(v)
        for suffix, (ty, fn) in ((".squaredNorm", ("T", "vsqnorm")), ("->allFinite", ("bool", "vall_finite")), ("->norm", ("T", "vnorm2")),
                                 (".norm", ("T", "vnorm2"))):
            if v.endswith(suffix) and v[:-len(suffix)] in self.env and self.env[v[:-len(suffix)]][0] == "vec":
                self.eat("("); self.eat(")")
                return (ty, "(%s %s)" % (fn, self.env[v[:-len(suffix)]][1]))
        if (v + "()") in self.env and self.at("(") and self.peek(1) == ("op", ")"):
            self.eat("("); self.eat(")")            # nullary member call bound by the caller (stop_signal.stop_requested())
            return self.env[v + "()"]
        if v in self.vecs and self.at("("):
            self.eat("("); ik, iv = self.peek(); self.eat(); self.eat(")")
            if iv not in self.vecs[v]: self._bad("%s(%s)" % (v, iv))
            return self.vecs[v][iv]
        if v in self.env:
            return self.env[v]
        return self._bad(v)

    def _bad(self, v):
        raise OutOfGrammar("%s: unknown identifier / form %r" % (self.what, v))

    # -- statements (AST as tuples)
    def block(self):
        if self.at("{"):
            self.eat(); out = []
            while not self.at("}"):
                out.append(self.stmt())
            self.eat("}")
            return out
        return [self.stmt()]

    def stmt(self):
        k, v = self.peek()
        if v == "if":
            self.eat(); self.eat("("); c = self.expr(); self.eat(")"); self.need(c, "bool")
            th = self.block(); el = None
            if self.at("else"):
                self.eat(); el = self.block()
            return ("if", c[1], th, el)
        if v == "return":
            self.eat(); self.eat(";"); return ("return",)
        if v == "for":
            a = self.i
            self.eat(); self.eat("(")
            while not self.at(")") or self.peek(1) != ("op", "{"):
                self.eat()
            hdr = self.text(a + 2, self.i); self.eat(")")
            if hdr != "index_t i = 0 ; i < e.rows ( ) ; ++ i":
                raise OutOfGrammar("%s: for header %r" % (self.what, hdr))
            return ("for", self.block())
        if v == "const": self.eat(); k, v = self.peek()
        if v == "real_t" and self.peek(1)[0] == "id" and self.peek(2) == ("op", "="):
            self.eat(); name = self.eat(); self.eat("=")
            e = self.expr(); self.eat(";")
            e = (("T", self.lit(e, "T")) if e[0] == "lit" else e); self.need(e, "T")
            self.env[name] = ("T", name_g(name))
            return ("let", name_g(name), e[1])
        if k == "id" and v.endswith(".setConstant"):
            self.eat(); (e,) = self.args(1); self.eat(";"); self.need(e, "T")
            return ("setConstant", v[:-12], e[1])
        if k == "id" and v in self.vecs and self.peek(1) == ("op", "(") and self.peek(3) == ("op", ")") and self.peek(4) == ("op", "="):
            self.eat(); self.eat("("); idx = self.eat(); self.eat(")"); self.eat("=")
            e = self.expr(); self.eat(";"); self.need(e, "T")
            return ("assign_comp", v, idx, e[1])
        if k == "id" and v in self.env and self.env[v][0] == "T" and self.peek(1) == ("op", "="):
            self.eat(); self.eat("="); e = self.expr(); self.eat(";"); self.need(e, "T")
            return ("let", self.env[v][1], e[1])       # re-assignment of a scalar local = shadowing let
        raise OutOfGrammar("%s: statement starting at %r" % (self.what, self.text(self.i, self.i + 8)))


def name_g(cname):
    return {"θ": "θ", "σ": "σ", "new_Σ": "new_Σ"}.get(cname, re.sub(r"\W", "_", cname))


def strip_comments(src):
    src = re.sub(r"/\*.*?\*/", " ", src, flags=re.S)
    return re.sub(r"//[^\n]*", " ", src)


def flat(s):
    return " ".join(s.split())


def one(pattern, src, what):
    m = re.findall(pattern, src, flags=re.S)
    if len(m) != 1:
        raise OutOfGrammar("%s: expected exactly one match, found %d" % (what, len(m)))
    return m[0]


def body_after(src, start_pat, what):
    m = re.search(start_pat, src, flags=re.S)
    if not m:
        raise OutOfGrammar("%s: not found" % what)
    j = src.find("{", m.end() - 1)
    depth = 0
    for p in range(j, len(src)):
        if src[p] == "{": depth += 1
        elif src[p] == "}":
            depth -= 1
            if depth == 0:
                return src[j + 1:p], p + 1
    raise OutOfGrammar("%s: unbalanced braces" % what)


def lets(stmts, what):
    """a straight-line list of lets ending in exactly one non-let statement -> (prefix of 'let x := e in', last stmt)"""
    pre = ""
    for s in stmts[:-1]:
        if s[0] != "let":
            raise OutOfGrammar("%s: only local definitions may precede the update, found %r" % (what, s[0]))
        pre += "let %s := %s in " % (s[1], s[2])
    if not stmts:
        raise OutOfGrammar("%s: empty block" % what)
    return pre, stmts[-1]


# ----------------------------------------------------------------------------- G4

def gen_helpers(repo, D):
    src = strip_comments(open(os.path.join(repo, HELPERS), encoding="utf-8").read())
    # ---- update_penalty_weights
    body, _ = body_after(src, r"static\s+void\s+update_penalty_weights\s*\(\s*const\s+ALMParams<config_t>\s*&params\s*,\s*real_t\s+Δ\s*,\s*bool\s+first_iter\s*,"
                              r"\s*rvec\s+e\s*,\s*rvec\s+old_e\s*,\s*real_t\s+norm_e\s*,\s*real_t\s+old_norm_e\s*,\s*rvec\s+Σ\s*\)\s*\{", "update_penalty_weights signature")
    env = {"Δ": ("T", "Δ"), "first_iter": ("bool", "first"), "norm_e": ("T", "norm_e"), "old_norm_e": ("T", "old_norm")}
    vecs = {"Σ": {"0": ("T", "σ0"), "i": ("T", "σ")}, "e": {"i": ("T", "e")}, "old_e": {"i": ("T", "olde")}}
    p = P(tokenize(body), env, vecs, "update_penalty_weights")
    stmts = []
    while p.peek()[0] is not None:
        stmts.append(p.stmt())
    # shape: let* ; if (skip) {return;} ; if (single) { if (c1) { let*; Σ.setConstant(e1) } } else { for { if (c2) { let*; Σ(i) = e2 } } }
    pre = ""
    k = 0
    while k < len(stmts) and stmts[k][0] == "let":
        pre += "let %s := %s in " % (stmts[k][1], stmts[k][2]); k += 1
    rest = stmts[k:]
    if len(rest) != 2 or rest[0][0] != "if" or rest[0][2] != [("return",)] or rest[0][3] is not None:
        raise OutOfGrammar("update_penalty_weights: expected `if (<skip>) { return; }` followed by one if/else, got %r" % [s[0] for s in rest])
    skip = rest[0][1]
    if rest[1][0] != "if" or rest[1][3] is None:
        raise OutOfGrammar("update_penalty_weights: expected if (single) {...} else {...}")
    single, th, el = rest[1][1], rest[1][2], rest[1][3]
    def guarded(stmts_, what):
        """let* ; if (c) { let* ; <update> }   ->  (lets before the guard, guard, lets inside, update statement)"""
        pre_, k_ = "", 0
        while k_ < len(stmts_) and stmts_[k_][0] == "let":
            pre_ += "let %s := %s in " % (stmts_[k_][1], stmts_[k_][2]); k_ += 1
        if len(stmts_) != k_ + 1 or stmts_[k_][0] != "if" or stmts_[k_][3] is not None:
            raise OutOfGrammar("update_penalty_weights: %s is not `[locals;] if (c) { [locals;] update }`" % what)
        pin, last = lets(stmts_[k_][2], what)
        return pre_, stmts_[k_][1], pin, last
    pa1, c1, pre1, last1 = guarded(th, "single-factor branch")
    if last1[0] != "setConstant" or last1[1] != "Σ":
        raise OutOfGrammar("update_penalty_weights: single-factor branch does not end in Σ.setConstant(...)")
    if len(el) != 1 or el[0][0] != "for":
        raise OutOfGrammar("update_penalty_weights: per-component branch is not a for loop over the components")
    pa2, c2, pre2, last2 = guarded(el[0][1], "per-component loop body")
    if last2[0] != "assign_comp" or last2[1] != "Σ" or last2[2] != "i":
        raise OutOfGrammar("update_penalty_weights: per-component branch does not end in Σ(i) = ...")
    c1, pre1 = pa1 + c1, pa1 + pre1
    c2, pre2 = pa2 + c2, pa2 + pre2
    hdr = "(P : alm_params (T:=T)) (Δ : T) (first : bool)"
    D.append(("g_upw_skip", "%s (norm_e old_norm : T) : bool" % hdr, pre + skip, "if (<this>) return;"))
    D.append(("g_upw_single", "%s (norm_e old_norm : T) : bool" % hdr, pre + single, "if (<this>) single-factor branch else per-component loop"))
    D.append(("g_single_cond", "%s (norm_e old_norm σ0 : T) : bool" % hdr, pre + c1, "guard of the single-factor update"))
    D.append(("g_single_new", "%s (norm_e old_norm σ0 : T) : T" % hdr, pre + pre1 + last1[2], "Σ.setConstant(<this>)"))
    D.append(("g_comp_cond", "%s (norm_e old_norm e olde σ : T) : bool" % hdr, pre + c2, "guard of the update of component i"))
    D.append(("g_comp_new", "%s (norm_e old_norm e olde σ : T) : T" % hdr, pre + pre2 + last2[3], "Σ(i) = <this>"))
    D.append(("g_update_penalty_weights", "%s (e olde : list T) (norm_e old_norm : T) (Σ : list T) : list T" % hdr,
              "if g_upw_skip P Δ first norm_e old_norm then Σ\n    else if g_upw_single P Δ first norm_e old_norm then\n"
              "      match Σ with [] => [] | σ0 :: _ => if g_single_cond P Δ first norm_e old_norm σ0\n"
              "        then map (fun _ => g_single_new P Δ first norm_e old_norm σ0) Σ else Σ end\n"
              "    else map3 (fun e olde σ => if g_comp_cond P Δ first norm_e old_norm e olde σ\n"
              "        then g_comp_new P Δ first norm_e old_norm e olde σ else σ) e olde Σ",
              "statement skeleton of update_penalty_weights (shape checked by the translator)"))
    # ---- initialize_penalty (TypeErasedProblem overload)
    body, _ = body_after(src, r"static\s+void\s+initialize_penalty\s*\(\s*const\s+TypeErasedProblem<config_t>\s*&p\s*,\s*const\s+ALMParams<config_t>\s*&params\s*,"
                              r"\s*crvec\s+x0\s*,\s*rvec\s+Σ\s*\)\s*\{", "initialize_penalty signature")
    m = re.match(r"\s*real_t\s+f0\s*=\s*p\.eval_f\(x0\);\s*vec\s+g0\(p\.get_m\(\)\);\s*p\.eval_g\(x0,\s*g0\);(.*)$", body, flags=re.S)
    if not m:
        raise OutOfGrammar("initialize_penalty: does not start with f0 = eval_f(x0); g0 = eval_g(x0): %r" % flat(body)[:120])
    p = P(tokenize(m.group(1)), {"f0": ("T", "f0"), "g0": ("vec", "g0")}, {}, "initialize_penalty")
    stmts = []
    while p.peek()[0] is not None:
        stmts.append(p.stmt())
    pre, last = lets(stmts, "initialize_penalty")
    if last[0] != "setConstant" or last[1] != "Σ":
        raise OutOfGrammar("initialize_penalty: does not end in Σ.setConstant(...)")
    D.append(("g_initial_sigma_auto", "(P : alm_params (T:=T)) (f0 : T) (g0 : list T) : T", pre + last[2], "initialize_penalty: Σ.setConstant(<this>)"))


def accounted(text, forms, what):
    try:
        return strict.account(strict.split_statements(text), forms, what)
    except strict.Unaccounted as ex:
        raise OutOfGrammar(str(ex))


K = strict.lit          # a statement the translator knows and does not translate: it must be there, exactly like this, in this place


PRINT_BLOCK = r'''const char *color = inner_converged ? "\x1b[0;32m" : "\x1b[0;31m"; const char *color_end = "\x1b[0m";
 *os << "[\x1b[0;34mALM\x1b[0m]   " << std::setw(5) << i << ": ‖Σ‖ = " << print_real(Σ_curr.norm()) << ", ‖y‖ = " << print_real(y.norm())
 << ", δ = " << print_real(norm_e) << ", ε = " << print_real(ps.ε) << ", status = " << color << std::setw(13) << ps.status << color_end
 << ", iter = " << std::setw(13) << ps.iterations << std::endl;'''


def account_loop(loop):
    """consume-everything: the body of the outer loop is exactly this statement sequence (the translated expressions are `.*`
    here and are parsed by gen_alm; everything else is fixed text).  Returns the matches."""
    result_block = [("s.ε", K("s.ε = ps.ε;"), "1"), ("s.δ", K("s.δ = norm_e;"), "1"),
                    ("s.norm_penalty", K("s.norm_penalty = Σ_curr.norm() / std::sqrt(real_t(m));"), "1"),
                    ("s.outer_iterations", K("s.outer_iterations = i + 1;"), "1"),
                    ("s.elapsed_time", K("s.elapsed_time = duration_cast<nanoseconds>(time_elapsed);"), "1"),
                    ("s.status", r"s\.status\s*=\s*[^;]+;", "1"), ("hand back Σ", K("if (Σ) *Σ = Σ_curr;"), "1"), ("return", K("return s;"), "1")]
    r = accounted(loop, [
        ("eval_proj_multipliers", r"p\.eval_proj_multipliers\(\s*y\s*,[^;]*\);", "1"),
        ("out_of_iter", r"bool\s+out_of_iter\s*=[^;]+;", "1"),
        ("time_elapsed", K("auto time_elapsed = std::chrono::steady_clock::now() - start_time;"), "1"),
        ("time_remaining", r"auto\s+time_remaining\s*=[^;]+;", "1"),
        ("opts", r"InnerSolveOptions<config_t>\s+opts\s*\{.*\};", "1"),
        ("inner solve", K("auto ps = inner_solver(p, opts, x, y, Σ_curr, error);"), "1"),
        ("inner_converged", r"bool\s+inner_converged\s*=[^;]+;", "1"),
        ("failure counter", r"s\.inner_convergence_failures\s*\+=[^;]+;", "1"),
        ("s.inner += ps", K("s.inner += ps;"), "1"),
        ("using norm_inf", K("using vec_util::norm_inf;"), "1"),
        ("norm_e", r"norm_e\s*=[^;=][^;]*;", "1"),
        ("time_elapsed update", K("time_elapsed = std::chrono::steady_clock::now() - start_time;"), "1"),
        ("out_of_time", r"bool\s+out_of_time\s*=[^;]+;", "1"),
        ("print block", r"if\s*\(\s*" + K("params.print_interval != 0 && i % params.print_interval == 0") + r"\s*\)\s*\{.*\}", "1"),
        ("Interrupted block", r"if\s*\([^{}]*\)\s*\{.*\}", "1"),
        ("alm_converged", r"bool\s+alm_converged\s*=[^;]+;", "1"),
        ("interrupted", r"bool\s+interrupted\s*=[^;]+;", "1"),
        ("exit", r"bool\s+exit\s*=[^;]+;", "1"),
        ("exit block", r"if\s*\(\s*exit\s*\)\s*\{.*\}", "1"),
        ("update_penalty_weights", r"Helpers::update_penalty_weights\([^;]*\);", "1"),
        ("ε update", r"ε\s*=[^;=][^;]*;", "1"),
        ("norm_e_old", K("norm_e_old = norm_e;"), "1"),
        ("error swap", K("error.swap(error_old);"), "1"),
    ], "outer loop of ALMSolver::operator()")
    try:
        # printing only (two local string constants and one output statement): not translated, its text is known
        pb = strict.control(r["print block"].group(0), "if")
        if pb[2] is not None or "".join(pb[1].split()) != "".join(PRINT_BLOCK.split()):
            raise OutOfGrammar("print block of the outer loop differs from the known text")
        for blk in ("Interrupted block", "exit block"):
            c = strict.control(r[blk].group(0), "if")
            if c[2] is not None:
                raise OutOfGrammar("%s has an else branch" % blk)
            accounted(c[1], result_block, blk)
    except strict.Unaccounted as ex:
        raise OutOfGrammar(str(ex))
    return r


def gen_alm(repo, D, Z, tables):
    src = strip_comments(open(os.path.join(repo, ALM), encoding="utf-8").read())
    i0 = src.find("constexpr auto NaN")
    if i0 < 0:
        raise OutOfGrammar("alm.tpp: start of the general-constraints part (constexpr auto NaN) not found")
    m0, main = src[:i0], src[i0:]

    def ex(text, env, what, ty=None, vecs=None):
        p = P(tokenize(text), env, vecs or {}, what)
        e = p.expr()
        if p.peek()[0] is not None:
            raise OutOfGrammar("%s: trailing tokens in %r" % (what, text))
        if e[0] == "lit": e = (ty or "T", num_lit(e[1], ty or "T"))
        if ty and e[0] != ty:
            raise OutOfGrammar("%s: expected %s, got %s in %r" % (what, ty, e[0], text))
        return e[1]
    # ---- initial penalties
    m = one(r"if\s*\(([^{}]*?)\)\s*\{\s*Σ_curr\s*=\s*\*Σ;\s*\}\s*else\s+if\s*\(([^{}]*?)\)\s*\{\s*Σ_curr\.setConstant\(([^;]*)\);\s*\}\s*else\s*\{\s*"
            r"Helpers::initialize_penalty\(p,\s*params,\s*x,\s*Σ_curr\);\s*\}", main, "initial penalty selection (if / else if / else)")
    c = flat(m[0])
    if not c.startswith("Σ &&"):
        raise OutOfGrammar("initial penalty selection: condition does not start with `Σ &&`: %r" % c)
    D.append(("g_sigma_accepted", "(s : list T) : bool", ex(c[4:], {"Σ": ("vec", "s")}, "caller Σ acceptance", "bool"), "Σ && <this> (Σ = the caller's vector)"))
    D.append(("g_use_initial_penalty", "(P : alm_params (T:=T)) : bool", ex(flat(m[1]), {}, "else-if of the penalty selection", "bool"), "else if (<this>)"))
    D.append(("g_initial_penalty_value", "(P : alm_params (T:=T)) : T", ex(flat(m[2]), {}, "Σ_curr.setConstant", "T"), "Σ_curr.setConstant(<this>)"))
    D.append(("g_initial_sigma", "(P : alm_params (T:=T)) (m : nat) (f0 : T) (g0 : list T) (Σ0 : option (list T)) : list T",
              "let fallback := if g_use_initial_penalty P then vconst m (g_initial_penalty_value P) else vconst m (g_initial_sigma_auto P f0 g0) in\n"
              "    match Σ0 with Some s => if g_sigma_accepted s then s else fallback | None => fallback end",
              "if (Σ && accepted) Σ_curr = *Σ; else if (...) setConstant(...); else initialize_penalty(...)"))
    # ---- tolerance
    D.append(("g_initial_tol", "(P : alm_params (T:=T)) : T", ex(flat(one(r"real_t\s+ε\s*=\s*([^;]+);", main, "initial ε")), {}, "initial ε", "T"), "real_t ε = <this>;"))
    D.append(("g_next_tol", "(P : alm_params (T:=T)) (ε : T) : T", ex(flat(one(r"[;}]\s*ε\s*=\s*([^;]+);", main, "ε update")), {"ε": ("T", "ε")}, "ε update", "T"), "ε = <this>;"))
    # ---- loop head
    loop, _ = body_after(main, r"for\s*\(\s*unsigned\s+i\s*=\s*0\s*;\s*i\s*<\s*params\.max_iter\s*;\s*\+\+i\s*\)\s*\{", "outer loop header for (unsigned i = 0; i < params.max_iter; ++i)")
    account_loop(loop)
    mm = re.match(r"\s*p\.eval_proj_multipliers\(\s*y\s*,\s*([^;]*)\);", loop)
    if not mm:
        raise OutOfGrammar("outer loop does not start with p.eval_proj_multipliers(y, ...): %r" % flat(loop)[:80])
    D.append(("g_proj_bound", "(P : alm_params (T:=T)) : T", ex(flat(mm.group(1)), {}, "eval_proj_multipliers bound", "T"), "p.eval_proj_multipliers(y, <this>) — first statement of the loop"))
    nat_env = {"i": ("nat", "i")}
    D.append(("g_out_of_iter", "(P : alm_params (T:=T)) (i : nat) : bool", ex(flat(one(r"bool\s+out_of_iter\s*=\s*([^;]+);", loop, "out_of_iter")), nat_env, "out_of_iter", "bool"), "bool out_of_iter = <this>;"))
    zenv = {"time_elapsed": ("Z", "time_elapsed"), "params.max_time": ("Z", "max_time")}
    Z.append(("g_time_remaining", "(time_elapsed max_time : Z) : Z", ex(flat(one(r"auto\s+time_remaining\s*=\s*([^;]+);", loop, "time_remaining")), zenv, "time_remaining", "Z"), "auto time_remaining = <this>;"))
    Z.append(("g_out_of_time", "(time_elapsed max_time : Z) : bool", ex(flat(one(r"bool\s+out_of_time\s*=\s*([^;]+);", loop, "out_of_time")), zenv, "out_of_time", "bool"), "bool out_of_time = <this>;"))
    # ---- after the inner solve
    st_env = {"ps.status": ("status", "st")}
    D.append(("g_inner_converged", "(st : status) : bool", ex(flat(one(r"bool\s+inner_converged\s*=\s*([^;]+);", loop, "inner_converged")), st_env, "inner_converged", "bool"), "bool inner_converged = <this>;"))
    inc = flat(one(r"s\.inner_convergence_failures\s*\+=\s*([^;]+);", loop, "failure counter"))
    D.append(("g_failure_increment", "(inner_converged : bool) : nat", "Nat.b2n " + ex(inc, {"inner_converged": ("bool", "inner_converged")}, "failure counter", "bool"), "s.inner_convergence_failures += <this>;"))
    one(r"s\.inner\s*\+=\s*ps\s*;", loop, "s.inner += ps")
    D.append(("g_norm_e", "(error : list T) : T", ex(flat(one(r"[;}]\s*norm_e\s*=\s*([^;]+);", loop, "norm_e")), {"error": ("vec", "error")}, "norm_e", "T"), "norm_e = <this>;"))
    ib = re.search(r"if\s*\(([^{}]*?)\)\s*\{([^{}]*?s\.status\s*=\s*ps\.status;[^{}]*?return\s+s;\s*)\}", loop, flags=re.S)
    if not ib:
        raise OutOfGrammar("Interrupted block `if (...) { ... s.status = ps.status; ... return s; }` not found")
    D.append(("g_is_interrupted", "(st : status) : bool", ex(flat(ib.group(1)), st_env, "Interrupted test", "bool"), "if (<this>) { ...; s.status = ps.status; if (Σ) *Σ = Σ_curr; return s; }"))
    if not re.search(r"if\s*\(Σ\)\s*\*Σ\s*=\s*Σ_curr;", ib.group(2)):
        raise OutOfGrammar("Interrupted block does not hand back Σ_curr")
    cm = re.search(r"bool\s+alm_converged\s*=\s*([^;]+);", loop)
    if not cm:
        raise OutOfGrammar("alm_converged not found")
    if cm.start() < ib.start():
        raise OutOfGrammar("the termination test precedes the Interrupted test")
    benv = {"ps.ε": ("T", "eps"), "inner_converged": ("bool", "inner_converged"), "norm_e": ("T", "norm_e")}
    D.append(("g_alm_converged", "(P : alm_params (T:=T)) (eps : T) (inner_converged : bool) (norm_e : T) : bool", ex(flat(cm.group(1)), benv, "alm_converged", "bool"), "bool alm_converged = <this>;"))
    # ---- ALM's own stop flag: read once per outer iteration, after the inner solve and after the Interrupted-inner return
    sm = [m_ for m_ in re.finditer(r"bool\s+interrupted\s*=\s*([^;]+);", loop)]
    if len(sm) != 1:
        raise OutOfGrammar("read of ALM's stop flag `bool interrupted = stop_signal.stop_requested();`: expected exactly one, found %d "
                           "(the outer loop does not look at a stop flag of its own)" % len(sm))
    sm = sm[0]
    calls = [m_.start() for m_ in re.finditer(r"auto\s+ps\s*=\s*inner_solver\s*\(", loop)]
    if len(calls) != 1:
        raise OutOfGrammar("call of the inner solver `auto ps = inner_solver(...)` in the loop: expected exactly one, found %d" % len(calls))
    xm = re.search(r"bool\s+exit\s*=", loop)
    if not xm:
        raise OutOfGrammar("`bool exit = ...` not found")
    if sm.start() < calls[0]:
        raise OutOfGrammar("ALM's stop flag is read BEFORE the inner solve (a request landing during the solve is seen one outer iteration late)")
    if sm.start() < ib.end():
        raise OutOfGrammar("ALM's stop flag is read before the Interrupted-inner return")
    if sm.start() > xm.start():
        raise OutOfGrammar("ALM's stop flag is read after the exit test")
    if cm.start() > xm.start():
        raise OutOfGrammar("the termination test follows the exit test")
    D.append(("g_interrupted", "(stop_flag : bool) : bool", ex(flat(sm.group(1)), {"stop_signal.stop_requested()": ("bool", "stop_flag")}, "read of ALM's stop flag", "bool"),
              "bool interrupted = <this>;   (stop_flag = the value of stop_signal's atomic flag at that moment; after the inner solve and the Interrupted-inner return)"))
    xenv = {k: ("bool", k) for k in ("alm_converged", "out_of_iter", "out_of_time", "interrupted")}
    D.append(("g_exit", "(alm_converged out_of_iter out_of_time interrupted : bool) : bool", ex(flat(one(r"bool\s+exit\s*=\s*([^;]+);", loop, "exit")), xenv, "exit", "bool"), "bool exit = <this>;"))
    eb = re.search(r"if\s*\(\s*exit\s*\)\s*\{(.*?return\s+s;\s*)\}", loop, flags=re.S)
    if not eb:
        raise OutOfGrammar("`if (exit) { ... return s; }` not found")
    if not re.search(r"if\s*\(Σ\)\s*\*Σ\s*=\s*Σ_curr;", eb.group(1)):
        raise OutOfGrammar("exit block does not hand back Σ_curr")
    if eb.start() < xm.start():
        raise OutOfGrammar("`if (exit)` precedes `bool exit = ...`")
    D.append(("g_exit_status", "(alm_converged out_of_time out_of_iter interrupted : bool) : status", ex(flat(one(r"s\.status\s*=\s*([^;]+);", eb.group(1), "status selection")), xenv, "status selection", "status"), "s.status = <this>;"))
    for fld, val, nm in (("ε", "ps.ε", "eps"), ("δ", "norm_e", "delta"), ("outer_iterations", "i + 1", "outer")):
        for blk, bn in ((ib.group(2), "Interrupted"), (eb.group(1), "exit")):
            got = flat(one(r"s\.%s\s*=\s*([^;]+);" % fld, blk, "s.%s in the %s block" % (fld, bn)))
            if got != val:
                raise OutOfGrammar("s.%s = %s in the %s block (expected %s)" % (fld, got, bn, val))
    # ---- call of update_penalty_weights
    args = flat(one(r"Helpers::update_penalty_weights\(([^;]*)\);", loop, "call of update_penalty_weights"))
    parts = [a.strip() for a in args.split(",")]
    if len(parts) != 8 or parts[0] != "params":
        raise OutOfGrammar("call of update_penalty_weights: %r" % args)
    cenv = {"i": ("nat", "i"), "norm_e": ("T", "norm_e"), "norm_e_old": ("T", "norm_e_old"),
            "error": ("vec", "error"), "error_old": ("vec", "error_old"), "Σ_curr": ("vec", "Σ_curr")}
    a = [ex(parts[1], cenv, "Δ argument", "T"), ex(parts[2], cenv, "first_iter argument", "bool"), ex(parts[3], cenv, "e argument", "vec"),
         ex(parts[4], cenv, "old_e argument", "vec"), ex(parts[5], cenv, "norm_e argument", "T"), ex(parts[6], cenv, "old_norm_e argument", "T"),
         ex(parts[7], cenv, "Σ argument", "vec")]
    D.append(("g_call_update_penalty_weights", "(P : alm_params (T:=T)) (i : nat) (error error_old : list T) (norm_e norm_e_old : T) (Σ_curr : list T) : list T",
              "g_update_penalty_weights P %s" % " ".join(a), "Helpers::update_penalty_weights(<these>);"))
    if cm.start() > loop.find("Helpers::update_penalty_weights"):
        raise OutOfGrammar("penalty update precedes the termination test")
    one(r"norm_e_old\s*=\s*norm_e\s*;", loop, "norm_e_old = norm_e")
    # ---- InnerSolveOptions initialisers
    for name, region in (("loop", loop), ("m0", m0)):
        ob = one(r"InnerSolveOptions<config_t>\s+opts\s*\{(.*?)\};", region, "InnerSolveOptions initialiser (%s)" % name)
        ents = re.findall(r"\.(\w+)\s*=\s*([^,]+),", ob)
        if not ents or flat(re.sub(r"\.(\w+)\s*=\s*([^,]+),", "", ob)) != "":
            raise OutOfGrammar("InnerSolveOptions initialiser (%s): %r" % (name, flat(ob)))
        tables["g_opts_" + name] = [(k, flat(v)) for k, v in ents]
    # ---- ALMSolver::stop() (outer/alm.hpp): the statements of its body, as written
    hsrc = strip_comments(open(os.path.join(repo, ALM_HPP), encoding="utf-8").read())
    sb = re.findall(r"void\s+stop\s*\(\s*\)\s*\{([^{}]*)\}", hsrc)
    if len(sb) != 1:
        raise OutOfGrammar("alm.hpp: expected exactly one `void stop() { ... }`, found %d" % len(sb))
    stmts = [flat(x).replace(" ", "") for x in sb[0].split(";") if flat(x)]
    for st in stmts:
        if not re.fullmatch(r"[\w.]+\(\)", st):
            raise OutOfGrammar("alm.hpp: statement %r of ALMSolver::stop() is not a nullary call" % st)
    tables["g_stop_body"] = [(st, "") for st in stmts]


REF_D = [  # REFERENCE kernels = the hand model; used ONLY when the source has left the grammar (recorded in the evidence)
    ("g_upw_skip", "(P : alm_params (T:=T)) (Δ : T) (first : bool) (norm_e old_norm : T) : bool", "(norm_e <=? (p_dual_tol P))", "(reference)"),
    ("g_upw_single", "(P : alm_params (T:=T)) (Δ : T) (first : bool) (norm_e old_norm : T) : bool", "(p_single P)", "(reference)"),
    ("g_single_cond", "(P : alm_params (T:=T)) (Δ : T) (first : bool) (norm_e old_norm σ0 : T) : bool", "(first || ((p_theta P * old_norm) <? norm_e))", "(reference)"),
    ("g_single_new", "(P : alm_params (T:=T)) (Δ : T) (first : bool) (norm_e old_norm σ0 : T) : T", "(nfmax σ0 (nfmin (p_max_pen P) (Δ * σ0)))", "(reference)"),
    ("g_comp_cond", "(P : alm_params (T:=T)) (Δ : T) (first : bool) (norm_e old_norm e olde σ : T) : bool", "(first || ((p_theta P * nabs olde) <? nabs e))", "(reference)"),
    ("g_comp_new", "(P : alm_params (T:=T)) (Δ : T) (first : bool) (norm_e old_norm e olde σ : T) : T",
     "(nfmax σ (nfmin (p_max_pen P) ((nfmax ((Δ * nabs e) / norm_e) n1) * σ)))", "(reference)"),
    ("g_update_penalty_weights", "(P : alm_params (T:=T)) (Δ : T) (first : bool) (e olde : list T) (norm_e old_norm : T) (Σ : list T) : list T",
     "update_penalty_weights P first e olde norm_e old_norm Σ", "(reference)"),
    ("g_initial_sigma_auto", "(P : alm_params (T:=T)) (f0 : T) (g0 : list T) : T", "initial_sigma_auto P f0 g0", "(reference)"),
    ("g_sigma_accepted", "(s : list T) : bool", "sigma_accepted s", "(reference)"),
    ("g_use_initial_penalty", "(P : alm_params (T:=T)) : bool", "(n0 <? p_init_pen P)", "(reference)"),
    ("g_initial_penalty_value", "(P : alm_params (T:=T)) : T", "(p_init_pen P)", "(reference)"),
    ("g_initial_sigma", "(P : alm_params (T:=T)) (m : nat) (f0 : T) (g0 : list T) (Σ0 : option (list T)) : list T", "initial_sigma P m f0 g0 Σ0", "(reference)"),
    ("g_initial_tol", "(P : alm_params (T:=T)) : T", "(p_init_tol P)", "(reference)"),
    ("g_next_tol", "(P : alm_params (T:=T)) (ε : T) : T", "(nfmax (p_rho P * ε) (p_tol P))", "(reference)"),
    ("g_proj_bound", "(P : alm_params (T:=T)) : T", "(p_M P)", "(reference)"),
    ("g_out_of_iter", "(P : alm_params (T:=T)) (i : nat) : bool", "(Nat.eqb (S i) (p_max_iter P))", "(reference)"),
    ("g_inner_converged", "(st : status) : bool", "(is_converged st)", "(reference)"),
    ("g_failure_increment", "(inner_converged : bool) : nat", "(if inner_converged then 0 else 1)%nat", "(reference)"),
    ("g_norm_e", "(error : list T) : T", "(vnorminf error)", "(reference)"),
    ("g_is_interrupted", "(st : status) : bool", "(is_interrupted st)", "(reference)"),
    ("g_alm_converged", "(P : alm_params (T:=T)) (eps : T) (inner_converged : bool) (norm_e : T) : bool",
     "(((eps <=? p_tol P) && inner_converged) && (norm_e <=? p_dual_tol P))", "(reference)"),
    ("g_interrupted", "(stop_flag : bool) : bool", "stop_flag", "(reference)"),
    ("g_exit", "(alm_converged out_of_iter out_of_time interrupted : bool) : bool", "(((alm_converged || out_of_iter) || out_of_time) || interrupted)", "(reference)"),
    ("g_exit_status", "(alm_converged out_of_time out_of_iter interrupted : bool) : status", "exit_status alm_converged out_of_time out_of_iter interrupted", "(reference)"),
    ("g_call_update_penalty_weights", "(P : alm_params (T:=T)) (i : nat) (error error_old : list T) (norm_e norm_e_old : T) (Σ_curr : list T) : list T",
     "update_penalty_weights P (Nat.eqb i 0) error error_old norm_e norm_e_old Σ_curr", "(reference)"),
]
REF_Z = [
    ("g_time_remaining", "(time_elapsed max_time : Z) : Z", "(if (Z.ltb time_elapsed max_time) then (max_time - time_elapsed)%Z else 0%Z)", "(reference)"),
    ("g_out_of_time", "(time_elapsed max_time : Z) : bool", "(Z.ltb max_time time_elapsed)", "(reference)"),
]
REF_TABLES = {
    "g_opts_loop": [("always_overwrite_results", "true"), ("max_time", "time_remaining"), ("tolerance", "ε"), ("os", "os"), ("outer_iter", "i"), ("check", "false")],
    "g_opts_m0": [("always_overwrite_results", "true"), ("max_time", "params.max_time"), ("tolerance", "params.tolerance"), ("os", "os"), ("check", "false")],
    "g_stop_body": [("stop_signal.stop()", ""), ("inner_solver.stop()", "")],
}


def cstr(s):
    return '"' + s.replace('"', '""') + '"'


def cmt(s):
    return s.replace("*)", "* )").replace("(*", "( *")


def render_alm(D, Z, tables, origin):
    L = ["(* AlmGen.v — GENERATED by translate/gen_C07_alm.py; do not edit.", "   origin: %s *)" % cmt(origin),
         "From Coq Require Import ZArith List Bool Arith String.", "From Alpaqa Require Import Num Vec Alm.", "Import ListNotations.", "",
         "Section AlmGen.", "  Context {T : Type} `{Num T}.", "  Local Open Scope num_scope.", ""]
    for name, sig, body, cpp in D:
        L += ["  (* C++: %s *)" % cmt(cpp), "  Definition %s %s :=\n    %s." % (name, sig, body), ""]
    L += ["End AlmGen.", ""]
    for name, sig, body, cpp in Z:
        L += ["(* C++: %s   (durations as integer nanosecond counts) *)" % cmt(cpp), "Definition %s %s :=\n  %s." % (name, sig, body), ""]
    L.append("Local Open Scope string_scope.")
    for name in sorted(tables):
        L += ["(* statements of ALMSolver::stop() (outer/alm.hpp), as written *)" if name == "g_stop_body" else
              "(* designated initialisers of InnerSolveOptions, as written *)",
              "Definition %s : list (string * string) :=\n  [%s]." % (name, "; ".join("(%s, %s)" % (cstr(k), cstr(v)) for k, v in tables[name])), ""]
    return "\n".join(L) + "\n"


# ----------------------------------------------------------------------------- G5

def gen_acc(repo):
    out = {}
    for key, rel, sname in ACC_FILES:
        src = strip_comments(open(os.path.join(repo, INC, rel), encoding="utf-8").read())
        body, _ = body_after(src, r"operator\+=\s*\(\s*InnerStatsAccumulator<%s<Conf>>\s*&acc\s*,\s*const\s+%s<Conf>\s*&s\s*\)\s*\{" % (sname, sname),
                             "operator+= of InnerStatsAccumulator<%s>" % sname)
        table = []
        stmts = [flat(x) for x in body.split(";") if flat(x)]
        if not stmts or stmts[-1] != "return acc":
            raise OutOfGrammar("%s accumulator: body does not end in `return acc;`" % key)
        for st in stmts[:-1]:
            m = re.fullmatch(r"acc\.(\w+) \+= s\.(\w+)", st)
            k = "Sum"
            if not m:
                m = re.fullmatch(r"acc\.(\w+) = s\.(\w+)", st); k = "Last"
            if not m:
                m = re.fullmatch(r"acc\.(\w+) = std::max\(acc\.(\w+), s\.(\w+)\)", st); k = "Max"
                if m and not (m.group(1) == m.group(2) == m.group(3)): m = None
            if not m or m.group(1) != m.group(m.lastindex):
                raise OutOfGrammar("%s accumulator: statement %r" % (key, st))
            table.append((m.group(1), k))
        sb, _ = body_after(src, r"struct\s+%s\s*\{" % sname, "struct %s" % sname)
        # consume-everything: every member declaration of the struct is a field of one of these forms (or the config macro)
        fields = []
        try:
            members = strict.split_statements(sb)
        except strict.Unaccounted as ex:
            raise OutOfGrammar("struct %s: %s" % (sname, ex))
        if not members or not re.fullmatch(strict.lit("USING_ALPAQA_CONFIG(Conf);"), members[0]):
            raise OutOfGrammar("struct %s does not start with USING_ALPAQA_CONFIG(Conf);" % sname)
        for st in members[1:]:
            m = re.fullmatch(r"(?:unsigned|real_t)\s+(\w+)\s*=\s*0\s*;|std::chrono::nanoseconds\s+(\w+)\s*\{\s*\}\s*;|"
                             r"SolverStatus\s+(\w+)\s*=\s*SolverStatus::Busy\s*;|real_t\s+(\w+)\s*=\s*inf<config_t>\s*;", st)
            if not m:
                raise OutOfGrammar("struct %s: member %r is not a counter / duration / status field with its usual initialiser" % (sname, st[:80]))
            fields.append([g for g in m.groups() if g][0])
        if not fields:
            raise OutOfGrammar("struct %s: no fields recognised" % sname)
        out[key] = (table, fields)
    return out


# REFERENCE tables (state of the source when the check was written); used ONLY when the source has left the grammar
REF_ACC = {'panoc': ([('iterations', 'Sum'), ('elapsed_time', 'Sum'), ('time_progress_callback', 'Sum'), ('linesearch_failures', 'Sum'), ('linesearch_backtracks', 'Sum'), ('stepsize_backtracks', 'Sum'), ('lbfgs_failures', 'Sum'), ('lbfgs_rejected', 'Sum'), ('τ_1_accepted', 'Sum'), ('count_τ', 'Sum'), ('sum_τ', 'Sum'), ('final_γ', 'Last'), ('final_ψ', 'Last'), ('final_h', 'Last'), ('final_φγ', 'Last')], ['status', 'ε', 'elapsed_time', 'time_progress_callback', 'iterations', 'linesearch_failures', 'linesearch_backtracks', 'stepsize_backtracks', 'lbfgs_failures', 'lbfgs_rejected', 'τ_1_accepted', 'count_τ', 'sum_τ', 'final_γ', 'final_ψ', 'final_h', 'final_φγ']), 'zerofpr': ([('iterations', 'Sum'), ('elapsed_time', 'Sum'), ('time_progress_callback', 'Sum'), ('linesearch_failures', 'Sum'), ('linesearch_backtracks', 'Sum'), ('stepsize_backtracks', 'Sum'), ('lbfgs_failures', 'Sum'), ('lbfgs_rejected', 'Sum'), ('τ_1_accepted', 'Sum'), ('count_τ', 'Sum'), ('sum_τ', 'Sum'), ('final_γ', 'Last'), ('final_ψ', 'Last'), ('final_h', 'Last'), ('final_φγ', 'Last')], ['status', 'ε', 'elapsed_time', 'time_progress_callback', 'iterations', 'linesearch_failures', 'linesearch_backtracks', 'stepsize_backtracks', 'lbfgs_failures', 'lbfgs_rejected', 'τ_1_accepted', 'count_τ', 'sum_τ', 'final_γ', 'final_ψ', 'final_h', 'final_φγ']), 'pantr': ([('elapsed_time', 'Sum'), ('time_progress_callback', 'Sum'), ('iterations', 'Sum'), ('accelerated_step_rejected', 'Sum'), ('stepsize_backtracks', 'Sum'), ('direction_failures', 'Sum'), ('direction_update_rejected', 'Sum'), ('final_γ', 'Last'), ('final_ψ', 'Last'), ('final_h', 'Last'), ('final_φγ', 'Last')], ['status', 'ε', 'elapsed_time', 'time_progress_callback', 'iterations', 'accelerated_step_rejected', 'stepsize_backtracks', 'direction_failures', 'direction_update_rejected', 'final_γ', 'final_ψ', 'final_h', 'final_φγ']), 'fista': ([('iterations', 'Sum'), ('elapsed_time', 'Sum'), ('time_progress_callback', 'Sum'), ('stepsize_backtracks', 'Sum'), ('final_γ', 'Last'), ('final_ψ', 'Last'), ('final_h', 'Last')], ['status', 'ε', 'elapsed_time', 'time_progress_callback', 'iterations', 'stepsize_backtracks', 'final_γ', 'final_ψ', 'final_h']), 'panococp': ([('iterations', 'Sum'), ('elapsed_time', 'Sum'), ('time_prox', 'Sum'), ('time_forward', 'Sum'), ('time_backward', 'Sum'), ('time_jacobians', 'Sum'), ('time_hessians', 'Sum'), ('time_indices', 'Sum'), ('time_lqr_factor', 'Sum'), ('time_lqr_solve', 'Sum'), ('time_lbfgs_indices', 'Sum'), ('time_lbfgs_apply', 'Sum'), ('time_lbfgs_update', 'Sum'), ('time_progress_callback', 'Sum'), ('linesearch_failures', 'Sum'), ('linesearch_backtracks', 'Sum'), ('stepsize_backtracks', 'Sum'), ('lbfgs_failures', 'Sum'), ('lbfgs_rejected', 'Sum'), ('τ_1_accepted', 'Sum'), ('count_τ', 'Sum'), ('sum_τ', 'Sum'), ('final_γ', 'Last'), ('final_ψ', 'Last'), ('final_h', 'Last'), ('final_φγ', 'Last')], ['status', 'ε', 'elapsed_time', 'time_prox', 'time_forward', 'time_backward', 'time_jacobians', 'time_hessians', 'time_indices', 'time_lqr_factor', 'time_lqr_solve', 'time_lbfgs_indices', 'time_lbfgs_apply', 'time_lbfgs_update', 'time_progress_callback', 'iterations', 'linesearch_failures', 'linesearch_backtracks', 'stepsize_backtracks', 'lbfgs_failures', 'lbfgs_rejected', 'τ_1_accepted', 'count_τ', 'sum_τ', 'final_γ', 'final_ψ', 'final_h', 'final_φγ'])}


def render_acc(acc, origin):
    L = ["(* StatsAcc.v — GENERATED by translate/gen_C07_alm.py (G5); do not edit.", "   origin: %s *)" % cmt(origin),
         "From Coq Require Import List String.", "Import ListNotations.", "Local Open Scope string_scope.", "",
         "Inductive acc_kind := Sum | Last | Max.", ""]
    for key, _, sname in ACC_FILES:
        table, fields = acc.get(key, ([], []))
        L += ["(* operator+=(InnerStatsAccumulator<%s>&, const %s&) *)" % (sname, sname),
              "Definition acc_%s : list (string * acc_kind) :=\n  [%s]." % (key, "; ".join("(%s, %s)" % (cstr(f), k) for f, k in table)),
              "Definition stats_fields_%s : list string :=\n  [%s]." % (key, "; ".join(cstr(f) for f in fields)), ""]
    L += ["Definition acc_all : list (string * list (string * acc_kind) * list string) :=\n  [%s]." %
          "; ".join("(%s, acc_%s, stats_fields_%s)" % (cstr(k), k, k) for k, _, _ in ACC_FILES), ""]
    return "\n".join(L) + "\n"


# ----------------------------------------------------------------------------- driver

def _write(path, txt):
    os.makedirs(os.path.dirname(path), exist_ok=True)
    old = open(path, encoding="utf-8").read() if os.path.exists(path) else None
    if old != txt:
        open(path, "w", encoding="utf-8").write(txt)


def write(repo=None, outdir=None):
    """returns {'AlmGen.v': status, 'StatsAcc.v': status, 'detail': {...}, 'kernels': {name: gallina}, 'acc': {...}}"""
    repo = repo or os.environ.get("VERIF_REPO", "/repo")
    outdir = outdir or (os.environ.get("VERIF_GEN_OUT") or os.path.join(VERIF, "coq", "gen"))
    res = {"detail": {}}
    # the two source files are translated independently: a region that left the grammar falls back to ITS reference kernels only
    HELPER_KERNELS = ("g_upw_skip", "g_upw_single", "g_single_cond", "g_single_new", "g_comp_cond", "g_comp_new",
                      "g_update_penalty_weights", "g_initial_sigma_auto")
    D, Z, tables, bad, origin = [], [], {}, [], []
    try:
        gen_helpers(repo, D)
        origin.append(os.path.join(repo, HELPERS))
    except (OutOfGrammar, OSError, UnicodeDecodeError) as ex:
        D = [d for d in REF_D if d[0] in HELPER_KERNELS]
        bad.append("alm-helpers.tpp: %s" % ex)
        origin.append("REFERENCE kernels = hand model for alm-helpers.tpp (out of grammar: %s)" % ex)
    try:
        D2 = []
        gen_alm(repo, D2, Z, tables)
        D += D2
        origin.append(os.path.join(repo, ALM))
        origin.append(os.path.join(repo, ALM_HPP))
    except (OutOfGrammar, OSError, UnicodeDecodeError) as ex:
        D += [d for d in REF_D if d[0] not in HELPER_KERNELS]
        Z, tables = list(REF_Z), dict(REF_TABLES)
        bad.append("alm.tpp: %s" % ex)
        origin.append("REFERENCE kernels = hand model for alm.tpp (out of grammar: %s)" % ex)
    res["AlmGen.v"] = "ok" if not bad else "translator-out-of-grammar"
    if bad:
        res["detail"]["AlmGen.v"] = "; ".join(bad)
    origin = " + ".join(origin)
    _write(os.path.join(outdir, "AlmGen.v"), render_alm(D, Z, tables, origin))
    res["kernels"] = {n: b for n, _, b, _ in D + Z}
    res["tables"] = tables
    try:
        acc = gen_acc(repo)
        res["StatsAcc.v"] = "ok"
        origin = os.path.join(repo, INC, "inner/{panoc,zerofpr,pantr,fista,panoc-ocp}.hpp")
    except (OutOfGrammar, OSError, UnicodeDecodeError) as ex:
        acc = dict(REF_ACC)
        res["StatsAcc.v"] = "translator-out-of-grammar"
        res["detail"]["StatsAcc.v"] = str(ex)
        origin = "REFERENCE tables (source out of grammar: %s)" % ex
    _write(os.path.join(outdir, "StatsAcc.v"), render_acc(acc, origin))
    res["acc"] = {k: {"table": v[0], "fields": v[1]} for k, v in acc.items()}
    return res


if __name__ == "__main__":
    r = write(*(sys.argv[1:3]))
    print({k: r[k] for k in ("AlmGen.v", "StatsAcc.v", "detail")})
    if "-v" in sys.argv or os.environ.get("GEN_VERBOSE"):
        for k, v in r["kernels"].items():
            print("%-32s %s" % (k, v))
    sys.exit(0 if r["AlmGen.v"] == "ok" and r["StatsAcc.v"] == "ok" else 2)
