#!/usr/bin/env python3
"""gen_ocp.py — translator G13: the OCP machinery of PANOC-OCP regenerated as Gallina from the C++ on every run.

Reads   <repo>/src/alpaqa/include/alpaqa/inner/directions/panoc-ocp/ocp-vars.hpp
            OCPVariables: the constructor (std::partial_sum of the size arrays, the order of the sizes in the delegating constructor),
            enum Indices, every `length_t name(..) const { return e; }` getter, create / create_qr, the segment accessors
            xk xuk uk hk ck qk rk qrk (offset and length of `v.segment(off, len)`), ABk / Ak / Bk (middleCols), qr_mut / qN_mut
            OCPEvaluator::N, forward, backward: the loop bodies as per-stage step functions, the loops as folds over generated index
            lists, the terminal blocks, the functions
        <repo>/src/alpaqa/include/alpaqa/inner/directions/panoc-ocp/lqr.hpp
            StatefulLQRFactor (member shapes), factor_masked, solve_masked: per-stage bodies, loops, functions
        <repo>/src/alpaqa/include/alpaqa/problem/ocproblem.hpp      which argument of each problem function is the output (rvec)
        <repo>/src/alpaqa/include/alpaqa/implementation/inner/panoc-ocp.tpp   what the `qr` / `q_N` arguments of backward are
writes  coq/gen/OcpGen.v over the `Num` class, the problem functions `ocp_fns`, the LQR callables `lqr_fns`, the dense solve
        `lsolve` (Eigen::LDLT and Eigen::PartialPivLU both map to it, exactly as in Ocp.v) and the dimensions `dims`.
coq/theories/OcpGenEq.v proves the generated pieces equal to the definitions of the hand model Ocp.v.

Engine: translate/symexec.py (tokenizer, statement parser, CPS executor: if-merging, loop lambda-lifting) with an expression
evaluator of its own for vectors / matrices / segment views:
  rvec / crvec parameters and vec members are flat buffers (cells); `b.segment(o, n)`, `.topRows(n)`, `.bottomRows(n)`, `vars.xk(b, t)`
  ... are VIEWS (buffer, offset, length): a read is `seg o n <current buffer>`, a write `put o <value> <current buffer>` (no store
  forwarding); `view(J) = e` is `scatter J e`.   mat members are matrix cells with the shape of their member initialiser;
  `mmat X{w.data(), r, c}` over a work array is a fresh r x c matrix that must be assigned before it is read (checked);
  `mmat X{G.col(i).data(), r, c}` / `E.col(i).topRows(n)` are slot i of a per-stage store (read `nth i`, write `lupd i`): the
  shape used at the write is assumed to be the shape used at the read (same J(i) in factor_masked and solve_masked).
  Products: M*M -> mm, Mᵀ*M -> mm (mT ..), M*v -> mv, Mᵀ*v -> mtv, v.asDiagonal()*w -> vmul, v.asDiagonal().inverse()*w -> vdiv;
  M(all, J) -> selcols, v(J) -> sel; FACT.solve(v) -> lsolve M v, FACT.solve(B) -> msolve lsolve; `min_rcond` is not translated.
A unit that leaves the grammar is replaced by its block of the committed reference text translate/ref/OcpGen.ref.v and reported as
`translator-out-of-grammar` (never a violation by itself).

Usage: gen_ocp.py [repo] [outfile] [--write-ref]      Prints one JSON status line."""
import json, os, re, sys
from fractions import Fraction
sys.path.insert(0, os.path.dirname(os.path.abspath(__file__)))
import symexec as sx
import strict
from symexec import OutOfGrammar
import gen_lbfgs as gl

HERE = os.path.dirname(os.path.abspath(__file__))
VERIF = os.path.dirname(HERE)
DIRP = "src/alpaqa/include/alpaqa/inner/directions/panoc-ocp/"
VARS = DIRP + "ocp-vars.hpp"
LQR = DIRP + "lqr.hpp"
OCPROB = "src/alpaqa/include/alpaqa/problem/ocproblem.hpp"
TPP = "src/alpaqa/include/alpaqa/implementation/inner/panoc-ocp.tpp"
REF = os.path.join(HERE, "ref", "OcpGen.ref.v")

sx.GTYPE.update({"M": "list (list T)", "SV": "list (list T)", "SM": "list (list (list T))", "OV": "list (option T)"})
sx.TYPES.update({"autoref": None, "size_t": "N"})
sx.ASCII.update({"ζ": "zeta", "û": "uh", "ℓ": "ell"})
INVALID = "<unassigned>"
UNDEFINED_MACROS = ("EIGEN_RUNTIME_NO_MALLOC",)
IGNORED_MEMBERS = ("min_rcond",)           # reciprocal condition estimate: bookkeeping outside Ocp.v
DIMS = {"get_nx": "(dnx d)", "get_nu": "(dnu d)", "get_nh": "(dnh d)", "get_nc": "(dnc d)", "get_nh_N": "(dnhN d)",
        "get_nc_N": "(dncN d)", "get_N": "(dN d)"}
# the callables of factor_masked / solve_masked (interface contract = the lambdas OCPEvaluator::Q / R / S / R_prod / S_prod build):
# kinds of the first argument list, kinds of the second one ('IO:<ty>' = the `out` argument, read and written), result of the first call
CALLABLES = {"AB": (["N"], None, "M:nx:nxu"), "q": (["N"], None, "V"), "r": (["N"], None, "V"), "u": (["N"], None, "V"),
             "J": (["N"], None, "IDX"), "K": (["N"], None, "IDX"),
             "Q": (["N"], ["IO:M"], None), "R": (["N"], ["IDX", "IO:M"], None), "S": (["N"], ["IDX", "IO:M"], None),
             "R_prod": (["N"], ["IDX", "IDX", "V", "IO:V"], None), "S_prod": (["N"], ["IDX", "V", "IO:V"], None)}


# ----------------------------------------------------------------------------- values
def vV(txt, ln=None):
    return ("V", txt, {"len": ln})


def vM(txt, r, c, tr=None):
    return ("M", txt, {"r": r, "c": c, "tr": tr})


def nat_add(a, b):
    if a in ("0%nat", "0"):
        return b
    if b in ("0%nat", "0"):
        return a
    return "(Nat.add %s %s)" % (a, b)


def toks_text(toks):
    return " ".join(t[1] for t in toks)


def split_top(toks, sep=","):
    out, cur, depth = [], [], 0
    for k, v in toks:
        if k == "op" and v in "([{":
            depth += 1
        elif k == "op" and v in ")]}":
            depth -= 1
        if (k, v) == ("op", sep) and depth == 0:
            out.append(cur); cur = []
        else:
            cur.append((k, v))
    if cur or out:
        out.append(cur)
    return out


class OExpr:
    """typed expression evaluator over a token list; values are tuples (kind, text, info)"""

    def __init__(self, toks, env, unit, what):
        self.t, self.i, self.env, self.u, self.what = toks, 0, env, unit, what

    def peek(self, k=0):
        return self.t[self.i + k] if self.i + k < len(self.t) else (None, None)

    def at(self, kind, val):
        return self.peek() == (kind, val)

    def eat(self, kind=None, val=None):
        k, v = self.peek()
        if k is None or (kind and k != kind) or (val is not None and v != val):
            raise OutOfGrammar("%s: expected %s %s, found %r" % (self.what, kind or "", val or "", v))
        self.i += 1
        return v

    def oog(self, msg):
        raise OutOfGrammar("%s: %s" % (self.what, msg))

    def parse_all(self):
        v = self.expr()
        if self.i != len(self.t):
            self.oog("trailing tokens from %r" % self.peek()[1])
        return v

    # ---- rvalues
    def rv(self, v):
        """views / slots / cell references -> plain values"""
        k = v[0]
        if k == "VIEW":
            c = v[2]
            ident = self.u.val(self.env, c["cell"])[1]
            if c.get("whole"):
                return vV(ident)
            return vV("(seg %s %s %s)" % (c["off"], c["len"], ident), c["len"])
        if k == "SLOT":
            c = v[2]
            ident = self.u.val(self.env, c["cell"])[1]
            if c["ty"] == "V":
                return vV("(nth %s %s [])" % (c["i"], ident), c.get("len"))
            return vM("(nth %s %s [])" % (c["i"], ident), c["r"], c["c"])
        if k == "VIEWIDX":
            return vV("(sel %s %s)" % (v[2]["idx"], self.rv(v[2]["view"])[1]))
        if k == "MCELL":
            name = v[1]
            ident = self.u.val(self.env, name)[1]
            if ident == INVALID:
                self.oog("matrix %s read before it is assigned" % name)
            r, c = self.u.shapes[self.env.res(name)]
            return vM(ident, r, c)
        return v

    def simple(self, v):
        v = self.rv(v)
        if v[0] not in ("L", "N", "B", "S", "V", "M", "IDX"):
            self.oog("value of kind %s in an expression" % v[0])
        return v

    # ---- precedence climbing
    def expr(self):
        c = self.lor()
        if self.at("op", "?"):
            self.eat()
            a = self.simple(self.expr())
            self.eat("op", ":")
            b = self.simple(self.expr())
            t, x, y = sx.unify(a, b)
            return (t, "(if %s then %s else %s)" % (sx.coerce(self.simple(c), "B", self.what), x, y))
        return c

    def lor(self):
        a = self.land()
        while self.at("op", "||"):
            self.eat()
            b = self.land()
            a = ("B", "(%s || %s)" % (sx.coerce(self.simple(a), "B"), sx.coerce(self.simple(b), "B")))
        return a

    def land(self):
        a = self.equality()
        while self.at("op", "&&"):
            self.eat()
            b = self.equality()
            a = ("B", "(%s && %s)" % (sx.coerce(self.simple(a), "B"), sx.coerce(self.simple(b), "B")))
        return a

    def equality(self):
        a = self.rel()
        while self.peek() in (("op", "=="), ("op", "!=")):
            op = self.eat()
            a = sx.compare(op, self.simple(a), self.simple(self.rel()))
        return a

    def rel(self):
        a = self.sum()
        if self.peek() in (("op", "<"), ("op", ">"), ("op", "<="), ("op", ">=")):
            op = self.eat()
            a = sx.compare(op, self.simple(a), self.simple(self.sum()))
        return a

    def sum(self):
        a = self.prod()
        while self.peek() in (("op", "+"), ("op", "-")):
            op = self.eat()
            a = self.arith(op, a, self.prod())
        return a

    def prod(self):
        a = self.unary()
        while self.peek() in (("op", "*"), ("op", "/"), ("op", "%")):
            op = self.eat()
            a = self.arith(op, a, self.unary())
        return a

    def arith(self, op, a, b):
        if a[0] == "DIAG" and op == "*":
            b = self.simple(b)
            if b[0] != "V":
                self.oog("diagonal matrix times a non-vector")
            return vV("(vdiv %s %s)" % (b[1], a[1]) if a[2]["inv"] else "(vmul %s %s)" % (a[1], b[1]))
        a, b = self.simple(a), self.simple(b)
        if a[0] == "M" or b[0] == "M":
            if a[0] == "M" and b[0] == "M" and op == "*":
                return vM("(mm %s %s %s)" % (b[2]["c"], a[1], b[1]), a[2]["r"], b[2]["c"])
            if a[0] == "M" and b[0] == "V" and op == "*":
                if a[2]["tr"]:
                    x, r, c = a[2]["tr"]
                    return vV("(mtv %s %s %s)" % (c, x, b[1]), c)
                return vV("(mv %s %s)" % (a[1], b[1]), a[2]["r"])
            if a[0] == "M" and b[0] == "M" and op == "+":
                return vM("(madd %s %s)" % (a[1], b[1]), a[2]["r"], a[2]["c"])
            self.oog("operator %s on a matrix" % op)
        if op == "%":
            if a[0] == "N" and b[0] in ("N", "L"):
                return ("N", "(Nat.modulo %s %s)" % (a[1], sx.coerce(b, "N")))
            self.oog("operator % outside index arithmetic")
        if a[0] == "N" and b[0] == "N" and op == "+":
            return ("N", nat_add(a[1], b[1]))
        r = sx.arith(op, a, b)
        return vV(r[1]) if r[0] == "V" else r

    def unary(self):
        k, v = self.peek()
        if (k, v) == ("op", "-"):
            self.eat()
            e = self.simple(self.unary())
            if e[0] == "V":
                return vV("(vneg %s)" % e[1], e[2].get("len"))
            if e[0] == "M":
                return vM("(mneg %s)" % e[1], e[2]["r"], e[2]["c"])
            return ("S", "(- %s)" % sx.coerce(e, "S"))
        if (k, v) in (("op", "!"), ("id", "not")):
            self.eat()
            return ("B", "(negb %s)" % sx.coerce(self.simple(self.unary()), "B"))
        return self.postfix()

    def args(self):
        """unparsed argument token lists of the call at the current `(`"""
        self.eat("op", "(")
        depth, cur = 0, []
        while True:
            k, v = self.peek()
            if k is None:
                self.oog("unbalanced call")
            self.i += 1
            if k == "op" and v in "([{":
                depth += 1
            elif k == "op" and v in ")]}":
                if depth == 0:
                    return split_top(cur)
                depth -= 1
            cur.append((k, v))

    def sub(self, toks):
        return OExpr(toks, self.env, self.u, self.what).parse_all()

    def nat(self, toks):
        return sx.coerce(self.simple(self.sub(toks)), "N", self.what)

    def postfix(self):
        e = self.atom()
        while True:
            if self.at("op", ".") or self.at("op", "->"):
                self.eat()
                m = self.eat("id")
                a = self.args() if self.at("op", "(") else None
                e = self.member(e, m, a)
            elif self.at("op", "("):
                e = self.call(e, self.args())
            elif self.at("op", "["):
                self.eat()
                depth, cur = 0, []
                while not (self.at("op", "]") and depth == 0):
                    k, v = self.peek()
                    if k is None:
                        self.oog("unbalanced [")
                    depth += (k == "op" and v == "[") - (k == "op" and v == "]")
                    cur.append((k, v)); self.i += 1
                self.eat()
                e = self.simple(e)
                if e[0] != "IDX":
                    self.oog("[] on kind %s" % e[0])
                e = ("N", "(nth %s %s 0%%nat)" % (self.nat(cur), e[1]))
            else:
                return e

    def atom(self):
        k, v = self.peek()
        if k == "num":
            self.eat()
            return ("L", v, Fraction(v))
        if (k, v) == ("op", "("):
            self.eat()
            e = self.expr()
            self.eat("op", ")")
            return e
        if k != "id":
            self.oog("unexpected token %r" % v)
        self.eat()
        env, u = self.env, self.u
        if v in ("true", "false"):
            return ("B", v)
        if v in env.lams:
            return env.lams[v]
        if env.has(v):
            c = env.get(v)
            if c.ty == "M":
                return ("MCELL", v)
            if c.ty == "V":
                return ("VIEW", None, {"cell": env.res(v), "off": "0%nat", "len": None, "whole": True})
            if c.ty in ("SV", "SM"):
                return ("STORE", env.res(v), {"ty": c.ty})
            if c.ty == "NL":
                return ("IDX", u.val(env, v)[1])
            return u.val(env, v)
        if v == "real_t" and self.at("op", "("):
            a = self.args()
            if len(a) != 1:
                self.oog("real_t() arity")
            x = self.simple(self.sub(a[0]))
            if x[0] == "N":
                return ("S", "(nofZ (Z.of_nat %s))" % x[1])
            return ("S", sx.coerce(x, "S", self.what))
        r = u.h.atom(self, v)
        if r is None:
            self.oog("unknown identifier %r" % v)
        return r

    # ---- members and calls
    def view_of(self, e):
        if e[0] == "VIEW":
            return e
        return None

    def member(self, e, m, a):
        u = self.u
        r = u.h.member(self, e, m, a)
        if r is not None:
            return r
        k = e[0]
        if k == "VIEW":
            c = e[2]
            if m in ("segment", "topRows", "bottomRows", "head", "tail") and a is not None:
                if c.get("whole") and m in ("bottomRows", "tail"):
                    self.oog("bottomRows of a buffer of unknown length")
                if m == "segment" and len(a) == 2:
                    o, n = self.nat(a[0]), self.nat(a[1])
                elif m in ("topRows", "head") and len(a) == 1:
                    o, n = "0%nat", self.nat(a[0])
                elif m in ("bottomRows", "tail") and len(a) == 1:
                    n = self.nat(a[0])
                    o = "(Nat.sub %s %s)" % (c["len"], n)
                else:
                    self.oog("arity of %s" % m)
                return ("VIEW", None, {"cell": c["cell"], "off": nat_add(c["off"], o), "len": n})
            if m in ("size", "rows") and a == []:
                return ("N", c["len"]) if not c.get("whole") else ("N", "(length %s)" % self.rv(e)[1])
            if m == "asDiagonal" and a == []:
                return ("DIAG", self.rv(e)[1], {"inv": False})
        if k == "V":
            if m == "segment" and a is not None and len(a) == 2:
                o, n = self.nat(a[0]), self.nat(a[1])
                return vV("(seg %s %s %s)" % (o, n, e[1]), n)
            if m in ("topRows", "head") and a is not None and len(a) == 1:
                n = self.nat(a[0])
                return vV("(firstn %s %s)" % (n, e[1]), n)
            if m in ("size", "rows") and a == []:
                return ("N", "(length %s)" % e[1])
            if m == "asDiagonal" and a == []:
                return ("DIAG", e[1], {"inv": False})
        if k == "DIAG" and m == "inverse" and a == []:
            return ("DIAG", e[1], {"inv": not e[2]["inv"]})
        if k in ("M", "MCELL"):
            x = self.rv(e)
            if m in ("leftCols", "rightCols") and a is not None and len(a) == 1:
                n = self.nat(a[0])
                return vM("(%s %s %s)" % ("mleft" if m == "leftCols" else "mright", n, x[1]), x[2]["r"], n)
            if m == "transpose" and a == []:
                if x[2]["tr"]:
                    t = x[2]["tr"]
                    return vM(t[0], t[1], t[2])
                return vM("(mT %s %s)" % (x[2]["c"], x[1]), x[2]["c"], x[2]["r"], tr=(x[1], x[2]["r"], x[2]["c"]))
            if m == "rows" and a == []:
                return ("N", x[2]["r"])
            if m == "cols" and a == []:
                return ("N", x[2]["c"])
        if k == "IDX" and m == "size" and a == []:
            return ("N", "(length %s)" % e[1])
        if k == "IDX" and m == "back" and a == []:
            return ("N", "(last %s 0%%nat)" % e[1])
        if k == "STORE" and m == "col" and a is not None and len(a) == 1:
            return ("STORECOL", e[1], {"ty": e[2]["ty"], "i": self.nat(a[0])})
        if k == "STORECOL" and e[2]["ty"] == "SV" and m == "topRows" and a is not None and len(a) == 1:
            return ("SLOT", None, {"cell": e[1], "i": e[2]["i"], "ty": "V", "len": self.nat(a[0])})
        if k == "STORECOL" and m == "data" and a == []:
            return ("DATA", e[1], {"i": e[2]["i"], "ty": e[2]["ty"]})
        if k == "SCRATCH" and m == "data" and a == []:
            return ("DATA", e[1], {"i": None, "ty": "V"})
        if k == "FACT":
            if m == "solve" and a is not None and len(a) == 1:
                b = self.simple(self.sub(a[0]))
                if b[0] == "V":
                    return vV("(lsolve %s %s)" % (e[1], b[1]), e[2]["n"])
                if b[0] == "M":
                    return vM("(msolve lsolve %s %s %s %s)" % (b[2]["r"], b[2]["c"], e[1], b[1]), b[2]["r"], b[2]["c"])
            if m == "rcond" and a == []:
                return ("IGNORED", "rcond")
        self.oog("member %s%s of a value of kind %s" % (m, "()" if a is not None else "", k))

    def call(self, e, a):
        u = self.u
        r = u.h.call(self, e, a)
        if r is not None:
            return r
        k = e[0]
        if k in ("VIEW", "V"):
            if len(a) != 1:
                self.oog("coefficient access arity")
            j = self.sub(a[0])
            j = self.rv(j)
            if j[0] == "IDX":
                if k == "VIEW":
                    return ("VIEWIDX", None, {"view": e, "idx": j[1]})
                return vV("(sel %s %s)" % (j[1], e[1]))
            return ("S", "(nth %s %s n0)" % (sx.coerce(j, "N", self.what), self.rv(e)[1]))
        if k in ("M", "MCELL"):
            x = self.rv(e)
            if len(a) == 2 and a[0] == [("id", "all")]:
                j = self.rv(self.sub(a[1]))
                if j[0] == "IDX":
                    return vM("(selcols %s %s)" % (j[1], x[1]), x[2]["r"], "(length %s)" % j[1])
            self.oog("matrix indexing other than (all, J)")
        if k == "CALLABLE":
            name = e[1]
            first, second, res = CALLABLES[name]
            if len(a) != len(first):
                self.oog("arity of %s" % name)
            args = [self.nat(x) for x in a]
            tx = "(lf_%s L %s)" % (name, " ".join(args))
            if second is not None:
                return ("PART", name, {"args": args})
            if res == "V":
                return vV(tx)
            if res == "IDX":
                return ("IDX", tx)
            _, r_, c_ = res.split(":")
            dims = {"nx": u.val(self.env, "dim.nx")[1], "nu": u.val(self.env, "dim.nu")[1]}
            dims["nxu"] = "(Nat.add %s %s)" % (dims["nx"], dims["nu"])
            return vM(tx, dims[r_], dims[c_])
        if k == "PART":
            return ("APPLY", e[1], {"args1": e[2]["args"], "args2": a})
        self.oog("call of a value of kind %s" % k)


# accounted, not translated: what a unit must contain besides its translated statements (text with the blanks removed: number of times)
REQUIRED_TEXT = {"factor_masked": {"usingmmat=Eigen::Map<mat>;": 1, "usingEigen::indexing::all;": 1, "min_rcond=1;": 1,
                                   "min_rcond=std::min(R̅LU.rcond(),min_rcond);": 2, "min_rcond=": 3}}


class OHooks(sx.Hooks):
    """client side of OExpr / OExec; one instance per unit"""
    known_usings = ("using mmat =Eigen::Map <mat >", "using Eigen::indexing::all")

    def __init__(self, layout=None, pfsig=None, callables=(), qrmap=None):
        self.layout, self.pfsig, self.callables, self.qrmap = layout or {}, pfsig or {}, set(callables), qrmap or {}
        self.scratch = set()

    # -- expression side
    def atom(self, ex, name):
        if name in ("vars", "problem", "this", "dim"):
            return ("OBJ", name)
        if name in self.callables:
            return ("CALLABLE", name)
        if name in self.qrmap:
            return ("QRFUN", name)
        if name == "all":
            return ("ALL", None)
        if name in self.scratch:
            return ("SCRATCH", name)
        if name in ("dist_squared", "projecting_difference", "mmat_map", "factor_of_LDLT", "factor_of_PartialPivLU", "N") or name in IGNORED_MEMBERS:
            if name == "N" and "N" in self.layout.get("getters", {}):       # OCPEvaluator member function N() without `this->`
                return ("OBJMEM", "this.N")
            if name in IGNORED_MEMBERS:
                return ("IGNORED", name)
            return ("FUN", name)
        if name.startswith("std::"):
            return ("FUN", name)
        return None

    def layout_call(self, ex, name, a):
        L = self.layout
        if name in L.get("getters", {}):
            ps = L["getters"][name]
            if len(a) != len(ps):
                ex.oog("arity of vars.%s" % name)
            return ("N", "(g_%s %s)" % (name, " ".join(ex.nat(x) for x in a)) if a else "(g_%s)" % name)
        if name in L.get("views", {}):
            ps = L["views"][name]
            if len(a) != len(ps) + 1:
                ex.oog("arity of vars.%s" % name)
            b = ex.sub(a[0])
            if b[0] != "VIEW" or not b[2].get("whole"):
                ex.oog("vars.%s of something else than a whole buffer" % name)
            rest = " ".join(ex.nat(x) for x in a[1:])
            return ("VIEW", None, {"cell": b[2]["cell"], "off": "(g_%s_off %s)" % (name, rest), "len": "(g_%s_len %s)" % (name, rest)})
        ex.oog("unknown member vars.%s" % name)

    def member(self, ex, e, m, a):
        if e[0] == "OBJ":
            o = e[1]
            if o == "vars":
                if a is None:
                    if m == "N":
                        return ("N", "(dN d)")
                    ex.oog("member vars.%s" % m)
                return self.layout_call(ex, m, a)
            if o == "this" and m == "N" and a == []:
                return ("N", "(g_N)")
            if o == "dim" and a is None and ex.env.has("dim." + m):
                return ex.u.val(ex.env, "dim." + m)
            if o == "problem" and a is not None:
                if m not in self.pfsig:
                    ex.oog("unknown problem function %s" % m)
                kinds, ret = self.pfsig[m]
                if len(a) != len(kinds):
                    ex.oog("arity of problem->%s" % m)
                ins, out = [], None
                for kd, x in zip(kinds, a):
                    if kd == "OUT":
                        out = ex.sub(x)
                    elif kd == "N":
                        ins.append(ex.nat(x))
                    else:
                        ins.append(sx.coerce(ex.simple(ex.sub(x)), "V", ex.what))
                tx = "(pf_%s F %s)" % (m, " ".join(ins))
                if ret == "S":
                    return ("S", tx)
                return ("PFVOID", tx, {"out": out})
            ex.oog("member %s of %s" % (m, o))
        return None

    def call(self, ex, e, a):
        if e[0] == "OBJMEM" and e[1] == "this.N" and a == []:
            return ("N", "(g_N)")
        if e[0] == "QRFUN":
            acc, extra = self.qrmap[e[1]]            # accessor name, extra argument texts (None = the call's own argument)
            args, it = [], iter(a)
            for x in extra:
                args.append(ex.nat(next(it)) if x is None else x)
            if list(it):
                ex.oog("arity of %s" % e[1])
            rest = " ".join(args)
            return ("VIEW", None, {"cell": "qrbuf", "off": "(g_%s_off %s)" % (acc, rest), "len": "(g_%s_len %s)" % (acc, rest)})
        if e[0] == "FUN":
            f = e[1]
            if f == "dist_squared" and len(a) == 3:
                z, box, m = ex.simple(ex.sub(a[0])), ex.sub(a[1]), ex.simple(ex.sub(a[2]))
                if box[0] != "BOX":
                    ex.oog("dist_squared: second argument is not a Box")
                return ("S", "(dist_sq %s %s %s %s)" % (ex.u.val(ex.env, box[2]["lb"])[1], ex.u.val(ex.env, box[2]["ub"])[1],
                                                           sx.coerce(m, "V"), sx.coerce(z, "V")))
            if f == "projecting_difference" and len(a) == 2:
                z, box = ex.simple(ex.sub(a[0])), ex.sub(a[1])
                if box[0] != "BOX":
                    ex.oog("projecting_difference: second argument is not a Box")
                return vV("(pdiff %s %s %s)" % (ex.u.val(ex.env, box[2]["lb"])[1], ex.u.val(ex.env, box[2]["ub"])[1], sx.coerce(z, "V")))
            if f == "mmat_map" and len(a) == 3:
                d = ex.sub(a[0])
                if d[0] != "DATA":
                    ex.oog("mmat over something else than .data()")
                r, c = ex.nat(a[1]), ex.nat(a[2])
                if d[2]["i"] is None:
                    return ("MMAP", None, {"r": r, "c": c})
                if d[2]["ty"] != "SM":
                    ex.oog("mmat over a column of a vector store")
                return ("SLOT", None, {"cell": d[1], "i": d[2]["i"], "ty": "M", "r": r, "c": c})
            if f in ("factor_of_LDLT", "factor_of_PartialPivLU") and len(a) == 1:
                m = ex.simple(ex.sub(a[0]))
                if m[0] != "M":
                    ex.oog("factorisation of a non-matrix")
                return ("FACT", m[1], {"n": m[2]["r"]})
            if f in ("std::min", "std::max") and len(a) == 2:
                x, y = ex.sub(a[0]), ex.sub(a[1])
                if "IGNORED" in (x[0], y[0]):
                    return ("IGNORED", f)
                x, y = ex.simple(x), ex.simple(y)
                if x[0] == "N" or y[0] == "N":
                    return ("N", "(Nat.%s %s %s)" % (f[5:], sx.coerce(x, "N"), sx.coerce(y, "N")))
                return ("S", "(%s %s %s)" % ("cmax" if f == "std::max" else "cmin", sx.coerce(x, "S"), sx.coerce(y, "S")))
            ex.oog("call of %s" % f)
        return None

    # -- statement side
    def assign_special(self, X, env, lhs, op, rhs, rest):
        return X.oassign(env, lhs, op, rhs, rest)

    def call_stmt(self, X, env, toks, rest):
        return X.ocall(env, toks, rest)


class OExec(sx.Exec):
    def ox(self, toks, env):
        return OExpr(toks, env, self.u, self.what)

    def ex(self, toks, env, want=None):
        p = self.ox(toks, env)
        e = p.simple(p.parse_all())
        if want:
            return (want, sx.coerce(e, want, self.what))
        return e

    def base(self, n, ty):
        return "l_" + sx.ascii_name(n).replace(".", "_")

    def block(self, stmts, i, env, k, ret):
        if i < len(stmts):
            s = stmts[i]
            rest = lambda e: self.block(stmts, i + 1, e, k, ret)
            if s[0] == "decl":
                return self.odecl(env, s, rest)
            if s[0] == "decl_tuple":
                return self.otuple(env, s, rest)
            if s[0] == "call" and s[1] and s[1][0] == ("id", "assert"):
                return rest(env)
        return super().block(stmts, i, env, k, ret)

    def loop(self, env, s, rest):
        """as symexec's, but the index list of a for loop becomes a Definition of its own (g_<unit>_for<k>_order)"""
        u = self.u
        if s[0] not in ("for_up", "for_down"):
            return super().loop(env, s, rest)
        lo, hi = (s[2], s[3]) if s[0] == "for_up" else (s[3], s[2])
        save = u.reads
        u.reads = None
        a, b = self.ex(lo, env), self.ex(hi, env)
        u.reads = save
        bs = sx.coerce(b, "N", self.what)
        if a[0] == "L" and a[2] == 0:
            sq, dsq, sig, args = "(seq 0 %s)" % bs, "(seq 0 a_hi)", "(a_hi : nat)", [bs]
        else:
            as_ = sx.coerce(a, "N", self.what)
            sq, dsq, sig, args = "(seq %s (Nat.sub %s %s))" % (as_, bs, as_), "(seq a_lo (Nat.sub a_hi a_lo))", "(a_lo : nat) (a_hi : nat)", [as_, bs]
        order, dorder = (sq, dsq) if s[0] == "for_up" else ("(rev %s)" % sq, "(rev %s)" % dsq)
        gstep = "%s_for%d_step" % (u.scope, u.loops.get("for", 0) + 1)
        txt = super().loop(env, s, rest)
        if self.dry or not any(d[0] == gstep for d in u.defs):
            return txt
        oname = gstep[:-5] + "_order"
        pat = ") %s (" % order
        if pat not in txt:
            self.oog("index list of the loop not found in its translation")
        u.defs.append((oname, sig + " : list nat", dorder, "the indices in the order the for loop visits them"))
        return txt.replace(pat, ") (%s %s) (" % (oname, " ".join(args)), 1)

    def otuple(self, env, s, rest):
        if s[2] != [("id", "dim")] or len(s[1]) != len(self.u.dim_order):
            self.oog("structured binding of something else than `dim`")
        env = env.copy()
        for n, f in zip(s[1], self.u.dim_order):
            env.alias[n] = "dim." + f
            env.lams.pop(n, None)
        return rest(env)

    def odecl(self, env, s, rest):
        _, ty, name, toks = s
        p = self.ox(toks, env)
        v = p.parse_all()
        k = v[0]
        env = env.copy()
        env.lams.pop(name, None)
        env.alias.pop(name, None)
        if k in ("VIEW", "MCELL") and (ty == "autoref" or (k == "VIEW" and not v[2].get("whole"))):
            if k == "MCELL":
                env.alias[name] = env.res(v[1])
            elif v[2].get("whole"):
                env.alias[name] = v[2]["cell"]
            else:
                env.lams[name] = v
            env.cells.pop(name, None) if name not in env.alias else None
            return rest(env)
        if k in ("SLOT", "BOX", "FACT", "VIEWIDX"):
            env.cells.pop(name, None)
            env.lams[name] = v
            return rest(env)
        if k == "MMAP":
            env.cells[name] = sx.Cell("M", INVALID)
            self.u.shapes[name] = (v[2]["r"], v[2]["c"])
            return rest(env)
        e = p.simple(v)
        want = sx.TYPES.get(ty)
        if want in ("N", "Z"):
            want = "N"
        if want is None:
            if e[0] == "L":
                self.oog("auto %s = literal" % name)
            want = {"IDX": "NL"}.get(e[0], e[0])
        if e[0] == "IDX":
            e = ("NL", e[1])
        if want == "M":
            self.u.shapes[name] = (e[2]["r"], e[2]["c"])
        return self.bind(env, name, want, sx.coerce(e, want, self.what), rest)

    # ---- lvalues
    def lvalue(self, env, toks):
        p = self.ox(toks, env)
        v = p.parse_all()
        if v[0] in ("VIEW", "SLOT", "VIEWIDX", "MCELL", "IGNORED"):
            return v, p
        if len(toks) == 1 and toks[0][0] == "id" and env.has(toks[0][1]):
            return ("CELL", toks[0][1]), p
        self.oog("assignment to %r" % toks_text(toks))

    def write(self, env, lv, p, new, rest):
        """new: function current-value -> (kind-checked) Gallina text"""
        u = self.u
        k = lv[0]
        if k == "CELL":
            c = env.get(lv[1])
            cur = (c.ty, c.val)
            return self.bind(env, lv[1], c.ty, new(cur, c.ty), rest)
        if k == "MCELL":
            name = env.res(lv[1])
            c = env.get(name)
            r, cc = u.shapes[name]
            cur = None if c.val == INVALID else vM(u.val(env, name)[1], r, cc)
            return self.bind(env, name, "M", new(cur, "M"), rest)
        if k == "VIEW":
            c = lv[2]
            ident = u.val(env, c["cell"])[1]
            if c.get("whole"):
                return self.bind(env, c["cell"], "V", new(vV(ident), "V"), rest)
            cur = vV("(seg %s %s %s)" % (c["off"], c["len"], ident), c["len"])
            return self.bind(env, c["cell"], "V", "(put %s %s %s)" % (c["off"], new(cur, "V"), ident), rest)
        if k == "VIEWIDX":
            c = lv[2]["view"][2]
            ident = u.val(env, c["cell"])[1]
            whole = ident if c.get("whole") else "(seg %s %s %s)" % (c["off"], c["len"], ident)
            cur = vV("(sel %s %s)" % (lv[2]["idx"], whole))
            val = "(scatter %s %s %s)" % (lv[2]["idx"], new(cur, "V"), whole)
            return self.bind(env, c["cell"], "V", val if c.get("whole") else "(put %s %s %s)" % (c["off"], val, ident), rest)
        if k == "SLOT":
            c = lv[2]
            ident = u.val(env, c["cell"])[1]
            cur = p.rv(lv)
            return self.bind(env, c["cell"], env.get(c["cell"]).ty, "(lupd %s %s %s)" % (c["i"], new(cur, c["ty"]), ident), rest)
        self.oog("write to a value of kind %s" % k)

    def oassign(self, env, lhs, op, rhs, rest):
        lv, p = self.lvalue(env, lhs)
        r = self.ox(rhs, env)
        rv0 = r.parse_all()
        if lv[0] == "IGNORED" or rv0[0] == "IGNORED":
            if lv[0] != "IGNORED":
                self.oog("an untranslated quantity flows into %s" % toks_text(lhs))
            # not translated, but accounted for: exactly the two known updates of the condition estimate
            rt = "".join(t[1] for t in rhs)
            if op != "=" or not (rt == "1" or re.fullmatch(r"std::min\([^\W\d][\w\u0300-\u036f]*\.rcond\(\),min_rcond\)", rt)):
                self.oog("update of the untranslated %s other than `= 1` / `= std::min(F.rcond(), min_rcond)`" % toks_text(lhs))
            return rest(env)
        e = r.simple(rv0)

        def new(cur, ty):
            if ty == "NL" and e[0] == "IDX":
                return e[1]
            if op == "=":
                return sx.coerce(e, ty, self.what)
            if cur is None:
                self.oog("compound assignment to an unassigned matrix")
            if ty == "M" and op == "+=":
                return "(madd %s %s)" % (cur[1], sx.coerce(e, "M", self.what))
            if ty == "V" and op == "+=":
                return "(vadd %s %s)" % (cur[1], sx.coerce(e, "V", self.what))
            if ty == "V" and op == "-=":
                return "(vsub %s %s)" % (cur[1], sx.coerce(e, "V", self.what))
            if ty in ("S", "N") and op in ("+=", "-=", "*=", "/="):
                return sx.coerce(sx.arith(op[0], cur, e), ty, self.what)
            self.oog("operator %s on type %s" % (op, ty))
        return self.write(env, lv, p, new, rest)

    def ocall(self, env, toks, rest):
        if toks and toks[0] == ("id", "assert"):
            return rest(env)
        # X.setZero()
        if len(toks) >= 5 and toks[-3:] == [("id", "setZero"), ("op", "("), ("op", ")")] and toks[-4] == ("op", "."):
            lv, p = self.lvalue(env, toks[:-4])

            def zero(cur, ty):
                if ty == "M":
                    r, c = self.u.shapes[env.res(lv[1])]
                    return "(mzero %s %s)" % (r, c)
                if lv[0] == "VIEW" and not lv[2].get("whole"):
                    return "(vconst %s n0)" % lv[2]["len"]
                return "(map (fun _ => n0) %s)" % cur[1]
            return self.write(env, lv, p, zero, rest)
        p = self.ox(toks, env)
        v = p.parse_all()
        if v[0] == "PFVOID":
            out = v[2]["out"]
            if out is None or out[0] not in ("VIEW", "SLOT"):
                self.oog("output argument of a problem function is not a view")
            return self.write(env, out, p, lambda cur, ty: v[1], rest)
        if v[0] == "APPLY":
            name = v[1]
            first, second, _ = CALLABLES[name]
            a2 = v[2]["args2"]
            if len(a2) != len(second):
                self.oog("arity of %s(..)(..)" % name)
            ins, out = list(v[2]["args1"]), None
            for kd, x in zip(second, a2):
                if kd.startswith("IO:"):
                    out = x
                elif kd == "IDX":
                    j = p.rv(p.sub(x))
                    if j[0] != "IDX":
                        self.oog("index set argument of %s" % name)
                    ins.append(j[1])
                else:
                    ins.append(sx.coerce(p.simple(p.sub(x)), kd, self.what))
            lv, p2 = self.lvalue(env, out)

            def app(cur, ty):
                if cur is None:
                    self.oog("%s adds into an unassigned matrix" % name)
                return "(lf_%s L %s %s)" % (name, " ".join(ins), cur[1])
            return self.write(env, lv, p2, app, rest)
        self.oog("call statement %r" % toks_text(toks)[:60])


# ----------------------------------------------------------------------------- sources
def read(repo, rel):
    return sx.strip_comments(open(os.path.join(repo, rel), encoding="utf-8").read())


def struct_text(src, name, what):
    m = list(re.finditer(r"\bstruct\s+%s\s*\{" % re.escape(name), src))
    if len(m) != 1:
        raise OutOfGrammar("%s: struct %s found %d times" % (what, name, len(m)))
    b = m[0].end() - 1
    return src[b + 1:sx.balanced(src, b, what)]


def preprocess(body, what):
    out, skip = [], 0
    for line in body.split("\n"):
        s = line.strip()
        if s.startswith("#"):
            m = re.fullmatch(r"#\s*ifdef\s+(\w+)", s)
            if m and m.group(1) in UNDEFINED_MACROS and not skip:
                skip = 1
            elif s.startswith("#endif") and skip:
                skip = 0
            else:
                raise OutOfGrammar("%s: preprocessor directive %r" % (what, s[:40]))
            continue
        if not skip:
            out.append(line)
    if skip:
        raise OutOfGrammar("%s: unterminated #ifdef" % what)
    t = "\n".join(out)
    t = re.sub(r"\bauto\s*&&?\s*", "autoref ", t)
    t = re.sub(r"\.noalias\(\)", "", t)
    t = re.sub(r"\bmmat\s+([^\s{(=;]+)\s*\{([^{};]*)\}\s*;", r"auto \1 = mmat_map(\2);", t)
    t = re.sub(r"\bEigen::(LDLT|PartialPivLU)\s*<\s*rmat\s*>\s*([^\s{(=;]+)\s*\{([^{};]*)\}\s*;", r"auto \2 = factor_of_\1(\3);", t)
    t = re.sub(r"\bconst\s+(real_t|bool|auto|autoref|index_t|length_t)\b", r"\1", t)
    return t


def problem_signatures(repo):
    """method -> ([kind per argument: 'N' | 'V' | 'OUT'], 'S' | None) from the declarations of TypeErasedControlProblem"""
    src = read(repo, OCPROB)
    out = {}
    for m in re.finditer(r"(?:\[\[nodiscard\]\]\s*)?\b(void|real_t)\s+(eval_\w+)\s*\(([^)]*)\)\s*const\s*;", src):
        kinds = []
        for p in m.group(3).split(","):
            ty = p.split()[0] if p.split() else ""
            kd = {"index_t": "N", "crvec": "V", "rvec": "OUT"}.get(ty)
            if kd is None:
                kinds = None
                break
            kinds.append(kd)
        if kinds is None or (m.group(1) == "void") != (kinds.count("OUT") == 1):
            continue
        if m.group(2) in out:
            raise OutOfGrammar("problem function %s declared twice" % m.group(2))
        out[m.group(2)] = (kinds, "S" if m.group(1) == "real_t" else None)
    return out


# ----------------------------------------------------------------------------- unit: layout (OCPVariables)
LAYOUT_CACHE = {}


class LHooks(OHooks):
    """expressions inside OCPVariables"""

    def __init__(self, enum, getters, params):
        super().__init__()
        self.enum, self.getters, self.params = enum, getters, params

    def atom(self, ex, name):
        if name in self.params:
            return ("N", self.params[name])
        if name in self.enum:
            return ("L", str(self.enum[name]), Fraction(self.enum[name]))
        if name == "N":
            return ("N", "(dN d)")
        if name in ("indices", "indices_N"):
            return ("IDX", "(g_%s)" % name)
        if name in self.getters:
            return ("GETTER", name)
        return None

    def call(self, ex, e, a):
        if e[0] == "GETTER":
            if len(a) != len(self.getters[e[1]]):
                ex.oog("arity of %s" % e[1])
            return ("N", "(g_%s %s)" % (e[1], " ".join(ex.nat(x) for x in a)) if a else "(g_%s)" % e[1])
        return None


def layout(repo):
    if repo in LAYOUT_CACHE:
        return LAYOUT_CACHE[repo]
    what = "layout"
    st = struct_text(read(repo, VARS), "OCPVariables", what)
    L = {"getters": {}, "views": {}, "defs": []}
    # sizes and their order
    if len(re.findall(r"std::partial_sum\(\s*sizes\.begin\(\)\s*,\s*sizes\.end\(\)\s*,\s*indices\.begin\(\)\s*\)", st)) != 1 or \
       len(re.findall(r"std::partial_sum\(\s*sizes_N\.begin\(\)\s*,\s*sizes_N\.end\(\)\s*,\s*indices_N\.begin\(\)\s*\)", st)) != 1 or \
       not re.search(r":\s*N\s*\{\s*N\s*\}", st):
        raise OutOfGrammar("layout: the constructor is not `N{N}` + two std::partial_sum over the size arrays")
    m = re.search(r":\s*OCPVariables\s*\{\s*\{([^{}]*)\}\s*,\s*\{([^{}]*)\}\s*,\s*prob\.(\w+)\(\)\s*,?\s*\}", st)
    if not m:
        raise OutOfGrammar("layout: delegating constructor")
    def sizes(t):
        names = re.findall(r"prob\.(\w+)\(\)", t)
        if len(names) != len([x for x in t.split(",") if x.strip()]) or any(n not in DIMS for n in names):
            raise OutOfGrammar("layout: size list %r" % t)
        return "[%s]" % "; ".join(DIMS[n] for n in names)
    if m.group(3) not in DIMS:
        raise OutOfGrammar("layout: horizon argument")
    L["defs"] += [("g_sizes", ": list nat", sizes(m.group(1)), "sizes of the delegating constructor"),
                  ("g_sizes_N", ": list nat", sizes(m.group(2)), "sizes_N of the delegating constructor"),
                  ("g_indices", ": list nat", "(psum (g_sizes))", "std::partial_sum(sizes) -> indices"),
                  ("g_indices_N", ": list nat", "(psum (g_sizes_N))", "std::partial_sum(sizes_N) -> indices_N"),
                  ("g_vars_N", ": nat", DIMS[m.group(3)], "N{N}")]
    me = re.search(r"\benum\s+Indices\s*\{([^}]*)\}", st)
    if not me:
        raise OutOfGrammar("layout: enum Indices")
    enum = {}
    for item in me.group(1).split(","):
        if item.strip():
            mm = re.fullmatch(r"\s*(\w+)\s*=\s*(\d+)\s*", item)
            if not mm:
                raise OutOfGrammar("layout: enumerator %r" % item)
            if mm.group(1) in enum:
                raise OutOfGrammar("layout: enumerator %s twice" % mm.group(1))
            enum[mm.group(1)] = int(mm.group(2))
    if list(enum) != ["i_u", "i_h", "i_c", "i_h_N", "i_c_N"]:
        raise OutOfGrammar("layout: enumerators of Indices are %s" % list(enum))
    getters = {}
    gm = list(re.finditer(r"\blength_t\s+(\w+)\s*\(([^)]*)\)\s*const\s*\{\s*return\s+([^;{}]+);\s*\}", st))
    for g in gm:
        ps = [p.split()[-1] for p in g.group(2).split(",") if p.strip()]
        getters[g.group(1)] = ps
    u = sx.Unit("g_layout", None)

    def tr(text, params):
        u.h = LHooks(enum, getters, dict((p, "a_" + p) for p in params))
        p = OExpr(sx.tokenize(text), sx.Env(), u, what)
        return sx.coerce(p.simple(p.parse_all()), "N", what)
    for g in gm:
        ps = getters[g.group(1)]
        L["defs"].append(("g_" + g.group(1), " ".join("(a_%s : nat)" % p for p in ps) + " : nat", tr(g.group(3), ps),
                          "length_t %s(%s)" % (g.group(1), sx.flat(g.group(2)))))
        L["getters"][g.group(1)] = ps
    for nm in ("create", "create_qr"):
        mc = re.search(r"\bvec\s+%s\s*\(\s*\)\s*const\s*\{\s*return\s+vec\s*\(([^;{}]+)\)\s*;\s*\}" % nm, st)
        if not mc:
            raise OutOfGrammar("layout: %s" % nm)
        L["defs"].append(("g_%s_len" % nm, ": nat", tr(mc.group(1), []), "vec %s(): the length" % nm))
    for nm in ("xk", "xuk", "uk", "hk", "ck", "qk", "rk", "qrk"):
        ms = list(re.finditer(r"\bauto\s+%s\s*\(\s*VectorRefLike<config_t>\s+auto\s*&&\s*(\w+)\s*,\s*index_t\s+(\w+)\s*\)\s*const\s*\{" % nm, st))
        if len(ms) != 1:
            raise OutOfGrammar("layout: accessor %s found %d times" % (nm, len(ms)))
        b = ms[0].end() - 1
        body = st[b + 1:sx.balanced(st, b, what)]
        body = re.sub(r"\bassert\s*\([^;]*\)\s*;", "", body)
        mr = re.fullmatch(r"\s*return\s+const_or_mut_rvec<config_t>\s*\(\s*%s\.segment\s*\((.*)\)\s*\)\s*;\s*" % ms[0].group(1), body, re.S) or \
            re.fullmatch(r"\s*return\s+%s\.segment\s*\((.*)\)\s*;\s*" % ms[0].group(1), body, re.S)
        if not mr:
            raise OutOfGrammar("layout: body of %s" % nm)
        inner = mr.group(1)
        parts = split_top(sx.tokenize(inner))
        if len(parts) != 2:
            raise OutOfGrammar("layout: segment arguments of %s" % nm)
        t = ms[0].group(2)
        for which, toks in (("off", parts[0]), ("len", parts[1])):
            u.h = LHooks(enum, getters, {t: "a_t"})
            p = OExpr(toks, sx.Env(), u, what)
            L["defs"].append(("g_%s_%s" % (nm, which), "(a_t : nat) : nat", sx.coerce(p.simple(p.parse_all()), "N", what),
                              "%s(v, t): %s of the segment" % (nm, "offset" if which == "off" else "length")))
        L["views"][nm] = [t]
    # AB storage: nx x (nxu N), stage t = middleCols(off, len)
    mab = re.search(r"\bmat\s+create_AB\s*\(\s*\)\s*const\s*\{\s*return\s+mat\s*\(([^;{}]+)\)\s*;\s*\}", st)
    if not mab or len(split_top(sx.tokenize(mab.group(1)))) != 2:
        raise OutOfGrammar("layout: create_AB")
    r_, c_ = split_top(sx.tokenize(mab.group(1)))
    u.h = LHooks(enum, getters, {})
    L["defs"].append(("g_create_AB_rows", ": nat", sx.coerce(OExpr(r_, sx.Env(), u, what).parse_all(), "N", what), "create_AB(): rows"))
    L["defs"].append(("g_create_AB_cols", ": nat", sx.coerce(OExpr(c_, sx.Env(), u, what).parse_all(), "N", what), "create_AB(): columns"))
    for nm in ("ABk", "Ak", "Bk"):
        bodies = set()
        for ms in re.finditer(r"\b(?:rmat|crmat|auto)\s+%s\s*\(\s*(?:rmat|crmat|mat\s*&)\s*AB\s*,\s*index_t\s+t\s*\)\s*const\s*\{([^{}]*)\}" % nm, st):
            bodies.add(sx.flat(ms.group(1)))
        if len(bodies) != 1:
            raise OutOfGrammar("layout: the overloads of %s differ / are missing" % nm)
        mr = re.fullmatch(r"return AB\.middleCols\s*\((.*)\)\s*;", bodies.pop())
        parts = split_top(sx.tokenize(mr.group(1))) if mr else []
        if len(parts) != 2:
            raise OutOfGrammar("layout: body of %s" % nm)
        for which, toks in (("off", parts[0]), ("len", parts[1])):
            u.h = LHooks(enum, getters, {"t": "a_t"})
            p = OExpr(toks, sx.Env(), u, what)
            L["defs"].append(("g_%s_%s" % (nm, which), "(a_t : nat) : nat", sx.coerce(p.simple(p.parse_all()), "N", what),
                              "%s(AB, t): first column / number of columns" % nm))
    # OCPEvaluator::N()
    ev = struct_text(read(repo, VARS), "OCPEvaluator", what)
    mn = re.search(r"\blength_t\s+N\s*\(\s*\)\s*const\s*\{\s*return\s+vars\.N\s*;\s*\}", ev)
    if not mn:
        raise OutOfGrammar("layout: OCPEvaluator::N()")
    L["defs"].append(("g_N", ": nat", "(g_vars_N)", "OCPEvaluator::N() = vars.N"))
    L["getters"]["N"] = []
    # what backward's qr / q_N arguments are (panoc-ocp.tpp)
    tpp = read(repo, TPP)
    qm = {}
    for lam, arity in (("mut_qrk", 1), ("mut_q_N", 0)):
        ml = re.search(r"\bauto\s+%s\s*=\s*\[&\]\s*\(([^)]*)\)\s*->\s*rvec\s*\{\s*return\s+vars\.(\w+)\s*\(\s*qr\s*,\s*(\w+)\s*\)\s*;\s*\}\s*;" % lam, tpp)
        if not ml or ml.group(2) not in L["views"]:
            raise OutOfGrammar("layout: lambda %s of panoc-ocp.tpp" % lam)
        ps = [p.split()[-1] for p in ml.group(1).split(",") if p.strip()]
        if len(ps) != arity or (arity == 1 and ml.group(3) != ps[0]) or (arity == 0 and ml.group(3) != "N"):
            raise OutOfGrammar("layout: argument of %s" % lam)
        qm[lam] = (ml.group(2), [None] if arity else ["(g_N)"])
    mc = re.findall(r"\beval\.backward\s*\(\s*[^,]+,\s*[^,]+,\s*(\w+)\s*,\s*(\w+)\s*,", tpp)
    if not mc or any(c != ("mut_qrk", "mut_q_N") for c in mc):
        raise OutOfGrammar("layout: call of eval.backward in panoc-ocp.tpp")
    L["qrmap"] = {"qr": qm["mut_qrk"], "q_N": qm["mut_q_N"]}
    LAYOUT_CACHE[repo] = L
    return L


def unit_layout(repo):
    return layout(repo)["defs"]


# ----------------------------------------------------------------------------- units: member functions
def top_level(st, what):
    """the struct text without its function bodies"""
    out, i, n = [], 0, len(st)
    while i < n:
        c = st[i]
        if c == "{":
            prev = "".join(out).rstrip()
            if prev.endswith(")") or prev.endswith("const") or prev.endswith("default"):
                i = sx.balanced(st, i, what) + 1
                out.append(";")
                continue
        out.append(c)
        i += 1
    return "".join(out)


def members(st, what):
    """member variables `[mutable] vec|mat|real_t name{..} | = ..;` of a struct: name -> (type, initialiser argument token lists)"""
    out = {}
    st = top_level(st, what)
    for m in re.finditer(r"(?:^|[;}\n])\s*(?:mutable\s+)?(vec|mat|real_t)\s+([^\s{}();=,]+)\s*(?:\{([^{};]*)\}|=\s*([^;{}]*))?\s*;", st):
        out[sx.nfc(m.group(2))] = (m.group(1), split_top(sx.tokenize(m.group(3))) if m.group(3) is not None else [])
    return out


def unit_function(repo, rel, struct, fname, gname, dims_from_dim=False):
    what = gname
    src = read(repo, rel)
    st = struct_text(src, struct, what)
    ptext, body = sx.find_function_body(st, r"\b(?:void|real_t)\s+%s\s*\(" % fname, what)
    rty = re.search(r"\b(void|real_t)\s+%s\s*\(" % fname, st).group(1)
    squeezed = "".join(sx.nfc(body).split())
    for text, n in REQUIRED_TEXT.get(fname, {}).items():
        if squeezed.count(sx.nfc(text)) != n:
            raise OutOfGrammar("%s: `%s` occurs %d times, expected %d" % (what, text, squeezed.count(sx.nfc(text)), n))
    body = preprocess(body, what)
    ast = sx.parse_body(body, what)
    L = layout(repo) if not dims_from_dim else {}
    hooks = OHooks(L, problem_signatures(repo), CALLABLES if dims_from_dim else (), L.get("qrmap"))
    u = sx.Unit(gname, hooks)
    u.shapes, u.store = {}, "<none>"
    X = OExec(u, what)
    env = sx.Env()
    sig, outs = [], []

    def cell(cname, ty, ident=None, out=False):
        ident = ident or sx.ascii_name(cname).replace(".", "_")
        env.cells[cname] = sx.Cell(ty, ident)
        u.types[ident] = ty
        sig.append("(%s : %s)" % (ident, sx.GTYPE[ty]))
        if out:
            outs.append(cname)
    if dims_from_dim:
        try:
            dm = strict.account(strict.split_statements(struct_text(src, "Dim", what)),
                                [("config", strict.lit("USING_ALPAQA_CONFIG(Conf);"), "1"), ("dims", r"length_t\s+([\w\s,]+);", "1"),
                                 ("Horizon", r"struct\s+Horizon\s*\{.*\}\s*;", "1"), ("horizon()", strict.lit("Horizon horizon() const { return {N}; }"), "1")],
                                "struct Dim")
        except strict.Unaccounted as ex:
            raise OutOfGrammar("%s: %s" % (what, ex))
        md = dm["dims"]
        u.dim_order = [x.strip() for x in md.group(1).split(",")]
        for f in u.dim_order:
            cell("dim." + f, "N", f)
    else:
        u.dim_order = []
    # parameters
    for p in split_top(sx.tokenize(ptext)):
        ids = [v for k, v in p if k == "id" and v != "const"]
        if len(ids) < 2:
            raise OutOfGrammar("%s: parameter %r" % (what, toks_text(p)))
        ty, name = ids[0], sx.nfc(ids[-1])
        if ty == "auto":
            if name in hooks.qrmap:
                if "qrbuf" not in env.cells:
                    cell("qrbuf", "V", "qr", out=True)        # the buffer both callables view
                continue
            if name not in hooks.callables:
                raise OutOfGrammar("%s: callable parameter %s" % (what, name))
            continue
        if ty == "Box":
            cell(name + "#lb", "OV", sx.ascii_name(name) + "_lb")
            cell(name + "#ub", "OV", sx.ascii_name(name) + "_ub")
            env.lams[name] = ("BOX", None, {"lb": name + "#lb", "ub": name + "#ub"})
            continue
        t = {"rvec": "V", "crvec": "V", "bool": "B", "real_t": "S", "index_t": "N", "length_t": "N"}.get(ty)
        if t is None:
            raise OutOfGrammar("%s: parameter type %r" % (what, ty))
        cell(name, t, out=(ty == "rvec"))
    # members this function touches
    used = set(v for k, v in sx.tokenize(body) if k == "id")
    stores = set(re.findall(r"([^\s.(){};,=]+)\.col\(", st))
    for name, (ty, init) in members(st, what).items():
        if name not in used or name in IGNORED_MEMBERS:
            continue
        if ty == "vec" and not re.search(r"%s(?!\.data\(\))" % (r"(?<![\w.])" + re.escape(name) + r"(?![\w])"), body):
            hooks.scratch.add(name)             # a work array only ever mapped (`mmat X{name.data(), r, c}`)
            continue
        if ty == "real_t":
            raise OutOfGrammar("%s: scalar member %s" % (what, name))
        if ty == "vec":
            cell(name, "V", out=True)
        elif name in stores:
            uses = set(re.findall(r"%s\.col\([^()]*\)\.(\w+)" % re.escape(name), st))
            if uses == {"data"}:
                cell(name, "SM", out=True)
            elif uses == {"topRows"}:
                cell(name, "SV", out=True)
            else:
                raise OutOfGrammar("%s: store %s used through %s" % (what, name, sorted(uses)))
        else:
            if len(init) != 2:
                raise OutOfGrammar("%s: shape of the matrix member %s" % (what, name))
            cell(name, "M", out=True)
            p = [OExpr(t, env, u, what) for t in init]
            u.shapes[name] = tuple(sx.coerce(q.simple(q.parse_all()), "N", what) for q in p)
    # outputs: return value, then the by-reference parameters / members the body assigns (in declaration order)
    kinds, changed = X.outcomes(ast, env)
    outs = [o for o in outs if o in changed]

    def shape(env2, r):
        comps = ([r] if r is not None else []) + [u.val(env2, o)[1] for o in outs]
        if not comps:
            raise OutOfGrammar("%s: a function without effect" % what)
        return comps[0] if len(comps) == 1 else "(%s)" % ", ".join(comps)

    def ret(env2, v):
        if v == "throw":
            raise OutOfGrammar("%s: throw" % what)
        if (v is None) != (rty == "void"):
            raise OutOfGrammar("%s: return value" % what)
        return shape(env2, X.ex(v, env2, "S")[1] if v is not None else None)

    def k(env2):
        if rty != "void":
            raise OutOfGrammar("%s: control reaches the end without return" % what)
        return shape(env2, None)
    body_g = X.block(ast, 0, env, k, ret)
    tys = (["T"] if rty != "void" else []) + [sx.GTYPE[env.get(o).ty] for o in outs]
    rtype = tys[0] if len(tys) == 1 else "(%s)%%type" % " * ".join(tys)
    u.defs.append((gname, "%s : %s" % (" ".join(sig), rtype), body_g,
                   "%s::%s — the function; result = (%s)" % (struct, fname, ", ".join((["return value"] if rty != "void" else []) + outs))))
    return u.defs


def units():
    return [
        ("layout", unit_layout),
        ("forward", lambda r: unit_function(r, VARS, "OCPEvaluator", "forward", "g_forward")),
        ("backward", lambda r: unit_function(r, VARS, "OCPEvaluator", "backward", "g_backward")),
        ("factor_masked", lambda r: unit_function(r, LQR, "StatefulLQRFactor", "factor_masked", "g_factor_masked", dims_from_dim=True)),
        ("solve_masked", lambda r: unit_function(r, LQR, "StatefulLQRFactor", "solve_masked", "g_solve_masked", dims_from_dim=True)),
    ]


HEADER = ["From Coq Require Import ZArith List Bool Arith.",
          "From Alpaqa Require Import Num Vec Ocp OcpGenLib.",
          "Import ListNotations.",
          "Local Open Scope num_scope.",
          "",
          "(* every definition takes the same context: the number system, the problem functions F, the LQR callables L, the dense solve,",
          "   the dimensions d of the problem *)",
          ""]
BINDERS = "{T : Type} {HN : Num T} (F : ocp_fns T) (L : lqr_fns T) (lsolve : list (list T) -> list T -> list T) (d : dims)"
CTX_ARGS = "F L lsolve d"
END = "(* end of OcpGen *)"


def write(repo=None, outfile=None, write_ref=False):
    repo = repo or os.environ.get("VERIF_REPO", "/repo")
    outfile = outfile or os.path.join(os.environ.get("VERIF_GEN_OUT") or os.path.join(VERIF, "coq", "gen"), "OcpGen.v")
    return gl.write_generic(repo, outfile, write_ref, units, HEADER, END, REF, "OcpGen.ref.v",
                            "OcpGen.v — by translate/gen_ocp.py", os.path.join(repo, VARS) + " , " + os.path.join(repo, LQR), BINDERS, CTX_ARGS)


if __name__ == "__main__":
    argv = [a for a in sys.argv[1:] if not a.startswith("--")]
    try:
        st = write(*(argv[:2]), write_ref="--write-ref" in sys.argv)
    except OutOfGrammar as ex:
        print(json.dumps({"status": "translator-failed", "detail": str(ex)}, ensure_ascii=False))
        sys.exit(3)
    print(json.dumps(st, ensure_ascii=False, sort_keys=True))
