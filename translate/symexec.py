"""symexec.py — shared engine of translate/gen_lbfgs.py and translate/gen_steihaug.py (not a translator by itself).

A small typed symbolic executor for the statement sequences of a restricted C++ subset, producing Gallina over the `Num` class.

Grammar
  stmt  := '{' stmt* '}' | 'using' ... ';' | decl | 'if' '(' expr ')' stmt ['else' stmt] | 'return' [expr] ';' | 'throw' ... ';'
         | '++' id ';' | id '++' ';' | lvalue ('='|'+='|'-='|'*='|'/='|'|=') expr ';' | call ';'
         | 'for' '(' type id ':' id ')' stmt                      range-for over an index container
         | 'for' '(' type id '=' expr ';' id '<' expr ';' '++' id ')' stmt       ascending   -> seq lo (hi - lo)
         | 'for' '(' type id '=' expr ';' id '--' '>' expr ';' ')' stmt          descending  -> rev (seq lo (hi - lo))
         | 'while' '(' 'true' ')' stmt                             body becomes a step function  result + state
         | ('foreach_rev'|'foreach_fwd'|id) '(' '[' captures ']' '(' type id ')' '{' stmt* '}' ')' ';'     loop over a generated index list
  decl  := ['const'|'static'] type declarator (',' declarator)* ';'      declarator := id '=' expr | '&' id '=' id | '[' id ',' id ']' '=' expr
         | ['const'] 'auto' id '=' '[' captures ']' '(' params ')' '{' stmt* '}' ';'               local lambda, lambda-lifted
  expr  := or ['?' expr ':' expr]; or := and ('||' and)*; and := eq ('&&' eq)*; eq := rel (('=='|'!=') rel)*; rel := sum [cmp sum];
           sum := prod (('+'|'-') prod)*; prod := unary (('*'|'/') unary)*; unary := ('-'|'!'|'not') unary | postfix;
           postfix := atom ('.' id ['(' args ')'])*; atom := literal | '(' expr ')' | dotted-id | dotted-id '(' args ')'
Types: S scalar, V vector, N nat, Z integer, B bool, NL index list, ST store, P2 pair of scalars; numeric literals adapt.
if-statements: a branch either always returns (then the rest is the else-continuation) or never returns (then the variables it
assigns are merged: `let v := if c then .. else .. in`); anything else is out of grammar.
Loops: the variables assigned by the body are the loop state; the body is lambda-lifted into a top-level per-index step Definition
(captured variables become parameters), the loop is `fold_left step <index list> state`.
Strictness (DESIGN §9.4): a using-declaration must be one the client lists (Hooks.known_usings); the tokens of a throw expression
are checked (exception type, literals, names, + ( ) , .); a statement after return / throw / `while (true)` / an if whose branches
both return (unreachable code) is out of grammar.
Everything else raises OutOfGrammar.  Deterministic, python3 stdlib only."""
import re, unicodedata
from fractions import Fraction


class OutOfGrammar(Exception):
    pass


def nfc(s):
    return unicodedata.normalize("NFC", s)


def _idc(c):
    return c.isalnum() or c == "_" or unicodedata.category(c)[0] in ("M", "L", "N")


OPS2 = ("&&", "||", ">=", "<=", "==", "!=", "*=", "/=", "+=", "-=", "|=", "++", "--", "->", "[[", "]]")


def tokenize(s):
    toks, i, n = [], 0, len(s)
    while i < n:
        c = s[i]
        if c.isspace():
            i += 1
        elif c == '"':
            j = s.find('"', i + 1)
            if j < 0:
                raise OutOfGrammar("unterminated string")
            toks.append(("str", s[i:j + 1])); i = j + 1
        elif c.isdigit() or (c == "." and i + 1 < n and s[i + 1].isdigit()):
            j = i
            while j < n and (s[j].isdigit() or s[j] == "."):
                j += 1
            if j < n and (s[j].isalpha() or s[j] == "_"):
                raise OutOfGrammar("literal with suffix/exponent near %r" % s[i:j + 3])
            toks.append(("num", s[i:j])); i = j
        elif _idc(c):
            j = i
            while j < n:
                if _idc(s[j]):
                    j += 1
                elif s.startswith("::", j) and j + 2 < n and _idc(s[j + 2]):
                    j += 2
                else:
                    break
            toks.append(("id", nfc(s[i:j]))); i = j
        elif s[i:i + 2] in OPS2:
            toks.append(("op", s[i:i + 2])); i += 2
        elif c in "+-*/%()<>?:,!;{}=[]&.|":
            toks.append(("op", c)); i += 1
        else:
            raise OutOfGrammar("unexpected character %r" % c)
    return toks


def strip_comments(src):
    src = re.sub(r"/\*.*?\*/", " ", src, flags=re.S)
    return nfc(re.sub(r"//[^\n]*", " ", src))


def flat(s):
    return " ".join(s.split())


def com(s):
    return s.replace("(*", "( *").replace("*)", "* )")


def balanced(src, i, what=""):
    o = src[i]
    c = {"(": ")", "{": "}", "[": "]", "<": ">"}[o]
    depth = 0
    for p in range(i, len(src)):
        if src[p] == o:
            depth += 1
        elif src[p] == c:
            depth -= 1
            if depth == 0:
                return p
    raise OutOfGrammar("%s: unbalanced %s" % (what, o))


def find_function_body(src, pattern, what):
    """the `{...}` body following the unique match of `pattern` (which ends at the opening parenthesis of the parameter list);
    returns (parameter text, body text)"""
    ms = list(re.finditer(pattern, src, flags=re.S))
    if len(ms) != 1:
        raise OutOfGrammar("%s: expected exactly one definition, found %d" % (what, len(ms)))
    m = ms[0]
    k = balanced(src, m.end() - 1, what)
    b = src.find("{", k)
    if b < 0 or not re.fullmatch(r"\s*(const)?\s*", src[k + 1:b]):
        raise OutOfGrammar("%s: unexpected text before the body: %r" % (what, src[k + 1:b][:40]))
    e = balanced(src, b, what)
    return flat(src[m.end():k]), src[b + 1:e]


ASCII = {"γ": "gam", "ψ": "psi", "φ": "phi", "σ": "sig", "β": "beta", "τ": "tau", "ρ": "rho", "Δ": "Del", "ε": "eps", "ϵ": "eps",
         "α": "alpha", "ᵀ": "T", "ₖ": "k", "ₙ": "n", "ₑ": "e", "ₓ": "x", "ₜ": "t", "λ": "lam", "μ": "mu"}


def ascii_name(cid):
    out = []
    for ch in nfc(cid).replace("this->", "m_"):
        if ch.isascii() and (ch.isalnum() or ch == "_"):
            out.append(ch)
        elif ch in ASCII:
            out.append(ASCII[ch])
        elif unicodedata.category(ch).startswith("M"):
            out.append("h")
        else:
            out.append("u%04x" % ord(ch))
    return "".join(out)


GTYPE = {"S": "T", "V": "list T", "N": "nat", "Z": "Z", "B": "bool", "NL": "list nat", "ST": "St", "P2": "(T * T)%type"}


def lit_S(q):
    def z(k):
        return "n0" if k == 0 else "n1" if k == 1 else "n2" if k == 2 else "(nofZ %d%%Z)" % k
    if q.denominator == 1:
        return z(q.numerator)
    if q.denominator & (q.denominator - 1):
        raise OutOfGrammar("non-dyadic literal %s" % q)
    return "(%s / %s)" % (z(q.numerator), z(q.denominator))


def coerce(e, want, what=""):
    t, s = e[0], e[1]
    if t == want:
        return s
    if t == "L":
        if want == "S":
            return lit_S(e[2])
        if want == "N" and e[2].denominator == 1 and e[2] >= 0:
            return "%d%%nat" % e[2].numerator
        if want == "Z" and e[2].denominator == 1:
            return "%d%%Z" % e[2].numerator
    if t == "N" and want == "B":          # `if (idx)`
        return "(negb (Nat.eqb %s 0%%nat))" % s
    raise OutOfGrammar("type %s where %s expected (%s) %s" % (t, want, s, what))


def unify(a, b):
    if a[0] == "L" and b[0] == "L":
        raise OutOfGrammar("operation between two literals (C++ integer arithmetic): %s , %s" % (a[1], b[1]))
    t = b[0] if a[0] == "L" else a[0]
    if t not in ("S", "V", "N", "Z", "B"):
        raise OutOfGrammar("bad operand type " + t)
    return t, coerce(a, t), coerce(b, t)


def arith(op, a, b):
    if op == "*" and a[0] in ("S", "L") and b[0] == "V":
        return ("V", "(vscale %s %s)" % (coerce(a, "S"), b[1]))
    if op == "*" and a[0] == "V" and b[0] in ("S", "L"):
        return ("V", "(map (fun x_ => x_ * %s) %s)" % (coerce(b, "S"), a[1]))
    if a[0] == "N" and b[0] == "L" and b[2] == 1 and op in "+-":
        return ("N", "(S %s)" % a[1] if op == "+" else "(Nat.pred %s)" % a[1])
    if a[0] == "Z" and b[0] == "L" and b[2] == 1 and op in "+-":
        return ("Z", "(Z.succ %s)" % a[1] if op == "+" else "(Z.pred %s)" % a[1])
    t, x, y = unify(a, b)
    if t == "S" and op in "+-*/":
        return ("S", "(%s %s %s)" % (x, op, y))
    if t == "N" and op in "+-*":
        return ("N", "(%s %s %s)" % ({"+": "Nat.add", "-": "Nat.sub", "*": "Nat.mul"}[op], x, y))
    if t == "Z" and op in "+-*":
        return ("Z", "(%s %s %s)" % ({"+": "Z.add", "-": "Z.sub", "*": "Z.mul"}[op], x, y))
    if t == "V" and op in "+-":
        return ("V", "(%s %s %s)" % ("vadd" if op == "+" else "vsub", x, y))
    raise OutOfGrammar("operator %s on type %s" % (op, t))


def compare(op, a, b):
    t, x, y = unify(a, b)
    if t == "S":
        return ("B", {"<": "(%s <? %s)" % (x, y), ">": "(%s <? %s)" % (y, x), "<=": "(%s <=? %s)" % (x, y),
                      ">=": "(%s <=? %s)" % (y, x), "==": "(%s =? %s)" % (x, y), "!=": "(negb (%s =? %s))" % (x, y)}[op])
    if t in ("N", "Z"):
        M = "Nat" if t == "N" else "Z"
        return ("B", {"<": "(%s.ltb %s %s)" % (M, x, y), ">": "(%s.ltb %s %s)" % (M, y, x), "<=": "(%s.leb %s %s)" % (M, x, y),
                      ">=": "(%s.leb %s %s)" % (M, y, x), "==": "(%s.eqb %s %s)" % (M, x, y), "!=": "(negb (%s.eqb %s %s))" % (M, x, y)}[op])
    if t == "B" and op in ("==", "!="):
        return ("B", "(Bool.eqb %s %s)" % (x, y) if op == "==" else "(negb (Bool.eqb %s %s))" % (x, y))
    raise OutOfGrammar("comparison %s on type %s" % (op, t))


# ----------------------------------------------------------------------------- statements -> AST

TYPES = {"real_t": "S", "auto": None, "bool": "B", "index_t": "N", "length_t": "N", "unsigned": "N", "int": "Z"}
ASSIGN_OPS = ("=", "+=", "-=", "*=", "/=", "|=")


class StmtParser:
    def __init__(self, text, what, int_type="N"):
        text = re.sub(r"static_cast\s*<\s*(real_t|index_t|length_t)\s*>\s*\(", r"\1(", text)
        self.t = tokenize(text)
        self.i = 0
        self.what = what
        self.int_type = int_type

    def peek(self, k=0):
        return self.t[self.i + k] if self.i + k < len(self.t) else (None, None)

    def at(self, kind, val, k=0):
        return self.peek(k) == (kind, val)

    def eat(self, kind=None, val=None):
        k, v = self.peek()
        if k is None or (kind and k != kind) or (val is not None and v != val):
            raise OutOfGrammar("%s: expected %s %s, found %r" % (self.what, kind or "", val or "", v))
        self.i += 1
        return v

    def until(self, stops, consume=True):
        """tokens up to the first top-level token in `stops`"""
        depth, out = 0, []
        while True:
            k, v = self.peek()
            if k is None:
                raise OutOfGrammar("%s: unexpected end looking for %s" % (self.what, stops))
            if k == "op" and depth == 0 and v in stops:
                if consume:
                    self.i += 1
                return out, v
            if k == "op" and v in "({[":
                depth += 1
            elif k == "op" and v in ")}]":
                depth -= 1
                if depth < 0:
                    raise OutOfGrammar("%s: unbalanced" % self.what)
            out.append((k, v)); self.i += 1

    def group(self, o, c):
        """tokens of a balanced group starting at the current token `o`"""
        self.eat("op", o)
        depth, out = 1, []
        while True:
            k, v = self.peek()
            if k is None:
                raise OutOfGrammar("%s: unbalanced %s" % (self.what, o))
            self.i += 1
            if (k, v) == ("op", o):
                depth += 1
            elif (k, v) == ("op", c):
                depth -= 1
                if depth == 0:
                    return out
            out.append((k, v))

    def block(self):
        out = []
        while self.peek()[0] is not None and not self.at("op", "}"):
            s = self.stmt()
            if s is not None:
                out.append(s)
        return out

    def sub(self, toks):
        p = StmtParser("", self.what, self.int_type)
        p.t = toks
        return p

    def stmt(self):
        k, v = self.peek()
        if (k, v) == ("op", "{"):
            self.eat()
            b = self.block()
            self.eat("op", "}")
            return ("block", b)
        if (k, v) == ("op", ";"):
            self.eat()
            return None
        if (k, v) == ("id", "using"):
            toks, _ = self.until(";")
            return ("using", "".join(t[1] + (" " if t[0] == "id" else "") for t in toks).strip())
        if (k, v) == ("id", "if"):
            self.eat()
            c = self.group("(", ")")
            a = self.stmt()
            b = None
            if self.at("id", "else"):
                self.eat()
                b = self.stmt()
            return ("if", c, as_block(a), as_block(b) if b is not None else None)
        if (k, v) == ("id", "return"):
            self.eat()
            e, _ = self.until(";")
            return ("return", e or None)
        if (k, v) == ("id", "throw"):
            self.eat()
            toks, _ = self.until(";")
            # the exception object is not translated, but its tokens are accounted for: <exception type>(<literals and
            # conversions of names, concatenated>)
            if not toks or toks[0][0] != "id" or not re.search(r"(error|_argument|_range|exception)$", toks[0][1]):
                raise OutOfGrammar("%s: throw of %r" % (self.what, " ".join(t[1] for t in toks)[:40]))
            for kk, vv in toks[1:]:
                if not (kk in ("str", "id", "num") or (kk == "op" and vv in ("+", "(", ")", ",", "."))):
                    raise OutOfGrammar("%s: %r in a throw expression" % (self.what, vv))
            return ("throw",)
        if (k, v) == ("id", "while"):
            self.eat()
            c = self.group("(", ")")
            if c != [("id", "true")]:
                raise OutOfGrammar("%s: while condition other than `true`" % self.what)
            return ("while_true", as_block(self.stmt()))
        if (k, v) == ("id", "for"):
            self.eat()
            return self.for_(self.group("(", ")"))
        if (k, v) == ("op", "++") and self.peek(1)[0] == "id" and self.at("op", ";", 2):
            self.eat(); n = self.eat("id"); self.eat()
            return ("incr", n)
        if k == "id" and self.at("op", "++", 1) and self.at("op", ";", 2):
            n = self.eat("id"); self.eat(); self.eat()
            return ("incr", n)
        # declarations
        j = 0
        while self.peek(j) in (("id", "const"), ("id", "static"), ("id", "constexpr")):
            j += 1
        tk = self.peek(j)
        if tk[0] == "id" and tk[1] in TYPES and (self.peek(j + 1)[0] == "id" or self.peek(j + 1) in (("op", "&"), ("op", "["))):
            self.i += j + 1
            return self.decl(tk[1])
        # loop call with a lambda argument:  name([&](index_t i) { ... });
        if k == "id" and self.at("op", "(", 1) and self.at("op", "[", 2):
            name = self.eat("id")
            inner = self.sub(self.group("(", ")"))
            self.eat("op", ";")
            inner.group("[", "]")
            ps = inner.group("(", ")")
            if len(ps) != 2 or ps[0][1] not in ("index_t", "length_t"):
                raise OutOfGrammar("%s: loop lambda parameters %r" % (self.what, ps))
            body = inner.sub(inner.group("{", "}")).block()
            if inner.peek()[0] is not None:
                raise OutOfGrammar("%s: extra arguments of %s" % (self.what, name))
            return ("foreach", name, ps[1][1], body)
        # expression statement
        toks, _ = self.until(";")
        depth = 0
        for p, (kk, vv) in enumerate(toks):
            if kk == "op" and vv in "([{":
                depth += 1
            elif kk == "op" and vv in ")]}":
                depth -= 1
            elif kk == "op" and depth == 0 and vv in ASSIGN_OPS:
                return ("assign", toks[:p], vv, toks[p + 1:])
        return ("call", toks)

    def for_(self, hdr):
        body = None
        parts, cur, depth = [], [], 0
        for kk, vv in hdr:
            if kk == "op" and vv in "([{":
                depth += 1
            elif kk == "op" and vv in ")]}":
                depth -= 1
            if (kk, vv) == ("op", ";") and depth == 0:
                parts.append(cur); cur = []
            else:
                cur.append((kk, vv))
        parts.append(cur)
        body = as_block(self.stmt())
        if len(parts) == 1:
            p = parts[0]
            if len(p) >= 4 and p[-2] == ("op", ":") and p[-1][0] == "id" and p[-3][0] == "id":
                return ("for_range", p[-3][1], p[-1][1], body)
            raise OutOfGrammar("%s: range-for header" % self.what)
        if len(parts) != 3:
            raise OutOfGrammar("%s: for header" % self.what)
        init, cond, inc = parts
        if len(init) < 4 or init[0][1] not in TYPES or init[1][0] != "id" or init[2] != ("op", "="):
            raise OutOfGrammar("%s: for init" % self.what)
        var, lo = init[1][1], init[3:]
        if len(cond) >= 3 and cond[0] == ("id", var) and cond[1] == ("op", "<") and inc in ([("op", "++"), ("id", var)], [("id", var), ("op", "++")]):
            return ("for_up", var, lo, cond[2:], body)
        if len(cond) >= 4 and cond[0] == ("id", var) and cond[1] == ("op", "--") and cond[2] == ("op", ">") and inc == []:
            return ("for_down", var, lo, cond[3:], body)
        raise OutOfGrammar("%s: for header shape" % self.what)

    def decl(self, ty):
        out = []
        while True:
            if self.at("op", "["):
                names = [t[1] for t in self.group("[", "]") if t[0] == "id"]
                self.eat("op", "=")
                e, stop = self.until(";,")
                out.append(("decl_tuple", names, e))
            elif self.at("op", "&"):
                self.eat()
                n = self.eat("id"); self.eat("op", "=")
                e, stop = self.until(";,")
                if len(e) != 1 or e[0][0] != "id":
                    raise OutOfGrammar("%s: reference to a non-variable" % self.what)
                out.append(("decl_ref", n, e[0][1]))
            else:
                n = self.eat("id")
                self.eat("op", "=")
                if self.at("op", "["):
                    caps = self.group("[", "]")
                    ps = self.group("(", ")")
                    body = self.sub(self.group("{", "}")).block()
                    self.eat("op", ";")
                    out.append(("lambda", n, caps, ps, body))
                    return seq(out)
                e, stop = self.until(";,")
                out.append(("decl", ty, n, e))
            if stop == ";":
                return seq(out)


def seq(l):
    return l[0] if len(l) == 1 else ("block_flat", l)


def as_block(s):
    if s is None:
        return []
    if s[0] == "block":
        return s[1]
    return [s]


def parse_body(text, what):
    p = StmtParser(text, what)
    b = p.block()
    if p.peek()[0] is not None:
        raise OutOfGrammar("%s: trailing tokens from %r" % (what, p.peek()[1]))
    return b


# ----------------------------------------------------------------------------- executor

class Cell:
    __slots__ = ("ty", "val")

    def __init__(self, ty, val):
        self.ty, self.val = ty, val


class Env:
    """name -> Cell (functional copies at branches); alias: name -> name"""

    def __init__(self):
        self.cells = {}
        self.alias = {}
        self.lams = {}

    def copy(self):
        e = Env()
        e.cells = dict(self.cells)
        e.alias = dict(self.alias)
        e.lams = dict(self.lams)
        return e

    def res(self, n):
        seen = 0
        while n in self.alias and seen < 10:
            n = self.alias[n]; seen += 1
        return n

    def has(self, n):
        return self.res(n) in self.cells

    def get(self, n):
        return self.cells[self.res(n)]

    def set(self, n, ty, val):
        self.cells[self.res(n)] = Cell(ty, val)


class Unit:
    """one translated C++ function: collects the lambda-lifted Definitions and the final Definition"""

    def __init__(self, name, hooks):
        self.name = name            # prefix of generated names, e.g. g_apply
        self.h = hooks
        self.defs = []              # (name, signature, body, comment)
        self.cnt = 0
        self.types = {}             # ident -> type code
        self.reads = None           # list of idents read (when tracking)
        self.loops = {}
        self.int_type = "N"         # type of integer declarations initialised by a literal (index_t i = 0)
        self.scratch = set()        # work buffers a lambda may overwrite (their contents are never read afterwards)
        self.scope = name           # prefix of the names of lambda-lifted loop bodies (the enclosing lambda, if any)
        self.store = "st"           # name of the store cell

    def fresh(self, base, ty):
        self.cnt += 1
        n = "%s_%d" % (base, self.cnt)
        self.types[n] = ty
        return n

    def note(self, ident):
        if self.reads is not None and ident not in self.reads:
            self.reads.append(ident)

    def val(self, env, name):
        c = env.get(name)
        self.note(c.val)
        return (c.ty, c.val)


class Expr:
    """typed expression parser over a token list"""

    def __init__(self, toks, env, unit, what):
        self.t = toks
        self.i = 0
        self.env = env
        self.u = unit
        self.what = what

    def peek(self, k=0):
        return self.t[self.i + k] if self.i + k < len(self.t) else (None, None)

    def at(self, kind, val):
        return self.peek() == (kind, val)

    def eat(self, kind=None, val=None):
        k, v = self.peek()
        if k is None or (kind and k != kind) or (val is not None and v != val):
            raise OutOfGrammar("%s: expected %s %s, found %r" % (self.what, kind or "", val or "", v))
        self.i += 1
        return v

    def end(self):
        if self.i != len(self.t):
            raise OutOfGrammar("%s: trailing tokens from %r" % (self.what, self.peek()[1]))

    def expr(self):
        c = self.lor()
        if self.at("op", "?"):
            self.eat()
            a = self.expr()
            self.eat("op", ":")
            b = self.expr()
            t, x, y = unify(a, b)
            return (t, "(if %s then %s else %s)" % (coerce(c, "B"), x, y))
        return c

    def lor(self):
        a = self.land()
        while self.at("op", "||"):
            self.eat()
            b = self.land()
            a = ("B", "(%s || %s)" % (coerce(a, "B"), coerce(b, "B")))
        return a

    def land(self):
        a = self.equality()
        while self.at("op", "&&"):
            self.eat()
            b = self.equality()
            a = ("B", "(%s && %s)" % (coerce(a, "B"), coerce(b, "B")))
        return a

    def equality(self):
        a = self.rel()
        while self.peek() in (("op", "=="), ("op", "!=")):
            op = self.eat()
            a = compare(op, a, self.rel())
        return a

    def rel(self):
        a = self.sum()
        if self.peek() in (("op", "<"), ("op", ">"), ("op", "<="), ("op", ">=")):
            op = self.eat()
            a = compare(op, a, self.sum())
        return a

    def sum(self):
        a = self.prod()
        while self.peek() in (("op", "+"), ("op", "-")):
            op = self.eat()
            a = arith(op, a, self.prod())
        return a

    def prod(self):
        a = self.unary()
        while self.peek() in (("op", "*"), ("op", "/")):
            op = self.eat()
            a = arith(op, a, self.unary())
        return a

    def unary(self):
        k, v = self.peek()
        if (k, v) == ("op", "-"):
            self.eat()
            e = self.unary()
            if e[0] == "V":
                return ("V", "(vneg %s)" % e[1])
            return ("S", "(- %s)" % coerce(e, "S"))
        if (k, v) in (("op", "!"), ("id", "not")):
            self.eat()
            return ("B", "(negb %s)" % coerce(self.unary(), "B"))
        return self.postfix()

    def args(self):
        self.eat("op", "(")
        out = []
        if not self.at("op", ")"):
            out.append(self.expr())
            while self.at("op", ","):
                self.eat()
                out.append(self.expr())
        self.eat("op", ")")
        return out

    def arg_tokens(self):
        """the token lists of the arguments of a call (unparsed)"""
        self.eat("op", "(")
        out, cur, depth = [], [], 0
        while True:
            k, v = self.peek()
            if k is None:
                raise OutOfGrammar("%s: unbalanced call" % self.what)
            self.i += 1
            if k == "op" and v in "([{":
                depth += 1
            elif k == "op" and v in ")]}":
                if depth == 0:
                    if cur or out:
                        out.append(cur)
                    return out
                depth -= 1
            if (k, v) == ("op", ",") and depth == 0:
                out.append(cur); cur = []
            else:
                cur.append((k, v))

    def method(self, e, m):
        """e.m(args)"""
        if e[0] == "V":
            if m in ("dot",):
                a = self.args()
                if len(a) != 1:
                    raise OutOfGrammar("%s: arity of dot" % self.what)
                return ("S", "(vdot %s %s)" % (e[1], coerce(a[0], "V")))
            if m in ("squaredNorm", "norm", "size", "rows"):
                if self.args():
                    raise OutOfGrammar("%s: %s takes no argument" % (self.what, m))
                return {"squaredNorm": ("S", "(vsqnorm %s)" % e[1]), "norm": ("S", "(vnorm2 %s)" % e[1]),
                        "size": ("N", "(length %s)" % e[1]), "rows": ("N", "(length %s)" % e[1])}[m]
        if e[0] == "NL" and m == "size":
            if self.args():
                raise OutOfGrammar("%s: size takes no argument" % self.what)
            return ("N", "(length %s)" % e[1])
        raise OutOfGrammar("%s: method %s on type %s" % (self.what, m, e[0]))

    def postfix(self):
        e = self.atom()
        while self.at("op", ".") or self.at("op", "->"):
            self.eat()
            m = self.eat("id")
            e = self.method(e, m)
        return e

    def dotted(self):
        """longest chain id(.id)* ; returns the list of components"""
        parts = [self.eat("id")]
        while self.peek() in (("op", "."), ("op", "->")) and self.peek(1)[0] == "id":
            self.eat()
            parts.append(self.eat("id"))
        return parts

    def atom(self):
        k, v = self.peek()
        if k == "num":
            self.eat()
            try:
                return ("L", v, Fraction(v))
            except ValueError:
                raise OutOfGrammar("bad number %r" % v)
        if (k, v) == ("op", "("):
            self.eat()
            e = self.expr()
            self.eat("op", ")")
            return e
        if k != "id":
            raise OutOfGrammar("%s: unexpected token %r" % (self.what, v))
        parts = self.dotted()
        # longest prefix known to the environment / hooks
        for cut in range(len(parts), 0, -1):
            name = ".".join(parts[:cut])
            rest = parts[cut:]
            call = (not rest) and self.at("op", "(")
            r = self.resolve(name, call, bool(rest))
            if r is not None:
                e = r
                for j, m in enumerate(rest):
                    if j == len(rest) - 1 and self.at("op", "("):
                        e = self.method(e, m)
                    else:
                        raise OutOfGrammar("%s: member %s of %s" % (self.what, m, name))
                return e
        raise OutOfGrammar("%s: unknown identifier %r" % (self.what, ".".join(parts)))

    def resolve(self, name, call, has_rest):
        env, u = self.env, self.u
        if name in ("true", "false") and not call:
            return ("B", name)
        if name in env.lams and call:
            return u.h.call_lambda(self, name)
        if env.has(name):
            c = env.get(name)
            if call and c.ty == "V":           # coefficient access v(j)
                a = self.args()
                if len(a) != 1:
                    raise OutOfGrammar("%s: coefficient access arity" % self.what)
                u.note(c.val)
                return ("S", "(nth %s %s n0)" % (coerce(a[0], "N"), c.val))
            if call:
                return None
            return u.val(env, name)
        if call:
            if name in ("std::abs", "std::sqrt", "std::isfinite", "std::isnan", "real_t"):
                sp = u.h.special_call(self, name)
                if sp is not None:
                    return sp
                a = self.args()
                if len(a) != 1:
                    raise OutOfGrammar("%s: arity of %s" % (self.what, name))
                if name == "real_t":
                    if a[0][0] == "N":
                        return ("S", "(nofZ (Z.of_nat %s))" % a[0][1])
                    return ("S", coerce(a[0], "S"))
                if name in ("std::isfinite", "std::isnan"):
                    return ("B", "(%s %s)" % ("nfinite" if name == "std::isfinite" else "nisnan", coerce(a[0], "S")))
                return ("S", "(%s %s)" % ("nabs" if name == "std::abs" else "nsqrt", coerce(a[0], "S")))
            if name in ("index_t", "length_t"):
                a = self.args()
                if len(a) != 1 or a[0][0] not in ("N", "Z"):
                    raise OutOfGrammar("%s: integer cast" % self.what)
                return a[0]
            if name in ("std::max", "std::min", "std::fmax", "std::fmin", "std::copysign", "std::pow"):
                a = self.args()
                if len(a) != 2:
                    raise OutOfGrammar("%s: arity of %s" % (self.what, name))
                f = {"std::max": "cmax", "std::min": "cmin", "std::fmax": "nfmax", "std::fmin": "nfmin", "std::copysign": "gcopysign",
                     "std::pow": "pw"}[name]
                return ("S", "(%s %s %s)" % (f, coerce(a[0], "S"), coerce(a[1], "S")))
            if name == "std::make_tuple":
                a = self.args()
                if len(a) != 2:
                    raise OutOfGrammar("%s: make_tuple arity" % self.what)
                return ("P2", "(%s, %s)" % (coerce(a[0], "S"), coerce(a[1], "S")))
        return u.h.resolve(self, name, call, has_rest)


class Hooks:
    """client-specific names; override in the translators"""
    known_usings = ()           # using-declarations (as StmtParser renders them) a unit may contain

    def resolve(self, ex, name, call, has_rest):
        return None

    def special_call(self, ex, name):
        return None

    def assign_special(self, X, env, lhs, op, rhs, rest):
        """-> Gallina text of the statement and its continuation, or None"""
        return None

    def call_stmt(self, X, env, toks, rest):
        """-> Gallina text of the statement and its continuation, or None"""
        return None

    def loop_tag(self, fname):
        return ascii_name(fname)

    def loop_body_ok(self, body_text):
        """the index list / bounds of a loop are evaluated once at loop entry: the body must not change what they depend on"""
        return True

    def while_true(self, X, env, body, rest, ret):
        raise OutOfGrammar("while (true) loop")

    def loop_order(self, X, env, name):
        """index list expression of a named loop function (foreach_rev / foreach_fwd)"""
        return None

    def call_lambda(self, ex, name):
        return ex.u.X.call_lambda_expr(ex, name)


class Exec:
    """CPS symbolic execution of a statement list.  `ret(env, value-or-None)` renders a return, `k(env)` the fall-through."""

    def __init__(self, unit, what):
        self.u = unit
        unit.X = self
        self.what = what
        self.dry = 0

    # ---- helpers
    def ex(self, toks, env, want=None):
        p = Expr(toks, env, self.u, self.what)
        e = p.expr()
        p.end()
        if want:
            return (want, coerce(e, want, self.what))
        return e

    def let(self, name, val, rest):
        return "let %s := %s in\n    %s" % (name, val, rest)

    def bind(self, env, cname, ty, val, k, base=None):
        """cell cname := val (fresh ident), continue with k"""
        env = env.copy()
        ident = self.u.fresh(base or ("l_" + ascii_name(cname)), ty)
        env.set(cname, ty, ident)
        return self.let(ident, val, k(env))

    # ---- classification by dry run
    def outcomes(self, stmts, env):
        """(set of exit kinds {'ret','fall'}, set of names whose binding changed at some exit)"""
        kinds, changed = set(), set()
        fall = set()
        base = dict((n, c.val) for n, c in env.cells.items())
        save_cnt, save_reads, save_defs = self.u.cnt, self.u.reads, list(self.u.defs)
        save_types, save_loops = dict(self.u.types), dict(self.u.loops)
        self.u.reads = None
        self.dry += 1

        def diff(e2):
            for n, c in e2.cells.items():
                if n in base and base[n] != c.val:
                    changed.add(n)

        def k(e2):
            kinds.add("fall"); diff(e2)
            for n, c in e2.cells.items():
                if n in base and base[n] != c.val:
                    fall.add(n)
            return "_"

        def ret(e2, v):
            kinds.add("ret"); diff(e2); return "_"
        try:
            self.block(stmts, 0, env.copy(), k, ret)
        finally:
            self.dry -= 1
            self.u.cnt, self.u.reads, self.u.defs, self.u.types, self.u.loops = save_cnt, save_reads, save_defs, save_types, save_loops
        self.changed_fall = fall
        return kinds, changed

    def ordered(self, env, names):
        return [n for n in env.cells if n in names]

    # ---- statements
    def block(self, stmts, i, env, k, ret):
        if i == len(stmts):
            return k(env)
        s = stmts[i]
        rest = lambda e: self.block(stmts, i + 1, e, k, ret)
        tag = s[0]
        if tag == "block":
            # the declarations of the inner scope end with it: the continuation sees the outer names only (with their new values)
            def leave(e2, outer=env):
                e3 = outer.copy()
                for n in outer.cells:
                    e3.cells[n] = e2.cells[n]
                return rest(e3)
            return self.block(s[1], 0, env, leave, ret)
        if tag == "block_flat":
            return self.block(s[1], 0, env, rest, ret)
        if tag == "using":
            # a using-declaration changes what names mean: only the ones the client knows (Hooks.known_usings) are accepted
            if s[1] not in self.u.h.known_usings:
                raise OutOfGrammar("%s: using-declaration %r" % (self.what, s[1]))
            return rest(env)
        if tag == "while_true" and i + 1 < len(stmts):
            raise OutOfGrammar("%s: statement after `while (true)` (unreachable)" % self.what)
        if tag in ("return", "throw") and i + 1 < len(stmts):
            raise OutOfGrammar("%s: statement after %s in the same block (unreachable)" % (self.what, tag))
        if tag == "return":
            return ret(env, s[1])
        if tag == "throw":
            return ret(env, "throw")
        if tag == "decl":
            _, ty, name, toks = s
            # `auto z = v(x)` with v a view lambda: z is another name of x
            if len(toks) >= 4 and toks[0][0] == "id" and toks[0][1] in env.lams and env.lams[toks[0][1]].get("view") \
                    and toks[1] == ("op", "(") and toks[-1] == ("op", ")"):
                target = "".join(t[1] for t in toks[2:-1])
                if not env.has(target):
                    raise OutOfGrammar("%s: view of unknown %r" % (self.what, target))
                env = env.copy()
                env.alias[name] = env.res(target)
                return rest(env)
            e = self.ex(toks, env)
            want = TYPES.get(ty)
            if want in ("N", "Z"):
                want = e[0] if e[0] in ("N", "Z") else self.u.int_type
            if want is None:
                if e[0] == "L":
                    raise OutOfGrammar("%s: auto %s = literal" % (self.what, name))
                want = e[0]
            return self.bind(env, name, want, coerce(e, want, self.what), rest)
        if tag == "decl_ref":
            env = env.copy()
            if not env.has(s[2]):
                raise OutOfGrammar("%s: reference to unknown %r" % (self.what, s[2]))
            env.alias[s[1]] = env.res(s[2])
            return rest(env)
        if tag == "decl_tuple":
            e = self.ex(s[2], env)
            if e[0] != "P2" or len(s[1]) != 2:
                raise OutOfGrammar("%s: structured binding of a non-pair" % self.what)
            env = env.copy()
            a = self.u.fresh("l_" + ascii_name(s[1][0]), "S")
            b = self.u.fresh("l_" + ascii_name(s[1][1]), "S")
            env.cells[s[1][0]] = Cell("S", a)
            env.cells[s[1][1]] = Cell("S", b)
            return "let '(%s, %s) := %s in\n    %s" % (a, b, e[1], rest(env))
        if tag == "lambda":
            env = env.copy()
            lam = {"name": s[1], "caps": s[2], "params": s[3], "body": s[4], "inst": None}
            # `[n](auto &v) { return v.topRows(n); }`: a view of the first n rows of a work vector of that size = the vector itself
            b = s[4]
            if len(b) == 1 and b[0][0] == "return" and b[0][1] and len(b[0][1]) == 6 and b[0][1][1] == ("op", ".") \
                    and b[0][1][2] == ("id", "topRows") and b[0][1][0][0] == "id" and ("id", b[0][1][0][1]) in s[3]:
                lam["view"] = True
            env.lams[s[1]] = lam
            return rest(env)
        if tag == "incr":
            c = self.u.val(env, s[1])
            if c[0] not in ("N", "Z"):
                raise OutOfGrammar("%s: ++ on type %s" % (self.what, c[0]))
            return self.bind(env, s[1], c[0], "(S %s)" % c[1] if c[0] == "N" else "(Z.succ %s)" % c[1], rest)
        if tag == "assign":
            return self.assign(env, s[1], s[2], s[3], rest)
        if tag == "call":
            return self.call_stmt(env, s[1], rest)
        if tag == "if":
            return self.if_(env, s, rest, ret, i + 1 < len(stmts))
        if tag in ("for_range", "for_up", "for_down", "foreach"):
            return self.loop(env, s, rest)
        if tag == "while_true":
            return self.while_true(env, s[1])
        raise OutOfGrammar("%s: statement %s" % (self.what, tag))

    def if_(self, env, s, rest, ret, has_rest=False):
        _, ctoks, tb, eb = s
        c = self.ex(ctoks, env, "B")[1]
        kt, ct = self.outcomes(tb, env)
        ke, ce = self.outcomes(eb, env) if eb is not None else ({"fall"}, set())
        if has_rest and kt == {"ret"} and ke == {"ret"}:
            raise OutOfGrammar("%s: statement after an if whose branches both return (unreachable)" % self.what)
        if kt == {"ret"}:
            a = self.block(tb, 0, env, lambda e: self.oog("fall-through after a returning branch"), ret)
            b = self.block(eb, 0, env, rest, ret) if eb is not None else rest(env)
            return "if %s then\n    %s\n    else\n    %s" % (c, a, b)
        if kt == {"fall"} and ke == {"ret"}:
            b = self.block(eb, 0, env, lambda e: self.oog("fall-through after a returning branch"), ret)
            a = self.block(tb, 0, env, rest, ret)
            return "if %s then\n    %s\n    else\n    %s" % (c, a, b)
        if kt <= {"fall"} and ke <= {"fall"}:
            names = self.ordered(env, ct | ce)
            if not names:
                return rest(env)           # a branch without effect on the translated state

            def tup(e2):
                vs = [self.u.val(e2, n)[1] for n in names]
                return vs[0] if len(vs) == 1 else "(%s)" % ", ".join(vs)
            a = self.block(tb, 0, env, tup, ret)
            b = self.block(eb, 0, env, tup, ret) if eb is not None else tup(env)
            env2 = env.copy()
            ids = []
            for n in names:
                ty = env.get(n).ty
                ident = self.u.fresh(self.base(n, ty), ty)
                env2.set(n, ty, ident)
                ids.append(ident)
            pat = ids[0] if len(ids) == 1 else "'(%s)" % ", ".join(ids)
            return "let %s := (if %s then %s else %s) in\n    %s" % (pat, c, a, b, rest(env2))
        # a branch that returns on some paths only: the continuation is duplicated into both branches
        a = self.block(tb, 0, env, rest, ret)
        b = self.block(eb, 0, env, rest, ret) if eb is not None else rest(env)
        return "if %s then\n    %s\n    else\n    %s" % (c, a, b)

    def base(self, n, ty):
        return "st" if ty == "ST" else "l_" + ascii_name(n)

    def oog(self, msg):
        raise OutOfGrammar("%s: %s" % (self.what, msg))

    def assign(self, env, lhs, op, rhs, rest):
        r = self.u.h.assign_special(self, env, lhs, op, rhs, rest)
        if r is not None:
            return r
        # plain variable
        if len(lhs) == 1 and lhs[0][0] == "id" and env.has(lhs[0][1]):
            n = lhs[0][1]
            cur = self.u.val(env, n) if op != "=" else None
            ty = env.get(n).ty
            e = self.ex(rhs, env)
            return self.bind(env, n, ty, self.compound(ty, cur, op, e), rest, base=self.base(n, ty))
        # coefficient  v(j) op= e
        if len(lhs) >= 4 and lhs[0][0] == "id" and lhs[1] == ("op", "(") and lhs[-1] == ("op", ")") and env.has(lhs[0][1]) \
                and env.get(lhs[0][1]).ty == "V":
            n = lhs[0][1]
            v = self.u.val(env, n)[1]
            j = self.ex(lhs[2:-1], env, "N")[1]
            e = self.ex(rhs, env)
            new = self.compound("S", ("S", "(nth %s %s n0)" % (j, v)), op, e)
            return self.bind(env, n, "V", "(vupd %s %s %s)" % (v, j, new), rest)
        raise OutOfGrammar("%s: assignment to %r" % (self.what, " ".join(t[1] for t in lhs)))

    def compound(self, ty, cur, op, e):
        if op == "=":
            return coerce(e, ty, self.what)
        if op == "|=":
            return "(%s || %s)" % (cur[1], coerce(e, "B", self.what))
        if ty == "V" and op == "*=":
            return "(vscale %s %s)" % (coerce(e, "S", self.what), cur[1])
        r = arith(op[0], cur, e)
        return coerce(r, ty, self.what)

    def call_stmt(self, env, toks, rest):
        r = self.u.h.call_stmt(self, env, toks, rest)
        if r is not None:
            return r
        # lambda call with by-reference parameters
        if toks and toks[0][0] == "id" and toks[0][1] in env.lams and toks[1] == ("op", "("):
            p = Expr(toks, env, self.u, self.what)
            p.eat("id")
            val, outs = self.call_lambda(p, toks[0][1], want_outs=True)
            p.end()
            if val is not None and not outs:
                return rest(env)
            if val is not None:
                raise OutOfGrammar("%s: lambda with value and reference results as a statement" % self.what)
            env2 = env.copy()
            ids = []
            for (cname, ty, _) in outs:
                ident = self.u.fresh(self.base(cname, ty), ty)
                env2.set(cname, ty, ident)
                ids.append(ident)
            pat = ids[0] if len(ids) == 1 else "'(%s)" % ", ".join(ids)
            return "let %s := %s in\n    %s" % (pat, outs[0][2], rest(env2))
        # v.setZero() / v.setConstant(c)
        if len(toks) >= 5 and toks[0][0] == "id" and toks[1] == ("op", ".") and toks[2][1] in ("setZero", "setConstant") and env.has(toks[0][1]):
            n = toks[0][1]
            v = self.u.val(env, n)[1]
            if toks[2][1] == "setZero":
                if toks[3:] != [("op", "("), ("op", ")")]:
                    raise OutOfGrammar("%s: setZero arguments" % self.what)
                c = "n0"
            else:
                c = self.ex(toks[4:-1], env, "S")[1]
            return self.bind(env, n, "V", "(map (fun _ => %s) %s)" % (c, v), rest)
        raise OutOfGrammar("%s: call statement %r" % (self.what, " ".join(t[1] for t in toks)[:60]))

    # ---- lambdas
    def call_lambda_expr(self, ex, name):
        val, outs = self.call_lambda(ex, name, want_outs=False)
        return val

    def call_lambda(self, ex, name, want_outs):
        """ex is positioned at the '(' of the call.  Returns (value or None, [(cell name, type, call expr)])"""
        env = ex.env
        lam = env.lams[name]
        if lam.get("view"):
            a = ex.args()
            if len(a) != 1 or a[0][0] != "V":
                raise OutOfGrammar("%s: view of a non-vector" % self.what)
            return a[0], []
        argt = ex.arg_tokens()
        ps = split_params(lam["params"])
        if len(ps) != len(argt):
            raise OutOfGrammar("%s: arity of lambda %s" % (self.what, name))
        args = [self.ex(t, env) for t in argt]
        inst = self.instantiate(env, lam, ps, args)
        actual = []
        for (pname, pty, byref), a in zip(inst["params"], args):
            actual.append(coerce(a, pty, self.what))
        caps = [self.u.val(env, c)[1] for c in inst["caps"]]
        callx = "(%s %s)" % (inst["gname"], " ".join(caps + actual))
        outs = []
        for idx in inst["outs"]:
            t = argt[idx]
            if len(t) != 1 or t[0][0] != "id" or not env.has(t[0][1]):
                raise OutOfGrammar("%s: by-reference argument of %s is not a variable" % (self.what, name))
            outs.append((t[0][1], inst["params"][idx][1], callx))
        if outs and not want_outs:
            raise OutOfGrammar("%s: lambda %s modifies its arguments inside an expression" % (self.what, name))
        if len(outs) > 1:
            raise OutOfGrammar("%s: lambda %s modifies several arguments" % (self.what, name))
        if inst["ret"] is not None:
            if outs:
                raise OutOfGrammar("%s: lambda %s returns a value and modifies arguments" % (self.what, name))
            return (inst["ret"], callx), []
        return None, outs

    def instantiate(self, env, lam, ps, args):
        """translate the lambda body once (types from the first call); later calls must agree"""
        tys = []
        for (pname, decl, byref), a in zip(ps, args):
            t = decl or a[0]
            if t == "L":
                t = "S"
            tys.append(t)
        if lam["inst"] is not None:
            if [p[1] for p in lam["inst"]["params"]] != tys:
                raise OutOfGrammar("%s: lambda %s called with different argument types" % (self.what, lam["name"]))
            return lam["inst"]
        u = self.u
        inner = Env()
        inner.lams = dict(env.lams)
        inner.alias = dict(env.alias)
        for n, c in env.cells.items():
            inner.cells[n] = c
        pids = []
        for (pname, decl, byref), t in zip(ps, tys):
            ident = "a_" + ascii_name(pname)
            u.types[ident] = t
            inner.cells[pname] = Cell(t, ident)
            inner.alias.pop(pname, None)
            pids.append(ident)
        # which parameters does the body assign?
        kinds, changed = self.outcomes(lam["body"], inner)
        outs = [i for i, (pname, _, byref) in enumerate(ps) if pname in changed]
        for i in outs:
            if not ps[i][2]:
                raise OutOfGrammar("%s: lambda %s assigns a by-value parameter" % (self.what, lam["name"]))
        foreign = [n for n in changed if n not in [p[0] for p in ps] and n not in self.u.scratch]
        if foreign:
            raise OutOfGrammar("%s: lambda %s assigns captured variables %s" % (self.what, lam["name"], foreign))
        rty = [None]

        def ret(e2, v):
            if v is None or v == "throw":
                raise OutOfGrammar("%s: lambda %s: bare return / throw" % (self.what, lam["name"]))
            e = self.ex(v, e2)
            t = "S" if e[0] == "L" else e[0]
            if rty[0] not in (None, t):
                raise OutOfGrammar("%s: lambda %s returns different types" % (self.what, lam["name"]))
            rty[0] = t
            return coerce(e, t, self.what)

        def k(e2):
            if not outs:
                raise OutOfGrammar("%s: lambda %s falls through without effect" % (self.what, lam["name"]))
            vs = [u.val(e2, ps[i][0])[1] for i in outs]
            return vs[0] if len(vs) == 1 else "(%s)" % ", ".join(vs)
        save = u.reads
        u.reads = []
        outer_ids = dict((c.val, n) for n, c in env.cells.items())
        save_scope, save_loops = u.scope, u.loops
        u.scope, u.loops = "%s_%s" % (u.name, ascii_name(lam["name"])), {}
        try:
            body = self.block(lam["body"], 0, inner, k, ret)
        finally:
            u.scope, u.loops = save_scope, save_loops
        reads = u.reads
        u.reads = save
        caps = [n for n in env.cells if env.cells[n].val in reads and env.cells[n].val not in pids]
        if rty[0] is not None and outs:
            raise OutOfGrammar("%s: lambda %s returns a value and modifies arguments" % (self.what, lam["name"]))
        gname = "%s_%s" % (u.name, ascii_name(lam["name"]))
        sig = " ".join("(%s : %s)" % (env.get(c).val, GTYPE[env.get(c).ty]) for c in caps)
        sig += " " + " ".join("(%s : %s)" % (i, GTYPE[t]) for i, t in zip(pids, tys))
        rt = GTYPE[rty[0]] if rty[0] else (GTYPE[tys[outs[0]]] if len(outs) == 1 else "(%s)%%type" % " * ".join(GTYPE[tys[i]] for i in outs))
        u.defs.append((gname, "%s : %s" % (sig.strip(), rt), body, "lambda %s" % lam["name"]))
        inst = {"gname": gname, "params": [(p[0], t, p[2]) for p, t in zip(ps, tys)], "caps": caps, "outs": outs, "ret": rty[0]}
        if not self.dry:
            lam["inst"] = inst
        for c in caps:
            u.note(env.get(c).val)
        return inst

    # ---- loops
    def loop(self, env, s, rest):
        u = self.u
        tag = s[0]
        if tag == "for_range":
            _, var, cont, body = s
            c = u.val(env, cont)
            if c[0] != "NL":
                raise OutOfGrammar("%s: range-for over a non-index container" % self.what)
            order, ity = c[1], "N"
        elif tag in ("for_up", "for_down"):
            _, var, lo, hi, body = s
            if tag == "for_down":
                lo, hi = hi, lo
            save_b = u.reads
            u.reads = []
            a, b = self.ex(lo, env), self.ex(hi, env)
            bound_reads = [n for n in env.cells if env.cells[n].val in u.reads]
            if save_b is not None:
                for r in u.reads:
                    if r not in save_b:
                        save_b.append(r)
            u.reads = save_b
            ity = "N"
            bs = coerce(b, "N", self.what)
            if a[0] == "L" and a[2] == 0:
                sq = "(seq 0 %s)" % bs
            else:
                as_ = coerce(a, "N", self.what)
                sq = "(seq %s (Nat.sub %s %s))" % (as_, bs, as_)
            order = sq if tag == "for_up" else "(rev %s)" % sq
        else:
            _, fname, var, body = s
            order = u.h.loop_order(self, env, fname)
            if order is None:
                raise OutOfGrammar("%s: unknown loop function %s" % (self.what, fname))
            ity = "N"
        inner = env.copy()
        ivar = "i_" + ascii_name(var)
        u.types[ivar] = ity
        inner.cells[var] = Cell(ity, ivar)
        kinds, changed = self.outcomes_loop(body, inner, tag == "foreach")
        names = self.ordered(env, changed - {var})
        if not names:
            return rest(env)
        if tag in ("for_up", "for_down") and [n for n in bound_reads if n in names and env.get(n).ty != "ST"]:
            raise OutOfGrammar("%s: the bounds of a for loop depend on a variable its body assigns" % self.what)
        # state parameters of the step function
        inner2 = inner.copy()
        sids = []
        for n in names:
            ty = env.get(n).ty
            ident = "%s_in" % ("st" if ty == "ST" else "s_" + ascii_name(n))
            u.types[ident] = ty
            inner2.set(n, ty, ident)
            sids.append(ident)

        def tup(e2):
            vs = [u.val(e2, n)[1] for n in names]
            return vs[0] if len(vs) == 1 else "(%s)" % ", ".join(vs)

        def lret(e2, v):
            if tag != "foreach" or v is not None:
                raise OutOfGrammar("%s: return inside a for loop" % self.what)
            return tup(e2)
        save = u.reads
        u.reads = []
        outer_ids = dict((c.val, n) for n, c in env.cells.items())
        bodyx = self.block(body, 0, inner2, tup, lret)
        reads = u.reads
        u.reads = save
        if not u.h.loop_body_ok(bodyx):
            raise OutOfGrammar("%s: a loop body changes what its index list / bounds were computed from" % self.what)
        caps = [n for n in env.cells if env.cells[n].val in reads and n not in names]
        kind = {"for_range": "for", "for_up": "for", "for_down": "for"}.get(tag) or u.h.loop_tag(s[1])
        u.loops[kind] = u.loops.get(kind, 0) + 1
        gname = "%s_%s%s_step" % (u.scope, kind, "" if u.loops[kind] == 1 and kind != "for" else str(u.loops[kind]))
        sig = " ".join(["(%s : %s)" % (env.get(c).val, GTYPE[env.get(c).ty]) for c in caps] +
                       ["(%s : %s)" % (i, GTYPE[env.get(n).ty]) for i, n in zip(sids, names)] + ["(%s : %s)" % (ivar, GTYPE[ity])])
        rt = GTYPE[env.get(names[0]).ty] if len(names) == 1 else "(%s)%%type" % " * ".join(GTYPE[env.get(n).ty] for n in names)
        u.defs.append((gname, "%s : %s" % (sig, rt), bodyx, "body of the %s loop" % kind))
        capv = [u.val(env, c)[1] for c in caps]
        init = tup(env)
        env2 = env.copy()
        ids = []
        for n in names:
            ty = env.get(n).ty
            ident = u.fresh(self.base(n, ty), ty)
            env2.set(n, ty, ident)
            ids.append(ident)
        stepx = "(%s)" % " ".join([gname] + capv)
        if len(names) == 1:
            return "let %s := fold_left %s %s %s in\n    %s" % (ids[0], stepx, order, init, rest(env2))
        pat = ", ".join(sids)
        return "let '(%s) := fold_left (fun '(%s) %s => %s %s %s) %s %s in\n    %s" % (
            ", ".join(ids), pat, ivar, " ".join([gname] + capv), " ".join(sids), ivar, order, init, rest(env2))

    def while_true(self, env, body):
        """`while (true) { body }`: left by `return` only.  The body is a step function  result + state  (state = the variables
        assigned on a path that reaches the end of the body); the loop is `while_fuel fuel step init : option result`."""
        u = self.u
        if getattr(u, "ret_raw", None) is None:
            raise OutOfGrammar("%s: while (true) in a function without fuel" % self.what)
        kinds, changed = self.outcomes(body, env)
        names = self.ordered(env, set(self.changed_fall))
        if "ret" not in kinds or not names:
            raise OutOfGrammar("%s: while (true) without return / without state" % self.what)
        inner = env.copy()
        sids = []
        for n in names:
            ty = env.get(n).ty
            ident = "s_%s_in" % ascii_name(n)
            u.types[ident] = ty
            inner.set(n, ty, ident)
            sids.append(ident)

        def tup(e2):
            vs = [u.val(e2, n)[1] for n in names]
            return "(inr (%s))" % ", ".join(vs)

        def wret(e2, v):
            return "(inl %s)" % u.ret_raw(e2, v)
        save = u.reads
        u.reads = []
        bodyx = self.block(body, 0, inner, tup, wret)
        reads = u.reads
        u.reads = save
        caps = [n for n in env.cells if env.cells[n].val in reads and n not in names]
        u.loops["while"] = u.loops.get("while", 0) + 1
        gname = "%s_while%s_step" % (u.scope, "" if u.loops["while"] == 1 else str(u.loops["while"]))
        sty = "(%s)%%type" % " * ".join(GTYPE[env.get(n).ty] for n in names) if len(names) > 1 else GTYPE[env.get(names[0]).ty]
        sig = " ".join(["(%s : %s)" % (env.get(c).val, GTYPE[env.get(c).ty]) for c in caps] +
                       ["(%s : %s)" % (i, GTYPE[env.get(n).ty]) for i, n in zip(sids, names)])
        u.defs.append((gname, "%s : (%s + %s)%%type" % (sig, u.ret_gtype, sty), bodyx, "body of the while (true) loop: inl = return, inr = next state"))
        capv = [u.val(env, c)[1] for c in caps]
        init = "(%s)" % ", ".join(u.val(env, n)[1] for n in names)
        pat = "'(%s)" % ", ".join(sids) if len(sids) > 1 else sids[0]
        return "while_fuel fuel (fun %s => %s) %s" % (pat, " ".join([gname] + capv + sids), init)

    def outcomes_loop(self, body, env, allow_ret):
        kinds, changed = self.outcomes(body, env)
        return kinds, changed


def split_params(toks):
    """lambda parameter list -> [(name, declared type code or None, by-reference)]"""
    out, cur, depth = [], [], 0
    for k, v in toks:
        if k == "op" and v in "(<[":
            depth += 1
        elif k == "op" and v in ")>]":
            depth -= 1
        if (k, v) == ("op", ",") and depth == 0:
            out.append(cur); cur = []
        else:
            cur.append((k, v))
    if cur:
        out.append(cur)
    res = []
    for p in out:
        ids = [v for k, v in p if k == "id" and v != "const"]
        byref = ("op", "&") in p
        if len(ids) < 2:
            raise OutOfGrammar("lambda parameter %r" % p)
        ty = {"real_t": "S", "crvec": "V", "rvec": "V", "index_t": "N", "length_t": "N", "bool": "B", "auto": None}.get(ids[0], "?")
        if ty == "?":
            raise OutOfGrammar("lambda parameter type %r" % ids[0])
        if ids[0] == "rvec":
            byref = True
        res.append((ids[-1], ty, byref and "const" not in [v for k, v in p]))
    return res


def render_defs(defs, indent="", binders="", ctx_args=""):
    """every Definition takes the same context binders (so that a source change never changes which context arguments a
    generated function has); references to generated names (prefix g_) are applied to the context"""
    out = []
    for name, sig, body, cpp in defs:
        if ctx_args:
            body = re.sub(r"\bg_\w+\b", lambda m: "%s %s" % (m.group(0), ctx_args), body)
        out.append("%s(* %s *)" % (indent, com(cpp)))
        out.append("%sDefinition %s %s %s :=\n%s  %s." % (indent, name, binders, sig.strip(), indent, body.replace("\n    ", "\n" + indent + "  ")))
    return out
