#!/usr/bin/env python3
"""gen_C18_tables.py — translator G1/G2 of DESIGN.md for property C18.

Reads, from the CURRENT repo tree (argument 1, default $VERIF_REPO or /repo):
  * src/alpaqa/include/alpaqa/params/structs.ipp, macro-expanded by `g++ -E` with the REAL macro definitions
    of params/structs.hpp  -> attribute tables (key, bound member), alias tables, enum tables (name, enumerator);
  * the struct / enum definitions in include/alpaqa/**/*.hpp (comment-stripped, brace-matched, statement split)
    -> per struct the header field list with C++ type text; per enum the enumerator list.
Writes
  * coq/gen/ParamTables.v        (tables + expanded schemas for Params.v)
  * <build>/gen/C18_gen.hpp      (field visitors generated from the HEADER lists, independent of the attribute tables;
                                  static_asserts on the aggregate arity cross-check the field lists with the compiler)
  * <build>/gen/C18_tables.json  (same data for lib/vf/props/C18.py)
Anything outside the restricted grammar is reported in the result as 'out_of_grammar' (list of strings)."""
import json, os, re, subprocess, sys, tempfile
sys.path.insert(0, os.path.dirname(os.path.abspath(__file__)))
import strict

MARK = "@@C18_MARK@@"

# ----------------------------------------------------------------------------- helpers

def strip_comments(src):
    out, i, n = [], 0, len(src)
    while i < n:
        if src.startswith("//", i):
            j = src.find("\n", i)
            i = n if j < 0 else j
        elif src.startswith("/*", i):
            j = src.find("*/", i + 2)
            i = n if j < 0 else j + 2
        elif src[i] == '"':
            j = i + 1
            while j < n and src[j] != '"':
                j += 2 if src[j] == "\\" else 1
            out.append(src[i:j + 1]); i = j + 1
        elif src[i] == "'" and i + 2 < n and (src[i + 2] == "'" or (src[i + 1] == "\\" and src[i + 3] == "'")):
            j = src.find("'", i + 2)
            out.append(src[i:j + 1]); i = j + 1
        else:
            out.append(src[i]); i += 1
    return "".join(out)

def strip_attributes(s):
    # [[ ... ]] attribute specifiers (may contain parentheses / strings)
    while True:
        i = s.find("[[")
        if i < 0:
            return s
        j = s.find("]]", i)
        if j < 0:
            return s
        s = s[:i] + " " + s[j + 2:]

def match_brace(s, i):
    """s[i] == '{' -> index of the matching '}'"""
    depth = 0
    for j in range(i, len(s)):
        if s[j] == "{":
            depth += 1
        elif s[j] == "}":
            depth -= 1
            if depth == 0:
                return j
    return -1

def ucn_decode(s):
    return re.sub(r"\\U([0-9a-fA-F]{8})|\\u([0-9a-fA-F]{4})", lambda m: chr(int(m.group(1) or m.group(2), 16)), s)

IDENT = r"[^\W\d]\w*"

# ----------------------------------------------------------------------------- tables (structs.ipp)

def expand_tables(repo, oog):
    inc = os.path.join(repo, "src/alpaqa/include")
    with tempfile.TemporaryDirectory() as d:
        p = os.path.join(d, "pp.cpp")
        open(p, "w").write("#include <alpaqa/params/structs.hpp>\n%s\nnamespace alpaqa::params {\n#include <alpaqa/params/structs.ipp>\n}\n" % MARK)
        r = subprocess.run(["g++", "-E", "-P", "-std=c++23", "-DNDEBUG", "-DALPAQA_WITH_OCP", "-DALPAQA_VERIF", "-I" + inc, p],
                           capture_output=True, text=True, timeout=120)
    if r.returncode != 0 or MARK not in r.stdout:
        oog.append("g++ -E of structs.ipp failed: " + r.stderr[-500:])
        return None
    return ucn_decode(r.stdout.split(MARK, 1)[1])

def split_entries(body, oog, where):
    """top-level '{...}' groups of a table initialiser"""
    out, i = [], 0
    while i < len(body):
        c = body[i]
        if c == "{":
            j = match_brace(body, i)
            if j < 0:
                oog.append("%s: unbalanced braces" % where); return out
            out.append(body[i + 1:j].strip()); i = j + 1
        elif c in ", \t\n":
            i += 1
        else:
            oog.append("%s: unexpected text in table initialiser: %r" % (where, body[i:i + 40])); return out
    return out

def parse_tables(txt, oog):
    attr, alias, enum = [], [], []     # lists of (type text, [(key, member)]) in source order
    pos = 0
    rx = re.compile(r"template\s*<\s*class\s+S\s*>\s*struct\s+(attribute_table|attribute_alias_table|enum_table)\s*<\s*(.+?)\s*,\s*S\s*>\s*\{")
    for m in rx.finditer(txt):
        kind, ty = m.group(1), re.sub(r"\s+", "", m.group(2))
        end = match_brace(txt, m.end() - 1)
        body = txt[m.end():end]
        t = re.search(r"\btable\s*\{", body)
        if not t:
            oog.append("%s<%s>: no table member" % (kind, ty)); continue
        tb = t.end() - 1
        te = match_brace(body, tb)
        entries = split_entries(body[tb + 1:te], oog, "%s<%s>" % (kind, ty))
        rows = []
        for e in entries:
            if kind == "attribute_table":
                mm = re.fullmatch(r'"((?:[^"\\]|\\.)*)"\s*,\s*attribute_accessor\s*<\s*S\s*>\s*::\s*template\s+make\s*<\s*type\s*>\s*\(\s*&\s*type\s*::\s*(%s)\s*(?:,.*)?\)' % IDENT, e, re.S)
            elif kind == "enum_table":
                mm = re.fullmatch(r'"((?:[^"\\]|\\.)*)"\s*,\s*\{\s*type\s*::\s*(%s)\s*,?[^{}]*\}' % IDENT, e, re.S)
            else:
                mm = re.fullmatch(r'"((?:[^"\\]|\\.)*)"\s*,\s*"((?:[^"\\]|\\.)*)"', e, re.S)
            if not mm:
                oog.append("%s<%s>: entry outside grammar: %r" % (kind, ty, e[:120])); continue
            rows.append((mm.group(1), mm.group(2)))
        {"attribute_table": attr, "attribute_alias_table": alias, "enum_table": enum}[kind].append((ty, rows))
    # every struct specialisation in the text must have been seen by the regex
    n_spec = len(re.findall(r"\bstruct\s+(?:attribute_table|attribute_alias_table|enum_table)\s*<", txt))
    if n_spec != len(attr) + len(alias) + len(enum):
        oog.append("structs.ipp: %d table specialisations in the preprocessed text but %d parsed" % (n_spec, len(attr) + len(alias) + len(enum)))
    return attr, alias, enum

# ----------------------------------------------------------------------------- header definitions

def load_headers(repo):
    root = os.path.join(repo, "src/alpaqa/include/alpaqa")
    files = {}
    for dp, dn, fn in os.walk(root):
        for f in sorted(fn):
            if f.endswith(".hpp"):
                p = os.path.join(dp, f)
                try:
                    files[os.path.relpath(p, root)] = strip_attributes(strip_comments(open(p, encoding="utf-8").read()))
                except Exception:
                    pass
    return files

def find_definition(files, kw_rx, name):
    """first definition `<kw> name {` ; returns (file, body) or None"""
    rx = re.compile(r"\b(?:%s)\s+(?:ALPAQA_EXPORT\s+)?%s\s*(?::[^{;]*)?\{" % (kw_rx, re.escape(name)))
    for f in sorted(files):
        m = rx.search(files[f])
        if m:
            i = m.end() - 1
            j = match_brace(files[f], i)
            if j > 0:
                return f, files[f][i + 1:j]
    return None

def split_statements(body):
    """member statements of a class body at brace depth 0; function bodies dropped"""
    stmts, cur, i, n = [], [], 0, len(body)
    while i < n:
        c = body[i]
        if c == "{":
            j = match_brace(body, i)
            if j < 0:
                break
            before = "".join(cur).strip()
            is_type_def = re.match(r"(enum|struct|class|union)\b", before) is not None
            is_function = (not is_type_def) and re.search(r"\)\s*(const|noexcept|override|final|\s)*(->[^{}]*)?$", before) is not None and "=" not in re.sub(r"\(.*\)", "", before, flags=re.S)
            if is_function:
                cur = []          # function definition: no member
                i = j + 1
                # optional trailing ';'
                k = i
                while k < n and body[k].isspace():
                    k += 1
                if k < n and body[k] == ";":
                    i = k + 1
                continue
            cur.append(body[i:j + 1]); i = j + 1
        elif c == ";":
            s = "".join(cur).strip()
            if s:
                stmts.append(s)
            cur = []; i += 1
        else:
            cur.append(c); i += 1
    return stmts

def parse_enum_body(body, oog, where):
    """-> list of (name, value-expression-or-None)"""
    out = []
    for part in body.split(","):
        part = part.strip()
        if not part:
            continue
        m = re.fullmatch(r"(%s)\s*(?:=\s*(.+))?" % IDENT, part, re.S)
        if not m:
            oog.append("%s: enumerator outside grammar: %r" % (where, part[:60])); continue
        out.append((m.group(1), m.group(2).strip() if m.group(2) else None))
    return out

def enum_values(items, oog, where):
    """assign integer values; returns list of dicts {name, value, alias_of}"""
    res, nxt, by = [], 0, {}
    for name, ex in items:
        alias = None
        if ex is None:
            v = nxt
        elif re.fullmatch(r"-?\d+", ex):
            v = int(ex)
        elif ex in by:
            v = by[ex]; alias = ex
        else:
            oog.append("%s: enumerator value outside grammar: %s = %s" % (where, name, ex)); v = nxt
        by[name] = v; nxt = v + 1
        res.append({"name": name, "value": v, "alias_of": alias})
    return res

def parse_fields(sname, body, oog):
    """-> (fields [{name, type, local_enum?}], local_enums {name: [enumerators]})"""
    fields, local = [], {}
    for s in split_statements(body):
        s = re.sub(r"\s+", " ", s).strip()
        if re.match(r"(USING_ALPAQA_CONFIG\w*\s*\(|using\b|typedef\b|static\b|friend\b|template\b|public\s*:|private\s*:|protected\s*:)", s):
            s2 = re.sub(r"^(public|private|protected)\s*:\s*", "", s)
            if s2 == s or not s2:
                continue
            s = s2
        m = re.match(r"enum\s+(?:class\s+)?(%s)?\s*(?::\s*[\w:\s]+)?\{(.*)\}\s*(.*)$" % IDENT, s, re.S)
        if m:
            ename = m.group(1) or "<anonymous>"
            items = enum_values(parse_enum_body(m.group(2), oog, "%s::%s" % (sname, ename)), oog, "%s::%s" % (sname, ename))
            local[ename] = items
            decl = m.group(3).strip()
            if decl:
                dm = re.match(r"(%s)\s*(=.*|\{.*\})?$" % IDENT, decl, re.S)
                if not dm:
                    oog.append("%s: declarator after enum outside grammar: %r" % (sname, decl[:60])); continue
                fields.append({"name": dm.group(1), "type": "%s::%s" % (sname, ename), "local_enum": ename})
            continue
        if re.match(r"(struct|class|union)\b", s) and "{" in s:
            oog.append("%s: nested class definition not supported: %r" % (sname, s[:60])); continue
        head = re.split(r"=|\{", s, 1)[0].strip()
        if "(" in head:
            continue                                   # function / operator declaration
        m = re.match(r"(.*?)(%s)\s*(\[[^\]]*\])?$" % IDENT, head, re.S)
        if not m or not m.group(1).strip():
            oog.append("%s: member statement outside grammar: %r" % (sname, s[:80])); continue
        fields.append({"name": m.group(2), "type": re.sub(r"\s+", " ", m.group(1)).strip()})
    return fields, local

# type text -> type descriptor
DUR = {"std::chrono::nanoseconds": 0, "std::chrono::microseconds": 1, "std::chrono::milliseconds": 2,
       "std::chrono::seconds": 3, "std::chrono::minutes": 4, "std::chrono::hours": 5}
INTS = {"unsigned": (0, 2**32 - 1), "unsigned int": (0, 2**32 - 1), "int": (-2**31, 2**31 - 1),
        "length_t": (-2**63, 2**63 - 1), "index_t": (-2**63, 2**63 - 1), "long": (-2**63, 2**63 - 1),
        "size_t": (0, 2**64 - 1), "std::size_t": (0, 2**64 - 1), "unsigned long": (0, 2**64 - 1),
        "short": (-2**15, 2**15 - 1), "unsigned short": (0, 2**16 - 1), "long long": (-2**63, 2**63 - 1)}

def classify(ty, structs, enums):
    t = re.sub(r"\b(const|mutable|typename)\b", "", ty).strip()
    if t == "bool":
        return {"k": "bool"}
    if t in ("real_t", "double"):
        return {"k": "real"}
    if t in INTS:
        lo, hi = INTS[t]
        return {"k": "int", "lo": lo, "hi": hi}
    if t in DUR:
        return {"k": "dur", "period": DUR[t]}
    m = re.fullmatch(r"(%s)\s*<\s*config_t\s*>" % IDENT, t)
    if m and m.group(1) in structs:
        return {"k": "struct", "name": m.group(1)}
    if t in enums:
        return {"k": "enum", "name": t}
    return {"k": "unknown", "text": t}

def members_source(sname, body, oog):
    """consume-everything: EVERY member declaration of the structure as written (flat text, comments and attributes removed), in
    order — the field tables carry names and types only; default member initialisers, the config macro, using-declarations,
    member functions are carried here so that no token of the definition is dropped"""
    try:
        return strict.split_statements(body)
    except strict.Unaccounted as ex:
        oog.append("%s: members: %s" % (sname, ex))
        return []

# ----------------------------------------------------------------------------- main translation

def translate(repo):
    oog = []
    txt = expand_tables(repo, oog)
    if txt is None:
        return {"out_of_grammar": oog, "ok": False}
    attr, alias, enumt = parse_tables(txt, oog)
    files = load_headers(repo)
    structs, order = {}, []
    for ty, rows in attr:
        m = re.fullmatch(r"(%s)<config_t>" % IDENT, ty)
        name = m.group(1) if m else ty
        order.append(name)
        d = find_definition(files, "struct|class", name)
        if d is None:
            oog.append("struct %s: definition not found in the headers" % name)
            structs[name] = {"file": None, "fields": [], "local_enums": {}, "table": rows, "cxx": ty}
            continue
        fields, local = parse_fields(name, d[1], oog)
        structs[name] = {"file": d[0], "fields": fields, "local_enums": local, "table": rows, "cxx": ty, "members_source": members_source(name, d[1], oog)}
    for ty, rows in alias:
        m = re.fullmatch(r"(%s)<config_t>" % IDENT, ty)
        name = m.group(1) if m else ty
        if name in structs:
            structs[name]["aliases"] = rows
    enums = {}
    for sn, s in structs.items():
        for en, items in s["local_enums"].items():
            enums["%s::%s" % (sn, en)] = {"file": s["file"], "enumerators": items, "table": [], "has_table": False,
                                          "cxx": "%s::%s" % (s["cxx"], en)}
    for ty, rows in enumt:
        m = re.fullmatch(r"(%s)<config_t>::(%s)" % (IDENT, IDENT), ty)
        if m:                                   # enumeration declared inside a parameter structure
            key = "%s::%s" % (m.group(1), m.group(2))
            if key in enums:
                enums[key]["table"] = rows; enums[key]["has_table"] = True
            else:
                oog.append("enum %s: definition not found inside struct %s" % (ty, m.group(1)))
            continue
        d = find_definition(files, r"enum\s+class|enum\s+struct|enum", ty)
        items = enum_values(parse_enum_body(d[1], oog, ty), oog, ty) if d else []
        if d is None:
            oog.append("enum %s: definition not found" % ty)
        enums[ty] = {"file": d[0] if d else None, "enumerators": items, "table": rows, "has_table": True, "cxx": ty,
                     "source": " ".join(d[1].split()) if d else ""}
    # enum-typed fields whose enum has no table specialisation but is defined at namespace scope
    for sn, s in structs.items():
        for f in s["fields"]:
            t = f["type"]
            if t not in enums and re.fullmatch(IDENT, t) and t not in INTS and t not in ("bool", "real_t", "double"):
                d = find_definition(files, r"enum\s+class|enum\s+struct|enum", t)
                if d:
                    enums[t] = {"file": d[0], "enumerators": enum_values(parse_enum_body(d[1], oog, t), oog, t), "table": [],
                                "has_table": False, "cxx": t, "source": " ".join(d[1].split())}
    for sn, s in structs.items():
        for f in s["fields"]:
            f["ty"] = classify(f["type"], structs, enums)
            if f["ty"]["k"] == "unknown":
                oog.append("%s.%s: unknown member type %r" % (sn, f["name"], f["type"]))
    # explicit instantiations of set_param exported by params.cpp: only these can be addressed as a top-level structure
    try:
        pc = strip_comments(open(os.path.join(repo, "src/alpaqa/src/params/params.cpp"), encoding="utf-8").read())
        inst = set(re.findall(r"ALPAQA_SET_PARAM_INST\(\s*(%s)\s*<\s*config_t\s*>\s*\)" % IDENT, pc))
    except Exception as ex:
        oog.append("params.cpp: %s" % ex); inst = set()
    for n in structs:
        structs[n]["exported"] = n in inst
    return {"ok": True, "out_of_grammar": oog, "structs": structs, "order": order, "enums": enums}

# ----------------------------------------------------------------------------- Coq output

def cstr(s):
    return '"' + s.replace('"', '""') + '"'

def clist(xs):
    return "[" + "; ".join(xs) + "]"

def emit_coq(T):
    S, E = T["structs"], T["enums"]
    L = ["(* GENERATED by translate/gen_C18_tables.py from params/structs.ipp (g++ -E) and the struct/enum definitions in the headers.",
         "   Do not edit; regenerated on every run of bin/check C18. *)",
         "From Coq Require Import String List ZArith.", "From Alpaqa Require Import Params.", "Import ListNotations.",
         "Local Open Scope string_scope.", ""]
    L.append("(* per struct: fields declared in the header, in declaration order *)")
    L.append("Definition header_fields : list (string * list string) :=\n  " +
             clist(["(%s, %s)" % (cstr(n), clist([cstr(f["name"]) for f in S[n]["fields"]])) for n in T["order"]]) + ".\n")
    L.append("(* per struct: attribute table entries (key, bound member) in source order *)")
    L.append("Definition table_entries : list (string * list (string * string)) :=\n  " +
             clist(["(%s, %s)" % (cstr(n), clist(["(%s, %s)" % (cstr(k), cstr(m)) for k, m in S[n]["table"]])) for n in T["order"]]) + ".\n")
    L.append("Definition alias_entries : list (string * list (string * string)) :=\n  " +
             clist(["(%s, %s)" % (cstr(n), clist(["(%s, %s)" % (cstr(k), cstr(m)) for k, m in S[n].get("aliases", [])]))
                    for n in T["order"] if S[n].get("aliases")]) + ".\n")
    L.append("(* per enum that has an ENUM_TABLE: enumerators of the definition that are not deprecated aliases of another enumerator *)")
    en = [n for n in E if E[n]["has_table"]]
    L.append("Definition enum_enumerators : list (string * list string) :=\n  " +
             clist(["(%s, %s)" % (cstr(n), clist([cstr(i["name"]) for i in E[n]["enumerators"] if i["alias_of"] is None])) for n in en]) + ".\n")
    L.append("(* per enum: ENUM_TABLE entries (name, bound enumerator) *)")
    L.append("Definition enum_table_entries : list (string * list (string * string)) :=\n  " +
             clist(["(%s, %s)" % (cstr(n), clist(["(%s, %s)" % (cstr(k), cstr(m)) for k, m in E[n]["table"]])) for n in en]) + ".\n")

    # enum tables as the model sees them: name -> integer value of the bound enumerator
    def enum_tbl(n):
        vals = {i["name"]: i["value"] for i in E[n]["enumerators"]}
        return clist(["(%s, (%d)%%Z)" % (cstr(k), vals.get(m, -999)) for k, m in E[n]["table"]])

    def leaf(ty):
        k = ty["k"]
        if k == "bool":
            return "SLeaf LBool"
        if k == "real":
            return "SLeaf LReal"
        if k == "int":
            return "SLeaf (LInt (%d)%%Z (%d)%%Z)" % (ty["lo"], ty["hi"])
        if k == "dur":
            return "SLeaf (LDur %d%%nat)" % ty["period"]
        if k == "enum":
            return "SLeaf (LEnum %s)" % enum_tbl(ty["name"])
        return None

    def schema(n, depth=0):
        s = S[n]
        idx = {f["name"]: i for i, f in enumerate(s["fields"])}
        fty = {f["name"]: f["ty"] for f in s["fields"]}
        rows = []
        for k, m in s["table"]:
            if m not in idx:
                continue          # cannot happen in code that compiles; reported by the finite theorems
            ty = fty[m]
            sub = schema(ty["name"], depth + 1) if ty["k"] == "struct" and depth < 8 else (leaf(ty) or "SLeaf LOpaque")
            rows.append("(%s, (%d%%nat, %s))" % (cstr(k), idx[m], sub))
        return "SStruct %s %s" % (cstr(n), clist(rows))
    L.append("(* expanded schemas: key -> (index of the bound member in header order, schema of that member) *)")
    for n in T["order"]:
        L.append("Definition schema_%s : schema := %s." % (re.sub(r"\W", "_", n), schema(n)))
    L.append("Definition schemas : list (string * schema) :=\n  " +
             clist(["(%s, schema_%s)" % (cstr(n), re.sub(r"\W", "_", n)) for n in T["order"]]) + ".")
    L.append("")
    L.append("(* per struct: every member declaration as written (default initialisers, config macro, ... : what the tables above do not carry) *)")
    L.append("Definition struct_members_source : list (string * list string) :=\n  " +
             clist(["\n   (%s, %s)" % (cstr(n), clist([cstr(m) for m in S[n].get("members_source", [])])) for n in T["order"]]) + ".")
    L.append("(* per enum defined at namespace scope: the enumerator list as written *)")
    L.append("Definition enum_source : list (string * string) :=\n  " +
             clist(["\n   (%s, %s)" % (cstr(n), cstr(E[n]["source"])) for n in E if "source" in E[n]]) + ".")
    return "\n".join(L) + "\n"

# ----------------------------------------------------------------------------- C++ output

def emit_cpp(T):
    S, E = T["structs"], T["enums"]
    L = ["// GENERATED by translate/gen_C18_tables.py from the struct definitions in the headers (NOT from the attribute tables).",
         "#pragma once", "namespace c18 {", "using config_t = alpaqa::DefaultConfig;"]
    for n in T["order"]:
        s = S[n]
        cxx = "alpaqa::" + s["cxx"]
        L.append("template <> struct fields<%s> {" % cxx)
        L.append("    static constexpr const char *name = \"%s\";" % n)
        L.append("    static constexpr int count = %d;" % len(s["fields"]))
        L.append("    template <class T, class F> static void each(T &s, F &&f) {")
        for f in s["fields"]:
            L.append("        f(\"%s\", s.%s);" % (f["name"], f["name"]))
        L.append("    }\n};")
        L.append("static_assert(arity<%s>() == %d, \"C18 translator: header field list of %s is incomplete\");" % (cxx, len(s["fields"]), n))
    L.append("#define C18_FOR_EACH_STRUCT(X) \\")
    L.append(" \\\n".join("    X(alpaqa::%s, \"%s\")" % (S[n]["cxx"], n) for n in T["order"] if S[n]["exported"]))
    L.append("")
    L.append("inline void enum_values(vio::Json &j) {")
    for n, e in E.items():
        L.append("    { std::ostringstream o; o << \"{\";")
        for k, i in enumerate(e["enumerators"]):
            L.append('      o << "%s\\"%s\\":" << (long long)(alpaqa::%s::%s);' % ("," if k else "", i["name"], e["cxx"], i["name"]))
        L.append('      o << "}"; j.raw("%s", o.str()); }' % n)
    L.append("}")
    L.append("} // namespace c18")
    return "\n".join(L) + "\n"

def write_if_changed(path, txt):
    os.makedirs(os.path.dirname(path), exist_ok=True)
    if os.path.exists(path) and open(path, encoding="utf-8").read() == txt:
        return False
    open(path, "w", encoding="utf-8").write(txt)
    return True

def run(repo, verif, build):
    T = translate(repo)
    if T.get("ok"):
        write_if_changed(os.path.join(os.environ.get("VERIF_GEN_OUT") or os.path.join(verif, "coq", "gen"), "ParamTables.v"), emit_coq(T))
        write_if_changed(os.path.join(build, "gen", "C18_gen.hpp"), emit_cpp(T))
        write_if_changed(os.path.join(build, "gen", "C18_tables.json"), json.dumps(T, indent=1, ensure_ascii=False, default=str))
    return T

if __name__ == "__main__":
    repo = sys.argv[1] if len(sys.argv) > 1 else os.environ.get("VERIF_REPO", "/repo")
    verif = os.path.dirname(os.path.dirname(os.path.abspath(__file__)))
    build = sys.argv[2] if len(sys.argv) > 2 else (os.path.join(os.environ["VERIF_GEN_OUT"], "_build") if os.environ.get("VERIF_GEN_OUT") else os.path.join(verif, "build"))
    T = run(repo, verif, build)
    print(json.dumps({"ok": T.get("ok"), "out_of_grammar": T["out_of_grammar"],
                      "structs": {n: [f["name"] + ":" + f["ty"]["k"] for f in s["fields"]] for n, s in T.get("structs", {}).items()},
                      "enums": {n: [i["name"] for i in e["enumerators"]] for n, e in T.get("enums", {}).items()}},
                     indent=1, ensure_ascii=False))
