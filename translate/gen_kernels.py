#!/usr/bin/env python3
"""gen_kernels.py — translator G9: the scalar / vector kernels that decide C05 and C06, regenerated from the C++ on every run.

Reads (under <repo>/src/alpaqa/include/alpaqa/implementation/inner/)
    panoc-helpers.tpp   calc_error_stop_crit (whole `switch (crit)`), stop_crit_requires_grad_ψx̂
    panoc-ocp.tpp       the local calc_error_stop_crit lambda (six supported cases, the others throw), and the loop lambdas
    panoc.tpp zerofpr.tpp pantr.tpp fista.tpp   Iterate::fbe(), qub_violated, linesearch_violated, the step-size halving sites,
                        the τ update / reset, the no-progress update, PANTR's ratio / radius lambdas, γ = Lγ_factor / L
and writes coq/gen/KernelsGen.v: ONE Gallina definition per (file, lambda / site) over the `Num` class (Vec.v / Prox.v operations),
so that a change in one solver's copy changes that solver's definition only.  coq/theories/KernelsGenEq.v proves every generated
definition equal (over R) to the hand kernel the proofs use.

Grammar (typed: S scalar, V vector, N nat, B bool, numeric literals adapt to their context; anything else -> OutOfGrammar):
  expr  := or ['?' expr ':' expr]            or := and ('||' and)*        and := eq ('&&' eq)*
  eq    := rel (('=='|'!=') rel)*            rel := sum [('<'|'>'|'<='|'>=') sum]
  sum   := prod (('+'|'-') prod)*            prod := unary (('*'|'/'|'%') unary)*        unary := ('-'|'!'|'not'|'*') unary | atom
  atom  := literal | '(' expr ')' | id | id '(' args ')'
           with calls  std::abs std::sqrt std::max std::min std::fmax std::fmin real_t static_cast<real_t> norm_inf norm_1,
           methods  v.norm() v.squaredNorm() v.size(),  and the per-site placeholders (it.fbe(), qub_violated(*it), ...)
  stmt  := 'using' ... ';' | ['const'] (real_t|auto|bool|...) id '=' expr ';' | 'auto' '[' id ',' id ']' '=' prox-call ';'
         | prox-call ';'   (problem.eval_prox_grad_step(γ, x, g, out1, out2) / eval_prox_impl(γ, x, g, out1, out2))
         | vec-id '=' expr ';' | 'if' '(' expr ')' 'return' expr ';' ['else' stmt] | 'return' expr ';'
  switch := ('case' PANOCStopCrit::X ':' ('[[fallthrough]]' ';' | '{' stmt* '}' | 'return' expr ';'))* 'default' ':' (';' | 'throw' ... ';')
A group (file, lambda) that leaves the grammar is replaced by the committed reference text translate/ref/KernelsGen.ref.v and
reported as `translator-out-of-grammar` (never a violation by itself).

Consume-everything (translate/strict.py, DESIGN §9.4): the body of every site (QUB loop, the two branches of the line search, the
backtrack_qub lambda) and of the two switch functions is split into statements and EVERY statement is either translated or one of
the statements listed in RECOMPUTE / LS_QUB_TAIL / LS_TAIL / HELPERS_PRE / HELPERS_POST, in that order; anything else is out of grammar.

Usage: gen_kernels.py [repo] [outfile] [--write-ref]     (defaults: $VERIF_REPO or /repo, <verif>/coq/gen/KernelsGen.v)
Prints one JSON status line. Deterministic, python3 stdlib only."""
import json, os, re, sys, unicodedata
from fractions import Fraction
sys.path.insert(0, os.path.dirname(os.path.abspath(__file__)))
import strict

HERE = os.path.dirname(os.path.abspath(__file__))
VERIF = os.path.dirname(HERE)
INNER = "src/alpaqa/include/alpaqa/implementation/inner"
REF = os.path.join(HERE, "ref", "KernelsGen.ref.v")
CRITS = ["ApproxKKT", "ApproxKKT2", "ProjGradNorm", "ProjGradNorm2", "ProjGradUnitNorm", "ProjGradUnitNorm2",
         "FPRNorm", "FPRNorm2", "Ipopt", "LBFGSBpp"]


class OutOfGrammar(Exception):
    pass


# ----------------------------------------------------------------------------- tokenizer

def _idc(c):
    return c.isalnum() or c == "_" or unicodedata.category(c).startswith("M")


OPS2 = ("&&", "||", ">=", "<=", "==", "!=", "*=", "/=", "+=", "-=", "++", "--", "->", "[[", "]]")


def tokenize(s):
    toks, i, n = [], 0, len(s)
    while i < n:
        c = s[i]
        if c.isspace():
            i += 1
        elif c == '"':
            j = s.find('"', i + 1)
            if j < 0:
                raise OutOfGrammar("unterminated string")
            toks.append(("str", s[i:j + 1])); i = j + 1
        elif c.isdigit() or (c == "." and i + 1 < n and s[i + 1].isdigit()):
            j = i
            while j < n and (s[j].isdigit() or s[j] == "."):
                j += 1
            if j < n and (s[j].isalpha() or s[j] == "_"):
                raise OutOfGrammar("literal with suffix/exponent near %r" % s[i:j + 3])
            toks.append(("num", s[i:j])); i = j
        elif _idc(c):
            j = i
            while j < n:
                if _idc(s[j]):
                    j += 1
                elif s.startswith("->", j) and j + 2 < n and _idc(s[j + 2]) and not s[j + 2].isdigit():
                    j += 2
                elif s.startswith("::", j) and j + 2 < n and _idc(s[j + 2]):
                    j += 2
                elif s[j] == "." and j + 1 < n and _idc(s[j + 1]) and not s[j + 1].isdigit():
                    j += 1
                else:
                    break
            toks.append(("id", unicodedata.normalize("NFC", s[i:j]))); i = j
        elif s[i:i + 2] in OPS2:
            toks.append(("op", s[i:i + 2])); i += 2
        elif c in "+-*/%()<>?:,!;{}=[]&":
            toks.append(("op", c)); i += 1
        else:
            raise OutOfGrammar("unexpected character %r" % c)
    return toks


def nfc(s):
    return unicodedata.normalize("NFC", s)


# ----------------------------------------------------------------------------- typed expressions

def lit_S(q):
    def z(k):
        return "n0" if k == 0 else "n1" if k == 1 else "n2" if k == 2 else "(nofZ %d%%Z)" % k
    if q.denominator == 1:
        return z(q.numerator)
    if q.denominator & (q.denominator - 1):
        raise OutOfGrammar("non-dyadic literal %s" % q)
    return "(%s / %s)" % (z(q.numerator), z(q.denominator))


def coerce(e, want, what=""):
    t, s = e[0], e[1]
    if t == want:
        return s
    if t == "L":
        if want == "S":
            return lit_S(e[2])
        if want == "N" and e[2].denominator == 1:
            return "%d%%nat" % e[2].numerator
    raise OutOfGrammar("type %s where %s expected (%s) %s" % (t, want, s, what))


def unify(a, b):
    if a[0] == "L" and b[0] == "L":
        raise OutOfGrammar("operation between two literals (C++ integer arithmetic): %s , %s" % (a[1], b[1]))
    t = b[0] if a[0] == "L" else a[0]
    if t not in ("S", "V", "N", "B"):
        raise OutOfGrammar("bad operand type " + t)
    return t, coerce(a, t), coerce(b, t)


def arith(op, a, b):
    if op == "*" and a[0] in ("S", "L") and b[0] == "V":
        return ("V", "(vscale %s %s)" % (coerce(a, "S"), b[1]))
    t, x, y = unify(a, b)
    if t == "S" and op in "+-*/":
        return ("S", "(%s %s %s)" % (x, op, y))
    if t == "N" and op in ("+", "*", "%"):
        return ("N", "(%s %s %s)" % ({"+": "Nat.add", "*": "Nat.mul", "%": "Nat.modulo"}[op], x, y))
    if t == "V" and op in "+-":
        return ("V", "(%s %s %s)" % ("vadd" if op == "+" else "vsub", x, y))
    raise OutOfGrammar("operator %s on type %s" % (op, t))


def compare(op, a, b):
    t, x, y = unify(a, b)
    if t == "S":
        return ("B", {"<": "(%s <? %s)" % (x, y), ">": "(%s <? %s)" % (y, x), "<=": "(%s <=? %s)" % (x, y),
                      ">=": "(%s <=? %s)" % (y, x), "==": "(%s =? %s)" % (x, y), "!=": "(negb (%s =? %s))" % (x, y)}[op])
    if t == "N":
        return ("B", {"<": "(Nat.ltb %s %s)" % (x, y), ">": "(Nat.ltb %s %s)" % (y, x), "<=": "(Nat.leb %s %s)" % (x, y),
                      ">=": "(Nat.leb %s %s)" % (y, x), "==": "(Nat.eqb %s %s)" % (x, y), "!=": "(negb (Nat.eqb %s %s))" % (x, y)}[op])
    if t == "V" and op == "==":
        return ("B", "(veqb %s %s)" % (x, y))
    raise OutOfGrammar("comparison %s on type %s" % (op, t))


ASCII = {"γ": "gam", "ψ": "psi", "φ": "phi", "ϕ": "phi", "σ": "sig", "β": "beta", "τ": "tau", "ρ": "rho", "Δ": "Del", "ε": "eps",
         "ᵀ": "T", "ₖ": "k", "û": "uh", "x̂": "xh", "ŷ": "yh", "Σ": "Sig", "λ": "lam", "μ": "mu"}


def local_name(cid):
    out = []
    for ch in nfc(cid):
        if ch.isascii() and (ch.isalnum() or ch == "_"):
            out.append(ch)
        elif ch in ASCII:
            out.append(ASCII[ch])
        elif unicodedata.category(ch).startswith("M"):
            out.append("h")
        else:
            out.append("u%04x" % ord(ch))
    return "l_" + "".join(out)


PRIMS = {   # effectful primitives of the problem: (Gallina head, tuple shape)
    "problem.eval_prox_grad_step": ("eval_prox_grad_step lb ub l1", "box"),      # (x̂, p, h(x̂))
    "eval_prox_impl": ("ocp_prox Ulb Uub N", "ocp"),                             # (û, p, pᵀp, ∇ψᵀp)
}
DECL_TYPES = {"real_t": "S", "auto": None, "bool": "B", "unsigned": "N", "length_t": "N", "index_t": "N"}


class Parser:
    def __init__(self, text, env, what):
        text = re.sub(r"static_cast\s*<\s*real_t\s*>\s*\(", "real_t(", text)
        self.t = tokenize(text)
        self.i = 0
        self.env = dict((nfc(k), v) for k, v in env.items())
        self.what = what
        self.nstep = 0

    # -- token helpers
    def peek(self, k=0):
        return self.t[self.i + k] if self.i + k < len(self.t) else (None, None)

    def eat(self, kind=None, val=None):
        k, v = self.peek()
        if k is None or (kind and k != kind) or (val is not None and v != val):
            raise OutOfGrammar("%s: expected %s %s, found %r at token %d" % (self.what, kind or "", val or "", v, self.i))
        self.i += 1
        return v

    def at(self, kind, val):
        return self.peek() == (kind, val)

    def end(self):
        if self.i != len(self.t):
            raise OutOfGrammar("%s: trailing tokens from %r" % (self.what, self.peek()[1]))

    # -- expressions
    def expr(self):
        c = self.lor()
        if self.at("op", "?"):
            self.eat()
            a = self.expr()
            self.eat("op", ":")
            b = self.expr()
            t, x, y = unify(a, b)
            return (t, "(if %s then %s else %s)" % (coerce(c, "B"), x, y))
        return c

    def lor(self):
        a = self.land()
        while self.at("op", "||"):
            self.eat()
            b = self.land()
            a = ("B", "(%s || %s)" % (coerce(a, "B"), coerce(b, "B")))
        return a

    def land(self):
        a = self.equality()
        while self.at("op", "&&"):
            self.eat()
            b = self.equality()
            a = ("B", "(%s && %s)" % (coerce(a, "B"), coerce(b, "B")))
        return a

    def equality(self):
        a = self.rel()
        while self.peek() in (("op", "=="), ("op", "!=")):
            op = self.eat()
            a = compare(op, a, self.rel())
        return a

    def rel(self):
        a = self.sum()
        if self.peek() in (("op", "<"), ("op", ">"), ("op", "<="), ("op", ">=")):
            op = self.eat()
            a = compare(op, a, self.sum())
        return a

    def sum(self):
        a = self.prod()
        while self.peek() in (("op", "+"), ("op", "-")):
            op = self.eat()
            a = arith(op, a, self.prod())
        return a

    def prod(self):
        a = self.unary()
        while self.peek() in (("op", "*"), ("op", "/"), ("op", "%")):
            op = self.eat()
            a = arith(op, a, self.unary())
        return a

    def unary(self):
        k, v = self.peek()
        if (k, v) == ("op", "-"):
            self.eat()
            e = self.unary()
            if e[0] == "V":
                return ("V", "(vneg %s)" % e[1])
            return ("S", "(- %s)" % coerce(e, "S"))
        if (k, v) in (("op", "!"), ("id", "not")):
            self.eat()
            return ("B", "(negb %s)" % coerce(self.unary(), "B"))
        return self.atom()

    def args(self):
        self.eat("op", "(")
        out = []
        if not self.at("op", ")"):
            out.append(self.expr())
            while self.at("op", ","):
                self.eat()
                out.append(self.expr())
        self.eat("op", ")")
        return out

    def raw_args(self):
        """the token texts of a balanced (...) group, concatenated (placeholder calls)"""
        self.eat("op", "(")
        depth, out = 1, []
        while True:
            k, v = self.peek()
            if k is None:
                raise OutOfGrammar("%s: unbalanced call" % self.what)
            self.i += 1
            if (k, v) == ("op", "("):
                depth += 1
            elif (k, v) == ("op", ")"):
                depth -= 1
                if depth == 0:
                    return "".join(out)
            out.append(v)

    def atom(self):
        k, v = self.peek()
        if k == "num":
            self.eat()
            try:
                return ("L", v, Fraction(v))
            except ValueError:
                raise OutOfGrammar("bad number %r" % v)
        if (k, v) == ("op", "("):
            self.eat()
            e = self.expr()
            self.eat("op", ")")
            return e
        if k != "id":
            raise OutOfGrammar("%s: unexpected token %r" % (self.what, v))
        self.eat()
        call = self.at("op", "(")
        if call and v in self.env and self.env[v][0] == "CALL":
            _, expected, res = self.env[v]
            got = self.raw_args()
            if got != nfc(expected).replace(" ", ""):
                raise OutOfGrammar("%s: %s called with (%s), expected (%s)" % (self.what, v, got, expected))
            return res
        if call:
            if v in ("std::abs", "std::sqrt", "real_t"):
                a = self.args()
                if len(a) != 1:
                    raise OutOfGrammar("%s: arity of %s" % (self.what, v))
                if v == "real_t":
                    if a[0][0] == "N":
                        return ("S", "(nofZ (Z.of_nat %s))" % a[0][1])
                    return ("S", coerce(a[0], "S"))
                return ("S", "(%s %s)" % ("nabs" if v == "std::abs" else "nsqrt", coerce(a[0], "S")))
            if v in ("std::max", "std::min", "std::fmax", "std::fmin"):
                a = self.args()
                if len(a) != 2:
                    raise OutOfGrammar("%s: arity of %s" % (self.what, v))
                f = {"std::max": "cmax", "std::min": "cmin", "std::fmax": "nfmax", "std::fmin": "nfmin"}[v]
                return ("S", "(%s %s %s)" % (f, coerce(a[0], "S"), coerce(a[1], "S")))
            if v in ("norm_inf", "norm_1", "vec_util::norm_inf", "vec_util::norm_1"):
                a = self.args()
                if len(a) != 1:
                    raise OutOfGrammar("%s: arity of %s" % (self.what, v))
                return ("S", "(%s %s)" % ("vnorminf" if v.endswith("inf") else "vnorm1", coerce(a[0], "V")))
            m = re.fullmatch(r"(.+?)(?:\.|->)(norm|squaredNorm|size)", v)
            if m and m.group(1) in self.env and self.env[m.group(1)][0] == "V":
                if self.raw_args() != "":
                    raise OutOfGrammar("%s: %s takes no argument" % (self.what, v))
                base = self.env[m.group(1)][1]
                return {"norm": ("S", "(vnorm2 %s)" % base), "squaredNorm": ("S", "(vsqnorm %s)" % base),
                        "size": ("N", "(length %s)" % base)}[m.group(2)]
            raise OutOfGrammar("%s: unknown function %r" % (self.what, v))
        if v in ("true", "false"):
            return ("B", v)
        if v in self.env and self.env[v][0] in ("S", "V", "N", "B"):
            return self.env[v]
        raise OutOfGrammar("%s: unknown identifier %r" % (self.what, v))

    # -- statements
    def prox_call(self, name):
        head, shape = PRIMS[name]
        self.eat("op", "(")
        a = [self.expr()]
        for _ in range(2):
            self.eat("op", ",")
            a.append(self.expr())
        outs = []
        for _ in range(2):
            self.eat("op", ",")
            o = self.eat("id")
            if o not in self.env or self.env[o][0] != "V":
                raise OutOfGrammar("%s: output argument %r of %s is not a known vector" % (self.what, o, name))
            outs.append(o)
        self.eat("op", ")")
        self.nstep += 1
        nm = "l_step%d" % self.nstep
        rhs = "%s %s %s %s" % (head, coerce(a[0], "S"), coerce(a[1], "V"), coerce(a[2], "V"))
        if shape == "box":
            comps = {"xh": "(fst (fst %s))" % nm, "p": "(snd (fst %s))" % nm}
        else:
            comps = {"xh": "(fst (fst (fst %s)))" % nm, "p": "(snd (fst (fst %s)))" % nm, "pp": "(snd (fst %s))" % nm, "gp": "(snd %s)" % nm}
        self.env[outs[0]] = ("V", comps["xh"])
        self.env[outs[1]] = ("V", comps["p"])
        return nm, rhs, comps

    def body(self):
        """stmt* ending in a return on every path; returns a typed Gallina expression"""
        k, v = self.peek()
        if k is None:
            raise OutOfGrammar("%s: control reaches the end without return" % self.what)
        if (k, v) == ("id", "return"):
            self.eat()
            e = self.expr()
            self.eat("op", ";")
            return e
        if (k, v) == ("op", "{"):
            self.eat()
            e = self.body()
            self.eat("op", "}")
            return e
        if (k, v) == ("id", "if"):
            self.eat()
            self.eat("op", "(")
            c = coerce(self.expr(), "B")
            self.eat("op", ")")
            braces = self.at("op", "{")
            if braces:
                self.eat()
            self.eat("id", "return")
            a = self.expr()
            self.eat("op", ";")
            if braces:
                self.eat("op", "}")
            if self.at("id", "else"):
                self.eat()
            b = self.body()
            t, x, y = unify(a, b) if not (a[0] == "L" and b[0] == "L") else ("S", lit_S(a[2]), lit_S(b[2]))
            return (t, "(if %s then %s else %s)" % (c, x, y))
        if k == "id" and v in PRIMS and self.peek(1) == ("op", "("):
            self.eat()
            nm, rhs, _ = self.prox_call(v)
            self.eat("op", ";")
            r = self.body()
            return (r[0], "(let %s := %s in %s)" % (nm, rhs, r[1])) + tuple(r[2:])
        if k == "id" and (v in DECL_TYPES or v == "const"):
            if v == "const":
                self.eat()
            ty = self.eat("id")
            if ty not in DECL_TYPES:
                raise OutOfGrammar("%s: declaration type %r" % (self.what, ty))
            if self.at("op", "["):
                self.eat()
                n1 = self.eat("id"); self.eat("op", ","); n2 = self.eat("id")
                self.eat("op", "]"); self.eat("op", "=")
                f = self.eat("id")
                if f not in PRIMS or PRIMS[f][1] != "ocp":
                    raise OutOfGrammar("%s: structured binding of %r" % (self.what, f))
                nm, rhs, comps = self.prox_call(f)
                self.eat("op", ";")
                self.env[n1] = ("S", comps["pp"]); self.env[n2] = ("S", comps["gp"])
                r = self.body()
                return (r[0], "(let %s := %s in %s)" % (nm, rhs, r[1]))
            name = self.eat("id")
            self.eat("op", "=")
            e = self.expr()
            self.eat("op", ";")
            want = DECL_TYPES[ty]
            if want is None:
                if e[0] == "L":
                    raise OutOfGrammar("%s: auto %s = literal" % (self.what, name))
                want = e[0]
            s = coerce(e, want)
            ln = local_name(name)
            self.env[nfc(name)] = (want, ln)
            r = self.body()
            return (r[0], "(let %s := %s in %s)" % (ln, s, r[1]))
        if k == "id" and v in self.env and self.env[v][0] == "V" and self.peek(1) == ("op", "="):
            self.eat(); self.eat()
            e = self.expr()
            self.eat("op", ";")
            self.nstep += 1
            ln = "%s_%d" % (local_name(v), self.nstep)
            s = coerce(e, "V")
            self.env[v] = ("V", ln)
            r = self.body()
            return (r[0], "(let %s := %s in %s)" % (ln, s, r[1]))
        raise OutOfGrammar("%s: statement starting with %r" % (self.what, v))


def tr_expr(text, env, what, want=None):
    p = Parser(text, env, what)
    e = p.expr()
    p.end()
    return coerce(e, want, what) if want else e


def tr_body(text, env, what, want):
    p = Parser(text, env, what)
    e = p.body()
    p.end()
    return coerce(e, want, what)


# ----------------------------------------------------------------------------- source extraction

def strip_comments(src):
    src = re.sub(r"/\*.*?\*/", " ", src, flags=re.S)
    return nfc(re.sub(r"//[^\n]*", " ", src))


def flat(s):
    return " ".join(s.split())


def balanced(src, i, what):
    """src[i] is an opening bracket; returns the index of its partner"""
    o = src[i]
    c = {"(": ")", "{": "}", "[": "]"}[o]
    depth = 0
    for p in range(i, len(src)):
        if src[p] == o:
            depth += 1
        elif src[p] == c:
            depth -= 1
            if depth == 0:
                return p
    raise OutOfGrammar("%s: unbalanced %s" % (what, o))


def one(pattern, src, what):
    m = list(re.finditer(pattern, src, flags=re.S))
    if len(m) != 1:
        raise OutOfGrammar("%s: expected exactly one match, found %d" % (what, len(m)))
    return m[0]


def find_lambda(src, name):
    """auto NAME = [captures](params) { body };  -> (params, body)"""
    m = one(r"\bauto\s+%s\s*=\s*\[" % re.escape(name), src, "lambda " + name)
    i = balanced(src, m.end() - 1, name) + 1
    j = src.index("(", i)
    if src[i:j].strip():
        raise OutOfGrammar("lambda %s: unexpected text before parameter list" % name)
    k = balanced(src, j, name)
    b = src.index("{", k)
    if src[k + 1:b].strip():
        raise OutOfGrammar("lambda %s: unexpected text before body" % name)
    e = balanced(src, b, name)
    return flat(src[j + 1:k]), src[b + 1:e]


def find_function(src, name):
    m = one(r"\bstatic\s+\w+\s+%s\s*\(" % re.escape(nfc(name)), src, "function " + name)
    k = balanced(src, m.end() - 1, name)
    b = src.index("{", k)
    if src[k + 1:b].strip():
        raise OutOfGrammar("function %s: unexpected text before body" % name)
    return src[b + 1:balanced(src, b, name)]


def ctrl_sites(src, kw):
    """every `kw (cond) { body }` or `kw (cond) stmt;` -> (cond, body)"""
    out = []
    for m in re.finditer(r"\b%s\s*\(" % kw, src):
        k = balanced(src, m.end() - 1, kw)
        j = k + 1
        while j < len(src) and src[j].isspace():
            j += 1
        if j < len(src) and src[j] == "{":
            e = balanced(src, j, kw)
            out.append((flat(src[m.end():k]), src[j + 1:e]))
        else:
            e = src.index(";", j)
            out.append((flat(src[m.end():k]), src[j:e + 1]))
    return out


def site(sites, needle, what):
    s = [x for x in sites if needle in x[0]]
    if len(s) != 1:
        raise OutOfGrammar("%s: expected exactly one site, found %d" % (what, len(s)))
    return s[0]


def accounted(body, forms, what):
    """consume-everything (translate/strict.py): the top-level statements of `body` are exactly `forms`, in order"""
    try:
        return strict.account(strict.split_statements(nfc(body)), forms, what)
    except strict.Unaccounted as ex:
        raise OutOfGrammar(str(ex))


def known(text):
    """a statement the translator knows and leaves to the correspondence check (must be there, exactly like this)"""
    return strict.lit(nfc(text))


def switch_cases(body, what, scrutinee, pre, post):
    """the function body is exactly  <pre: known using-declarations> switch (<scrutinee>) { ... } <post: known throw>
    -> ({enumerator: token-text of its body}, default kind)"""
    forms = [("pre%d" % k, known(p), "1") for k, p in enumerate(pre)] + [("switch", r"switch\s*\(.*", "1")] + \
            [("post%d" % k, known(p), "1") for k, p in enumerate(post)]
    body = accounted(body, forms, what)["switch"].group(0)
    m = one(r"\bswitch\s*\(", body, what + " switch")
    k = balanced(body, m.end() - 1, what)
    if flat(body[m.end():k]) != scrutinee:
        raise OutOfGrammar("%s: switch over %r, expected %r" % (what, flat(body[m.end():k]), scrutinee))
    b = body.index("{", k)
    if body[k + 1:b].strip() or body[balanced(body, b, what) + 1:].strip():
        raise OutOfGrammar("%s: text around the switch block" % what)
    inner = body[b + 1:balanced(body, b, what)]
    toks = tokenize(inner)
    i, pending, cases, default = 0, [], {}, None

    def text(ts):
        return " ".join(v for _, v in ts)
    while i < len(toks):
        k_, v = toks[i]
        if (k_, v) == ("id", "case"):
            en = toks[i + 1][1]
            if not en.startswith("PANOCStopCrit::") or toks[i + 2] != ("op", ":"):
                raise OutOfGrammar("%s: case label %r" % (what, en))
            pending.append(en.split("::")[1])
            i += 3
        elif (k_, v) == ("id", "default"):
            if toks[i + 1] != ("op", ":"):
                raise OutOfGrammar("%s: default label" % what)
            i += 2
            if toks[i] == ("op", ";"):
                default = "empty"; i += 1
            elif toks[i] == ("id", "throw"):
                while toks[i] != ("op", ";"):
                    i += 1
                i += 1
                default = "throw"
            else:
                raise OutOfGrammar("%s: default body" % what)
            for c in pending:
                cases[c] = None
            pending = []
        elif (k_, v) == ("op", "[["):
            if [t[1] for t in toks[i:i + 4]] != ["[[", "fallthrough", "]]", ";"] or not pending:
                raise OutOfGrammar("%s: attribute" % what)
            i += 4
        elif pending and (k_, v) == ("op", "{"):
            depth, j = 0, i
            while True:
                if toks[j] == ("op", "{"):
                    depth += 1
                elif toks[j] == ("op", "}"):
                    depth -= 1
                    if depth == 0:
                        break
                j += 1
            for c in pending:
                cases[c] = text(toks[i + 1:j])
            pending = []
            i = j + 1
        elif pending and (k_, v) == ("id", "return"):
            j = i
            while toks[j] != ("op", ";"):
                j += 1
            for c in pending:
                cases[c] = text(toks[i:j + 1])
            pending = []
            i = j + 1
        else:
            raise OutOfGrammar("%s: unexpected %r in switch" % (what, v))
    if pending or default is None:
        raise OutOfGrammar("%s: switch without default / dangling case" % what)
    if sorted(cases) != sorted(CRITS):
        raise OutOfGrammar("%s: case labels %s" % (what, sorted(cases)))
    return cases, default


# ----------------------------------------------------------------------------- groups
# every group returns a list of (name, cpp, signature, body)

CRIT_SIG = "(lb ub : list (option T)) (l1 : list T) (p : list T) (gam : T) (x xh yh grad gradh : list T) : T"
CRIT_ARGS = "lb ub l1 p gam x xh yh grad gradh"
CRIT_ENV = {"pₖ": ("V", "p"), "γ": ("S", "gam"), "xₖ": ("V", "x"), "x̂ₖ": ("V", "xh"), "ŷₖ": ("V", "yh"), "grad_ψₖ": ("V", "grad"),
            "grad_̂ψₖ": ("V", "gradh"), "work_n1": ("V", "(@nil T)"), "work_n2": ("V", "(@nil T)")}
OCP_SIG = "(Ulb Uub : list (option T)) (N : nat) (gam : T) (u g p : list T) (pp : T) : T"
OCP_ARGS = "Ulb Uub N gam u g p pp"
OCP_ENV = {"γ": ("S", "gam"), "xuₖ": ("V", "u"), "grad_ψₖ": ("V", "g"), "pₖ": ("V", "p"), "pₖᵀpₖ": ("S", "pp"),
           "work_xu": ("V", "(@nil T)"), "work_p": ("V", "(@nil T)")}


HELPERS_PRE = ["using vec_util::norm_1;", "using vec_util::norm_inf;"]        # calc_error_stop_crit: before / after the switch
HELPERS_POST = ['throw std::out_of_range("Invalid PANOCStopCrit");']


def helpers_src(repo):
    return strip_comments(open(os.path.join(repo, INNER, "panoc-helpers.tpp"), encoding="utf-8").read())


def grp_helpers_crit(repo, c):
    cases, default = switch_cases(find_function(helpers_src(repo), "calc_error_stop_crit"), "calc_error_stop_crit", "crit", HELPERS_PRE, HELPERS_POST)
    if default != "empty" or cases[c] is None:
        raise OutOfGrammar("calc_error_stop_crit: case %s falls to default" % c)
    return [("g_crit_" + c, cases[c], CRIT_SIG, tr_body(cases[c], CRIT_ENV, "calc_error_stop_crit/" + c, "S"))]


def grp_helpers_assemble(repo):
    cases, default = switch_cases(find_function(helpers_src(repo), "calc_error_stop_crit"), "calc_error_stop_crit", "crit", HELPERS_PRE, HELPERS_POST)
    if default != "empty" or any(cases[c] is None for c in CRITS):
        raise OutOfGrammar("calc_error_stop_crit: a case falls to default")
    arms = " ".join("| %s => g_crit_%s %s" % (c, c, CRIT_ARGS) for c in CRITS)
    out = [("g_crit_eps", "switch (crit) of calc_error_stop_crit", "(c : stopcrit) " + CRIT_SIG, "match c with %s end" % arms)]
    cases2, default2 = switch_cases(find_function(helpers_src(repo), "stop_crit_requires_grad_ψx̂"), "stop_crit_requires_grad", "crit", [], HELPERS_POST)
    if default2 != "empty":
        raise OutOfGrammar("stop_crit_requires_grad: default is not empty")
    arms2 = []
    for c in CRITS:
        if cases2[c] is None:
            raise OutOfGrammar("stop_crit_requires_grad: case %s falls to default" % c)
        arms2.append("| %s => %s" % (c, tr_body(cases2[c], {}, "stop_crit_requires_grad/" + c, "B")))
    out.append(("g_crit_needs_gradh", "switch (crit) of stop_crit_requires_grad_ψx̂", "(c : stopcrit) : bool", "match c with %s end" % " ".join(arms2)))
    return out


def solver_src(repo, f):
    return strip_comments(open(os.path.join(repo, INNER, f), encoding="utf-8").read())


FILES = {"panoc": "panoc.tpp", "zerofpr": "zerofpr.tpp", "pantr": "pantr.tpp", "fista": "fista.tpp", "ocp": "panoc-ocp.tpp"}


def grp_ocp_crit(repo):
    params, body = find_lambda(solver_src(repo, FILES["ocp"]), "calc_error_stop_crit")
    cases, default = switch_cases(body, "ocp calc_error_stop_crit", "params.stop_crit", ["using vec_util::norm_inf;"], [])
    if default != "throw":
        raise OutOfGrammar("ocp calc_error_stop_crit: default does not throw")
    out, arms = [], []
    for c in CRITS:
        if cases[c] is None:
            arms.append("| %s => None" % c)
        else:
            out.append(("g_ocp_crit_" + c, cases[c], OCP_SIG, tr_body(cases[c], OCP_ENV, "ocp calc_error_stop_crit/" + c, "S")))
            arms.append("| %s => Some (g_ocp_crit_%s %s)" % (c, c, OCP_ARGS))
    out.append(("g_ocp_crit", "switch (params.stop_crit) of the local calc_error_stop_crit", "(c : stopcrit) " + OCP_SIG[:-4] + ": option T",
                "match c with %s end" % " ".join(arms)))
    return out


def it_fields(f, var, sep, pre):
    """environment of one Iterate `var` (field access with `sep`), Gallina parameter prefix `pre`"""
    if f == "ocp":
        d = {"ψu": "psx", "ψû": "psxh", "γ": "gam", "L": "L", "pᵀp": "pp", "grad_ψᵀp": "gp"}
    else:
        d = {"ψx": "psx", "ψx̂": "psxh", "γ": "gam", "L": "L", "pᵀp": "pp", "grad_ψᵀp": "gp", "hx̂": "hxh"}
    return dict((var + sep + k, ("S", pre + v)) for k, v in d.items())


def fbe_params(f, pre=""):
    return " ".join(pre + v for v in (["psx", "pp", "gam", "gp"] if f == "ocp" else ["psx", "hxh", "pp", "gam", "gp"]))


def grp_fbe(repo, f):
    src = solver_src(repo, FILES[f])
    m = one(r"real_t\s+fbe\s*\(\s*\)\s*const\s*\{\s*return\s+([^;{}]+);\s*\}", src, f + " Iterate::fbe")
    e = flat(m.group(1))
    env = dict((k[1:], v) for k, v in it_fields(f, "", ".", "").items() if v[1] in fbe_params(f).split())   # other members: out of grammar
    return [("g_%s_fbe" % f, e, "(%s : T) : T" % fbe_params(f), tr_expr(e, env, f + " fbe", "S"))]


def grp_qub(repo, f):
    params, body = find_lambda(solver_src(repo, FILES[f]), "qub_violated")
    m = re.fullmatch(r"const Iterate ?& ?(\w+)", params)
    if not m:
        raise OutOfGrammar("%s qub_violated: parameters %r" % (f, params))
    env = it_fields(f, m.group(1), ".", "")
    env["params.quadratic_upperbound_tolerance_factor"] = ("S", "tol")
    return [("g_%s_qub_violated" % f, flat(body), "(psx psxh gp L pp tol : T) : bool", tr_body(body, env, f + " qub_violated", "B"))]


def grp_ls(repo, f):
    params, body = find_lambda(solver_src(repo, FILES[f]), "linesearch_violated")
    m = re.fullmatch(r"const Iterate ?& ?(\w+), ?const Iterate ?& ?(\w+)", params)
    if not m:
        raise OutOfGrammar("%s linesearch_violated: parameters %r" % (f, params))
    a, b = m.group(1), m.group(2)
    env = {}
    env.update(it_fields(f, a, ".", "c_"))
    env.update(it_fields(f, b, ".", "n_"))
    env[a + ".fbe"] = ("CALL", "", ("S", "(g_%s_fbe %s)" % (f, fbe_params(f, "c_"))))
    env[b + ".fbe"] = ("CALL", "", ("S", "(g_%s_fbe %s)" % (f, fbe_params(f, "n_"))))
    env["params.force_linesearch"] = ("B", "force")
    env["params.linesearch_strictness_factor"] = ("S", "beta")
    env["params.linesearch_tolerance_factor"] = ("S", "tol")
    sig = "(force : bool) (beta tol : T) (%s c_L %s : T) : bool" % (fbe_params(f, "c_"), fbe_params(f, "n_"))
    return [("g_%s_ls_violated" % f, flat(body), sig, tr_body(body, env, f + " linesearch_violated", "B"))]


def halving_forms(var, sep):
    return [(nm, r"%s%s%s\s*([*/])=\s*([^;]+);" % (re.escape(var), re.escape(sep), fld), "1") for nm, fld in (("gamma", "γ"), ("L", "L"))]


def halving(r, var, sep, f, tag):
    """r: the accounted statements of the site (strict.account); the two first are the γ and the L update"""
    out = []
    for fld, par, nm in (("γ", "gam", "gamma"), ("L", "L", "L")):
        m = r[nm]
        rhs = tr_expr(flat(m.group(2)), {}, "%s %s update" % (f, fld))
        e = arith(m.group(1), ("S", par), rhs)
        out.append(("g_%s_halve_%s_%s" % (f, "gamma" if fld == "γ" else "L", tag), "%s%s%s %s= %s" % (var, sep, fld, m.group(1), flat(m.group(2))),
                    "(%s : T) : T" % par, coerce(e, "S")))
    return out


# statements of the sites that are not translated (left to the whole-run correspondence) but must be there, in this place
RECOMPUTE = {"panoc": ["eval_prox_grad_step(%s);", "eval_ψx̂(%s);"], "zerofpr": ["eval_prox_grad_step(%s);", "eval_cost_in_prox(%s);"],
             "pantr": ["eval_prox_grad_step(%s);", "eval_ψx̂(%s);"], "ocp": ["eval_prox(%s);", "eval_forward_hat(%s);"]}
LS_QUB_TAIL = {"panoc": ["++s.stepsize_backtracks;", "update_lbfgs_in_linesearch = false;", "continue;"],
               "zerofpr": ["++s.stepsize_backtracks;", "update_lbfgs_in_linesearch = false;", "continue;"],
               "ocp": ["++s.stepsize_backtracks;", "continue;"]}
LS_TAIL = ["++s.linesearch_backtracks;", "continue;"]


def qub_guard(cond, var, sep, f, tag):
    env = {var + sep + "L": ("S", "L"), "params.L_max": ("S", "Lmax"),
           "qub_violated": ("CALL", "*" + var if sep == "->" else var, ("B", "qv"))}
    return [("g_%s_qub_guard_%s" % (f, tag), cond, "(L Lmax : T) (qv : bool) : bool", tr_expr(cond, env, "%s qub guard (%s)" % (f, tag), "B"))]


def iterate_var(cond, what):
    m = re.search(r"qub_violated\(\s*(\*?)\s*(\w+)\s*\)", cond)
    if not m:
        raise OutOfGrammar("%s: qub_violated argument" % what)
    return m.group(2), ("->" if m.group(1) else ".")


def grp_init_site(repo, f):
    src = nfc(solver_src(repo, FILES[f]))
    tag = "bt" if f == "pantr" else "init"
    if f == "pantr":
        _, src = find_lambda(src, "backtrack_qub")
        accounted(src, [("while", r"while\s*\(.*", "1")], "pantr backtrack_qub")          # the lambda body is the loop, nothing else
    cond, body = site(ctrl_sites(src, "while"), "qub_violated(", f + " QUB while loop")
    var, sep = iterate_var(cond, f + " QUB while loop")
    arg = "*" + var if sep == "->" else var
    r = accounted(body, halving_forms(var, sep) + [("k%d" % k, known(t % arg), "1") for k, t in enumerate(RECOMPUTE[f])] +
                  [("count", known("++s.stepsize_backtracks;"), "1")], f + " QUB while loop body")
    return qub_guard(cond, var, sep, f, tag) + halving(r, var, sep, f, tag)


def grp_ls_site(repo, f):
    src = nfc(solver_src(repo, FILES[f]))
    ifs = ctrl_sites(src, "if")
    cond, body = site(ifs, "qub_violated(", f + " QUB test in the line search")
    var, sep = iterate_var(cond, f + " QUB test in the line search")
    r = accounted(body, halving_forms(var, sep) + [("reset", r"if\s*\(([^()]*)\)\s*τ\s*=\s*([^;]+);", "1")] +
                  [("k%d" % k, known(t), "1") for k, t in enumerate(LS_QUB_TAIL[f])], f + " QUB branch of the line search")
    out = qub_guard(cond, var, sep, f, "ls") + halving(r, var, sep, f, "ls")
    m = r["reset"]
    env = {"τ": ("S", "tau"), "τ_init": ("S", "tau_init")}
    out.append(("g_%s_tau_reset" % f, "if (%s) τ = %s;" % (flat(m.group(1)), flat(m.group(2))), "(tau tau_init : T) : T",
                "(if %s then %s else tau)" % (tr_expr(m.group(1), env, f + " τ reset", "B"), tr_expr(m.group(2), env, f + " τ reset", "S"))))
    cond2, body2 = site(ifs, "linesearch_violated(", f + " line-search test")
    env2 = {"τ": ("S", "tau"), "linesearch_violated": ("CALL", "*curr,*next", ("B", "lv"))}
    out.append(("g_%s_ls_guard" % f, cond2, "(tau : T) (lv : bool) : bool", tr_expr(cond2, env2, f + " line-search guard", "B")))
    r2 = accounted(body2, [("update", r"τ\s*([*/])=\s*([^;]+);", "1"), ("floor", r"if\s*\(([^()]*)\)\s*τ\s*=\s*([^;]+);", "1")] +
                   [("k%d" % k, known(t), "1") for k, t in enumerate(LS_TAIL)], f + " line-search branch")
    m1, m2 = r2["update"], r2["floor"]
    penv = {"params.linesearch_coefficient_update_factor": ("S", "factor"), "params.min_linesearch_coefficient": ("S", "tau_min")}
    t1 = coerce(arith(m1.group(1), ("S", "tau"), tr_expr(flat(m1.group(2)), penv, f + " τ update")), "S")
    env3 = dict(penv); env3["τ"] = ("S", "l_tau1")
    out.append(("g_%s_tau_update" % f, "τ %s= %s; if (%s) τ = %s;" % (m1.group(1), flat(m1.group(2)), flat(m2.group(1)), flat(m2.group(2))),
                "(tau factor tau_min : T) : T",
                "(let l_tau1 := %s in (if %s then %s else l_tau1))" % (t1, tr_expr(m2.group(1), env3, f + " τ floor", "B"),
                                                                     tr_expr(m2.group(2), env3, f + " τ floor", "S"))))
    return out


NP_VECS = {"panoc": ("curr->x", "next->x"), "zerofpr": ("curr->x", "next->x"), "ocp": ("curr->xu", "next->xu"), "fista": ("curr->x̂", "prev_x̂")}


def grp_np(repo, f):
    src = nfc(solver_src(repo, FILES[f]))
    s = [x for x in ctrl_sites(src, "if") if re.match(r"no_progress\s*=[^=]", x[1])]
    if len(s) != 1:
        raise OutOfGrammar("%s no-progress update: expected exactly one site, found %d" % (f, len(s)))
    cond, stmt = s[0]
    rhs = flat(re.match(r"no_progress\s*=(.*);$", stmt, flags=re.S).group(1))
    env = {"no_progress": ("N", "np"), "params.max_no_progress": ("N", "mnp"), "k": ("N", "k"),
           NP_VECS[f][0]: ("V", "x"), NP_VECS[f][1]: ("V", "xn")}
    return [("g_%s_np_update" % f, "if (%s) no_progress = %s;" % (cond, rhs), "(np k mnp : nat) (x xn : list T) : nat",
             "(if %s then %s else np)" % (tr_expr(cond, env, f + " no-progress condition", "B"), tr_expr(rhs, env, f + " no-progress update", "N")))]


def grp_gamma_of_L(repo, f):
    src = nfc(solver_src(repo, FILES[f]))
    ms = [m for m in re.finditer(r"curr->γ\s*=\s*([^;=][^;]*);", src) if not re.fullmatch(r"\w+->γ", flat(m.group(1)))]
    if len(ms) != 1:
        raise OutOfGrammar("%s initial step size: expected exactly one assignment, found %d" % (f, len(ms)))
    e = flat(ms[0].group(1))
    return [("g_%s_gamma_of_L" % f, "curr->γ = " + e, "(Lgam L : T) : T",
             tr_expr(e, {"params.Lipschitz.Lγ_factor": ("S", "Lgam"), "curr->L": ("S", "L")}, f + " initial step size", "S"))]


def grp_pantr_ratio(repo):
    src = nfc(solver_src(repo, FILES["pantr"]))
    params, body = find_lambda(src, "compute_candidate_ratio")
    m = re.fullmatch(r"real_t (\w+)", params)
    if not m:
        raise OutOfGrammar("pantr compute_candidate_ratio: parameters %r" % params)
    env = {m.group(1): ("S", "q_model"), "params.TR_tolerance_factor": ("S", "tol"), "params.Lipschitz.Lγ_factor": ("S", "Lgam"),
           "params.ratio_approx_fbe_quadratic_model": ("B", "approx"),
           "prox->fbe": ("CALL", "", ("S", "(g_pantr_fbe %s)" % fbe_params("pantr", "p_"))),
           "cand->fbe": ("CALL", "", ("S", "(g_pantr_fbe %s)" % fbe_params("pantr", "c_")))}
    return [("g_pantr_ratio", flat(body), "(approx : bool) (%s %s q_model tol Lgam : T) : T" % (fbe_params("pantr", "p_"), fbe_params("pantr", "c_")),
             tr_body(body, env, "pantr compute_candidate_ratio", "S"))]


def grp_pantr_radius(repo):
    src = nfc(solver_src(repo, FILES["pantr"]))
    params, body = find_lambda(src, "compute_updated_radius")
    m = re.fullmatch(r"crvec (\w+), ?real_t (\w+), ?real_t (\w+)", params)
    if not m:
        raise OutOfGrammar("pantr compute_updated_radius: parameters %r" % params)
    env = {m.group(1): ("V", "q"), m.group(2): ("S", "rho"), m.group(3): ("S", "old"),
           "params.ratio_threshold_good": ("S", "thr_good"), "params.ratio_threshold_acceptable": ("S", "thr_acc"),
           "params.radius_factor_good": ("S", "rf_good"), "params.radius_factor_acceptable": ("S", "rf_acc"),
           "params.radius_factor_rejected": ("S", "rf_rej")}
    out = [("g_pantr_updated_radius", flat(body), "(q : list T) (rho old thr_good thr_acc rf_good rf_acc rf_rej : T) : T",
            tr_body(body, env, "pantr compute_updated_radius", "S"))]
    m = one(r"(?<![\w>.])Δ\s*=\s*([^;]*compute_updated_radius[^;]*);", src, "pantr radius assignment")
    env2 = {"compute_updated_radius": ("CALL", "q,ρ,Δ", ("S", "r")), "params.min_radius": ("S", "min_radius")}
    out.append(("g_pantr_radius_clip", "Δ = " + flat(m.group(1)), "(r min_radius : T) : T", tr_expr(flat(m.group(1)), env2, "pantr radius assignment", "S")))
    m = one(r"\baccept_candidate\s*=\s*([^;]*ρ[^;]*);", src, "pantr accept_candidate")
    out.append(("g_pantr_accept", "accept_candidate = " + flat(m.group(1)), "(rho thr_acc : T) : bool",
                tr_expr(flat(m.group(1)), {"ρ": ("S", "rho"), "params.ratio_threshold_acceptable": ("S", "thr_acc")}, "pantr accept_candidate", "B")))
    return out


def groups():
    g = []
    for c in CRITS:
        g.append(("helpers/calc_error_stop_crit/" + c, lambda repo, c=c: grp_helpers_crit(repo, c)))
    g.append(("helpers/calc_error_stop_crit/switch", grp_helpers_assemble))
    for f in ("panoc", "zerofpr", "pantr", "fista", "ocp"):
        g.append(("%s/fbe" % f, lambda repo, f=f: grp_fbe(repo, f)))
        if f != "fista":       # FISTA's qub_violated / backtracking loop are in gen/FistaGen.v (gen_C08_fista.py)
            g.append(("%s/qub_violated" % f, lambda repo, f=f: grp_qub(repo, f)))
            g.append(("%s/qub_site_%s" % (f, "bt" if f == "pantr" else "init"), lambda repo, f=f: grp_init_site(repo, f)))
            g.append(("%s/gamma_of_L" % f, lambda repo, f=f: grp_gamma_of_L(repo, f)))
        if f in ("panoc", "zerofpr", "ocp"):
            g.append(("%s/linesearch_violated" % f, lambda repo, f=f: grp_ls(repo, f)))
            g.append(("%s/linesearch_sites" % f, lambda repo, f=f: grp_ls_site(repo, f)))
        if f != "pantr":
            g.append(("%s/no_progress" % f, lambda repo, f=f: grp_np(repo, f)))
    g.append(("pantr/compute_candidate_ratio", grp_pantr_ratio))
    g.append(("pantr/compute_updated_radius", grp_pantr_radius))
    g.append(("ocp/calc_error_stop_crit", grp_ocp_crit))
    return g


# ----------------------------------------------------------------------------- rendering, reference fallback

HEADER = ["From Coq Require Import ZArith List Bool Arith.",
          "From Alpaqa Require Import Num Vec Prox SolverKernels PanocOcp.",
          "Import ListNotations.",
          "",
          "Section KernelsGen.",
          "  Context {T : Type} `{Num T}.",
          "  Local Open Scope num_scope.",
          ""]


def com(s):
    return s.replace("(*", "( *").replace("*)", "* )")


def parse_ref(path):
    """group -> list of definition lines of the reference text"""
    out, cur = {}, None
    if not os.path.exists(path):
        return out
    for line in open(path, encoding="utf-8"):
        m = re.match(r"  \(\* group (\S+) \*\)", line)
        if m:
            cur = m.group(1); out[cur] = []
        elif cur and line.startswith("  Definition "):
            out[cur].append(line.rstrip("\n"))
        elif line.startswith("End KernelsGen"):
            cur = None
    return out


def generate(repo, ref_path=REF):
    """returns (text, status dict)"""
    ref = parse_ref(ref_path)
    lines, oog, ndefs, names = [], {}, 0, []
    for gname, fn in groups():
        lines.append("  (* group %s *)" % gname)
        try:
            defs = fn(repo)
            for name, cpp, sig, body in defs:
                lines.append("  (* C++: %s *)" % com(flat(cpp)))
                lines.append("  Definition %s %s := %s." % (name, sig, body))
                names.append(name)
            ndefs += len(defs)
        except (OutOfGrammar, OSError, UnicodeDecodeError, IndexError, ValueError) as ex:
            if gname not in ref:
                raise OutOfGrammar("group %s out of grammar (%s) and no reference text" % (gname, ex))
            oog[gname] = str(ex)
            lines.append("  (* OUT OF GRAMMAR: %s — REFERENCE TEXT (translate/ref/KernelsGen.ref.v) *)" % com(str(ex)))
            lines += ref[gname]
            for l in ref[gname]:
                names.append(l.split()[1])
        lines.append("")
    status = {"status": "translator-out-of-grammar" if oog else "ok", "definitions": len(names), "translated": ndefs,
              "groups": len(groups()), "out_of_grammar": oog}
    return "\n".join(HEADER + lines + ["End KernelsGen."]) + "\n", status


def write(repo=None, outfile=None, write_ref=False):
    repo = repo or os.environ.get("VERIF_REPO", "/repo")
    outfile = outfile or os.path.join(os.environ.get("VERIF_GEN_OUT") or os.path.join(VERIF, "coq", "gen"), "KernelsGen.v")
    body, status = generate(repo)
    if write_ref:
        if status["out_of_grammar"]:
            raise SystemExit("refusing to write a reference text from an out-of-grammar source: %s" % status["out_of_grammar"])
        os.makedirs(os.path.dirname(REF), exist_ok=True)
        open(REF, "w", encoding="utf-8").write("(* KernelsGen.ref.v — reference text of translate/gen_kernels.py (the translation of the source tree the "
                                               "framework was built against).\n   Used group by group ONLY when the current source leaves the translator's grammar. *)\n" + body)
    txt = ("(* KernelsGen.v — GENERATED by translate/gen_kernels.py on every run; do not edit.\n   origin: %s\n   status: %s *)\n"
           % (os.path.join(repo, INNER), com(json.dumps(status, ensure_ascii=False, sort_keys=True)))) + body
    os.makedirs(os.path.dirname(outfile), exist_ok=True)
    old = open(outfile, encoding="utf-8").read() if os.path.exists(outfile) else None
    if old != txt:
        open(outfile, "w", encoding="utf-8").write(txt)
    return status


if __name__ == "__main__":
    argv = [a for a in sys.argv[1:] if not a.startswith("--")]
    try:
        st = write(*(argv[:2]), write_ref="--write-ref" in sys.argv)
    except OutOfGrammar as ex:
        print(json.dumps({"status": "translator-failed", "detail": str(ex)}, ensure_ascii=False))
        sys.exit(3)
    print(json.dumps(st, ensure_ascii=False, sort_keys=True))
