#!/usr/bin/env python3
"""gen_sparsity.py — translator G14a: alpaqa's sparsity converters regenerated as Gallina from the C++ on every run.

Reads   <repo>/src/alpaqa/include/alpaqa/problem/sparsity-conversions.hpp
            every `struct SparsityConverter<From, To>` specialisation for From, To in Dense / SparseCSC / SparseCOO (9 of them):
            convert_sparsity (loop bodies as per-index step functions, guards, index arithmetic, the returned pattern),
            the constructor (member initialisers in order, then its body), convert_values
        <repo>/src/alpaqa/include/alpaqa/problem/sparsity.hpp        SparseCSC::nnz, SparseCOO::nnz
        <repo>/src/alpaqa/include/alpaqa/util/sparse-ops.hpp         the condition under which ALPAQA_HAVE_COO_CSC_CONVERSIONS is defined
            (evaluated with the feature-test macros of the harness compiler, `g++ -std=c++23 -dM -E`; off when that cannot be run)
writes  coq/gen/SparsityGen.v over the records of coq/theories/Sparsity.v and the helpers of coq/theories/SparsityGenLib.v.
coq/theories/SparsityGenEq.v proves every generated piece equal to the corresponding piece of the hand model Sparsity.v.

Engine and grammar: translate/impexec.py.  Conventions of this client:
  * dimensions, positions, CSC inner indices / outer pointers are nat; COO indices, first_index and everything computed from them
    are Z (as in Sparsity.v); a nat used where a Z is needed is `Z.of_nat` (static_cast<storage_index_t> is the identity);
  * index widths are the tag `ityp`: the width of the target is the parameter `t`, std::is_same_v<StorageIndexFrom, StorageIndexTo>
    is `ityp_eqb (<ity of from>) t`;
  * `x.resize(n)` is `repeat <default> n` (Eigen's resize does not keep the contents); `x[i] = e` / `x(i) = e` is `upd i e x`;
  * `auto &&T = v.reshaped(r, c)` is a VIEW: `T(i, j) = e` is `upd (flat r i j) e v` on the current v;
    `auto t = v.begin()` is an ITERATOR (a position); `std::ranges::copy_backward(R, t += n)` advances t, then writes R in front of it;
  * the value provider `from(x)` overwrites x with the source's value vector (parameter `vals`);
  * `request.first_index` / `request.order` are the optional parameters `first_index` / `order`; `if (opt)` is `is_some`, `*opt` is `oget`;
  * a `default:` arm that only throws is dropped when every enumerator has its own case (invalid enum values are not modelled).
A unit that leaves the grammar is replaced by its block of the committed reference text translate/ref/SparsityGen.ref.v and reported
as `translator-out-of-grammar` (never a violation by itself).

Usage: gen_sparsity.py [repo] [outfile] [--write-ref]      Prints one JSON status line."""
import json, os, re, subprocess, sys
sys.path.insert(0, os.path.dirname(os.path.abspath(__file__)))
import symexec as sx
import impexec as ix
import gen_lbfgs as gl
from symexec import OutOfGrammar
from impexec import Var, Ctx, gname, split_top, toks_text

HERE = os.path.dirname(os.path.abspath(__file__))
VERIF = os.path.dirname(HERE)
HPP = "src/alpaqa/include/alpaqa/problem/sparsity-conversions.hpp"
SPH = "src/alpaqa/include/alpaqa/problem/sparsity.hpp"
OPS = "src/alpaqa/include/alpaqa/util/sparse-ops.hpp"
REF = os.path.join(HERE, "ref", "SparsityGen.ref.v")
MACRO = "ALPAQA_HAVE_COO_CSC_CONVERSIONS"

KINDS = {"Dense": "D", "SparseCSC": "CSC", "SparseCOO": "COO"}
SHORT = {"D": "dense", "CSC": "csc", "COO": "coo"}
FIELDS = {
    "D": {"rows": ("N", "d_rows"), "cols": ("N", "d_cols"), "symmetry": ("SYM", "d_sym")},
    "CSC": {"rows": ("N", "c_rows"), "cols": ("N", "c_cols"), "symmetry": ("SYM", "c_sym"), "inner_idx": ("NV", "c_inner"),
            "outer_ptr": ("NV", "c_outer"), "order": ("ORDC", "c_order")},
    "COO": {"rows": ("N", "o_rows"), "cols": ("N", "o_cols"), "symmetry": ("SYM", "o_sym"), "row_indices": ("ZV", "o_row"),
            "col_indices": ("ZV", "o_col"), "order": ("ORDO", "o_order"), "first_index": ("Z", "o_first")},
}
ENUMS = {
    "SYM": [("Unsymmetric", "Unsym"), ("Upper", "Upper"), ("Lower", "Lower")],
    "ORDC": [("Unsorted", "CscUnsorted"), ("SortedRows", "CscSortedRows")],
    "ORDO": [("Unsorted", "CooUnsorted"), ("SortedByColsAndRows", "CooSortedByColsAndRows"), ("SortedByColsOnly", "CooSortedByColsOnly"),
             ("SortedByRowsAndCols", "CooSortedByRowsAndCols"), ("SortedByRowsOnly", "CooSortedByRowsOnly")],
}
EQB = {"SYM": "g_sym_eqb", "ORDC": "g_cscord_eqb", "ORDO": "g_cooord_eqb", "ITY": "ityp_eqb"}
ORDER_OF = {"CSC": "ORDC", "COO": "ORDO"}
MEMBER_TYPES = {"row_indices": "ZV", "col_indices": "ZV", "inner_idx": "NV", "outer_ptr": "NV", "permutation": "NV", "work": "TV"}
DEFAULT = {"NV": "0", "ZV": "0%Z", "TV": "zero"}
NIL = {"NV": "(@nil nat)", "ZV": "(@nil Z)", "TV": "(@nil T)"}
ELEM = {"NV": "N", "ZV": "Z", "TV": "S"}
DECL_TYPES = {"storage_index_t": "Z", "index_t": "N", "length_t": "N", "bool": "B", "auto": None}


class Lang:
    GTYPE = {"N": "nat", "Z": "Z", "B": "bool", "SYM": "symmetry", "ORDC": "csc_order", "ORDO": "coo_order", "ITY": "ityp",
             "OZ": "(option Z)", "OORDC": "(option csc_order)", "NV": "(list nat)", "ZV": "(list Z)", "TV": "(list T)",
             "D": "dense", "CSC": "csc", "COO": "coo", "S": "T"}
    INDEXABLE = ("NV", "ZV", "TV")

    def __init__(self, fromk, tok, tparams, units):
        self.fromk, self.tok, self.tparams, self.units = fromk, tok, tparams, units
        self.ret = None
        self.aliases = set()        # type aliases introduced by the using-declarations executed so far

    def using(self, X, text):
        """the only using-declaration of the translated bodies: `using Order = typename to_sparsity_t::Order;`"""
        if text.replace(" ", "") == "usingOrder=typenameto_sparsity_t::Order":
            self.aliases.add("Order")
            return True
        return False

    # ---- types
    def literal_default(self, v, what):
        return ("N", self.coerce(v, "N", what))

    def coerce(self, e, want, what=""):
        t, s = e[0], e[1]
        if t == want:
            return s
        if t == "L":
            q = e[2]
            if q.denominator == 1 and want == "N" and q >= 0:
                return "%d" % q.numerator
            if q.denominator == 1 and want == "Z":
                return "%d%%Z" % q.numerator if q >= 0 else "(%d)%%Z" % q.numerator
        if t == "N" and want == "Z":
            return "(Z.of_nat %s)" % s
        if t in ("OZ", "OORDC") and want == "B":
            return "(is_some %s)" % s
        if t == "EMPTY" and want in ("NV", "ZV", "TV"):
            return "[]"
        raise OutOfGrammar("%s: type %s where %s expected (%s)" % (what, t, want, s))

    def unify(self, a, b, what):
        if a[0] == "L" and b[0] == "L":
            raise OutOfGrammar("%s: operation between two literals" % what)
        if a[0] == "L":
            t = b[0]
        elif b[0] == "L":
            t = a[0]
        elif a[0] == b[0]:
            t = a[0]
        elif {a[0], b[0]} == {"N", "Z"}:
            t = "Z"
        elif a[0] == "EMPTY":
            t = b[0]
        elif b[0] == "EMPTY":
            t = a[0]
        else:
            raise OutOfGrammar("%s: operands of types %s and %s" % (what, a[0], b[0]))
        return t, self.coerce(a, t, what), self.coerce(b, t, what)

    def compare(self, op, a, b, what):
        t, x, y = self.unify(a, b, what)
        if t in ("N", "Z"):
            M = "Nat" if t == "N" else "Z"
            return ("B", {"<": "(%s.ltb %s %s)" % (M, x, y), ">": "(%s.ltb %s %s)" % (M, y, x), "<=": "(%s.leb %s %s)" % (M, x, y),
                          ">=": "(%s.leb %s %s)" % (M, y, x), "==": "(%s.eqb %s %s)" % (M, x, y), "!=": "(negb (%s.eqb %s %s))" % (M, x, y)}[op])
        if t in EQB and op in ("==", "!="):
            e = "(%s %s %s)" % (EQB[t], x, y)
            return ("B", e if op == "==" else "(negb %s)" % e)
        if t == "B" and op in ("==", "!="):
            e = "(Bool.eqb %s %s)" % (x, y)
            return ("B", e if op == "==" else "(negb %s)" % e)
        raise OutOfGrammar("%s: comparison %s on type %s" % (what, op, t))

    def arith(self, op, a, b, what):
        t, x, y = self.unify(a, b, what)
        if t == "N" and op in "+-*/":
            if op == "+" and b[0] == "L" and b[2] == 1:
                return ("N", "(S %s)" % x)
            return ("N", "(%s %s %s)" % ({"+": "Nat.add", "-": "Nat.sub", "*": "Nat.mul", "/": "Nat.div"}[op], x, y))
        if t == "Z" and op in "+-*":
            return ("Z", "(%s %s %s)" % ({"+": "Z.add", "-": "Z.sub", "*": "Z.mul"}[op], x, y))
        raise OutOfGrammar("%s: operator %s on type %s" % (what, op, t))

    def deref(self, e, what):
        if e[0] == "OZ":
            return ("Z", "(oget 0%%Z %s)" % e[1])
        if e[0] == "OORDC":
            return ("ORDC", "(oget CscUnsorted %s)" % e[1])
        raise OutOfGrammar("%s: * on type %s" % (what, e[0]))

    def neg(self, e, what):
        return ("Z", "(Z.opp %s)" % self.coerce(e, "Z", what))

    def string(self, ex, v):
        raise OutOfGrammar("%s: string literal in an expression" % ex.what)

    # ---- names
    def enum_const(self, name):
        if "::" not in name:
            return None
        q, c = name.rsplit("::", 1)
        if q == "Symmetry":
            ty = "SYM"
        elif q == "to_sparsity_t":
            ty = ORDER_OF.get(self.tok)
        elif q == "from_sparsity_t":
            ty = ORDER_OF.get(self.fromk)
        else:
            return None
        if ty is None:
            return None
        for cpp, g in ENUMS[ty]:
            if cpp == c:
                return (ty, g)
        return None

    def atom(self, ex, name):
        return self.enum_const(name)

    def member(self, ex, e, m):
        if e[0] in FIELDS and m in FIELDS[e[0]]:
            ty, f = FIELDS[e[0]][m]
            return (ty, "(%s %s)" % (f, e[1]))
        raise OutOfGrammar("%s: member %s of type %s" % (ex.what, m, e[0]))

    def method(self, ex, e, m, argt):
        if e[0] in FIELDS and m in FIELDS[e[0]]:           # from.outer_ptr(c): coefficient of a member vector
            return self.index(ex, self.member(ex, e, m), argt)
        if e[0] in ("NV", "ZV", "TV") and m == "size" and not argt:
            return ("N", "(length %s)" % e[1])
        if e[0] in ("CSC", "COO") and m == "nnz" and not argt:
            return ("N", "(g_%s_nnz %s)" % (SHORT[e[0]], e[1]))
        if e[0] == "OZ" and m == "value_or" and len(argt) == 1:
            return ("Z", "(oget %s %s)" % (self.coerce(ex.sub(argt[0]), "Z", ex.what), e[1]))
        if e[0] == "OZ" and m == "has_value" and not argt:
            return ("B", "(is_some %s)" % e[1])
        if e[0] == "OZ" and m == "value" and not argt:
            return self.deref(e, ex.what)
        raise OutOfGrammar("%s: method %s on type %s" % (ex.what, m, e[0]))

    def index(self, ex, e, argt):
        if len(argt) != 1:
            raise OutOfGrammar("%s: index arity" % ex.what)
        a = ex.sub(argt[0])
        if e[0] == "TV" and a[0] == "NV":
            return ("TV", "(gather zero %s %s)" % (e[1], a[1]))
        i = self.coerce(a, "N", ex.what)
        return (ELEM[e[0]], "(nth %s %s %s)" % (i, e[1], DEFAULT[e[0]]))

    def brace_init(self, ex, name, toks):
        if not toks:
            return ("EMPTY", "[]")
        parts = split_top(toks)
        if len(parts) == 1:
            return ex.sub(parts[0])
        raise OutOfGrammar("%s: brace initialiser %s{...}" % (ex.what, name))

    def call(self, ex, name):
        if name == "static_cast__":
            a = ex.arg_tokens()
            if len(a) != 2 or len(a[0]) != 1:
                raise OutOfGrammar("%s: static_cast" % ex.what)
            ty = a[0][0][1]
            v = ex.sub(a[1])
            if ty in ("Order", "T__Order") and "Order" not in self.aliases:
                raise OutOfGrammar("%s: static_cast to Order without `using Order = typename to_sparsity_t::Order;`" % ex.what)
            if ty.endswith("Order") and v[0] in ("ORDC", "ORDO"):
                want = ORDER_OF.get(self.tok)
                if want != v[0]:
                    raise OutOfGrammar("%s: cast between different order enums" % ex.what)
                return v
            if ty in ("T__storage_index_t", "T__index_t", "T__length_t") and v[0] in ("N", "Z", "L"):
                return v
            raise OutOfGrammar("%s: static_cast to %s of type %s" % (ex.what, ty, v[0]))
        if name == "is_same_v__":
            a = ex.arg_tokens()
            if len(a) != 2 or any(len(x) != 1 or x[0][1] not in self.tparams for x in a):
                raise OutOfGrammar("%s: std::is_same_v arguments" % ex.what)
            for x in a:
                for r in self.tparams[x[0][1]][1]:
                    ex.X.note(r)
            return ("B", "(ityp_eqb %s %s)" % (self.tparams[a[0][0][1]][0], self.tparams[a[1][0][1]][0]))
        if name == "std::ranges::is_sorted":
            a = ex.arg_tokens()
            if len(a) != 1:
                raise OutOfGrammar("%s: is_sorted arity" % ex.what)
            v = ex.sub(a[0])
            if v[0] != "NV":
                raise OutOfGrammar("%s: is_sorted on type %s" % (ex.what, v[0]))
            return ("B", "(nat_sortedb %s)" % v[1])
        return None

    def special_var(self, ex, name, var):
        X = ex.X
        if var.kind == "req":
            if not (ex.at("op", ".") and ex.peek(1)[0] == "id" and ex.peek(1)[1] in var.info):
                raise OutOfGrammar("%s: use of the conversion request" % ex.what)
            ex.eat(); m = ex.eat("id")
            X.note("req_" + m)
            return (var.info[m], "req_" + gname(m))
        if var.kind == "view":
            info = var.info
            if ex.at("op", "("):
                a = ex.arg_tokens()
                if len(a) != 2:
                    raise OutOfGrammar("%s: view access arity" % ex.what)
                r, c = (self.coerce(ex.sub(t), "Z", ex.what) for t in a)
                for n in info["reads"]:
                    X.note(n)
                return ("S", "(nth (flat %s %s %s) %s zero)" % (info["rows"], r, c, gname(info["base"])))
            if ex.at("op", ".") and ex.peek(1) == ("id", "col"):
                ex.eat(); ex.eat()
                a = ex.arg_tokens()
                if len(a) != 1 or not (ex.at("op", ".") and ex.peek(1) == ("id", "topRows")):
                    raise OutOfGrammar("%s: view column expression" % ex.what)
                ex.eat(); ex.eat()
                b = ex.arg_tokens()
                if len(b) != 1:
                    raise OutOfGrammar("%s: topRows arity" % ex.what)
                for n in info["reads"]:
                    X.note(n)
                return ("TV", "(mcol_top zero %s %s %s %s)" % (info["rows"], gname(info["base"]), self.coerce(ex.sub(a[0]), "N", ex.what),
                                                             self.coerce(ex.sub(b[0]), "N", ex.what)))
        if var.kind == "iter":
            X.note(name)
            return ("N", gname(name))
        return None

    # ---- statements
    def throw(self, X, toks):
        n = toks[0][1] if toks and toks[0][0] == "id" else None
        if n == "std::invalid_argument":
            return "ThrowInvalidArgument"
        if n == "std::runtime_error":
            return "ThrowRuntimeError"
        raise OutOfGrammar("%s: throw of %r" % (X.what, toks_text(toks)[:40]))

    def switch_arms(self, X, s, env, scrut=None):
        if scrut is None:
            save = X.reads
            X.reads = None
            try:
                scrut = X.ex(s[1], env)
            finally:
                X.reads = save
        ty = scrut[0]
        if ty not in ENUMS:
            raise OutOfGrammar("%s: switch over type %s" % (X.what, ty))
        left = [g for _, g in ENUMS[ty]]
        out = []
        default = None
        for labels, body in s[2]:
            pats = []
            for lab in labels:
                if lab == "default":
                    default = body
                    continue
                c = self.enum_const(lab[0][1]) if len(lab) == 1 and lab[0][0] == "id" else None
                if c is None or c[0] != ty:
                    raise OutOfGrammar("%s: case label %r" % (X.what, toks_text(lab)))
                if c[1] not in left:
                    raise OutOfGrammar("%s: duplicate case %s" % (X.what, c[1]))
                left.remove(c[1]); pats.append(c[1])
            if pats:
                if "default" in labels:
                    default = None
                    pats += left; left = []
                out.append((" | ".join(pats), body))
        if default is not None:
            if left:
                out.append((" | ".join(left), default)); left = []
            elif X.kinds(default, env) != {"throw"}:
                raise OutOfGrammar("%s: unreachable default arm that does more than throw" % X.what)
        if left:
            out.append((" | ".join(left), []))
        return out

    def lambda_of(self, env, lams, name):
        if name in lams:
            return lams[name][4]
        if name in env.vars and env.vars[name].kind == "lam":
            return env.vars[name].info["body"]
        return None

    def stmt_kinds(self, X, s, env, lams):
        toks = s[1] if s[0] == "expr" else (s[3] if s[0] == "assign" else (s[3] or []))
        if s[0] == "expr" and len(toks) == 3 and toks[0][0] == "id" and toks[1:] == [("op", "("), ("op", ")")]:
            b = self.lambda_of(env, lams, toks[0][1])
            if b is not None:
                e2 = env
                for n, l in lams.items():
                    e2 = e2.declare(n, Var("LAM", "lam", {"caps": l[2], "params": l[3], "body": l[4]}))
                k = X.kinds(b, e2)
                return (k - {"ret"}) | ({"fall"} if "ret" in k else set())
        if toks and toks[0] == ("id", "convert_sparsity") and self.units.get("convert_sparsity", {}).get("throws"):
            return {"fall", "throw"}
        return {"fall"}

    def decl(self, X, env, s, rest, ctx):
        _, ty, name, init, ref = s
        if name in env.vars:
            raise OutOfGrammar("%s: redeclaration of %s" % (X.what, name))
        tname = ty[0][1]
        if init is None:
            raise OutOfGrammar("%s: declaration of %s without initialiser" % (X.what, name))
        # views and iterators
        if len(init) >= 5 and init[0][0] == "id" and init[1] == ("op", ".") and init[2][0] == "id" and init[3] == ("op", "(") \
                and init[0][1] in env.vars and env.vars[init[0][1]].kind == "val" and env.vars[init[0][1]].ty == "TV":
            base, meth = init[0][1], init[2][1]
            p = ix.Expr(init[3:], env, X)
            a = p.arg_tokens(); p.end()
            if meth == "reshaped" and len(a) == 2 and tname == "auto":
                save = X.reads
                X.reads = set()
                rows = X.ex(a[0], env, "N")[1]
                X.ex(a[1], env, "N")
                reads = sorted(X.reads) + [base]
                if save is not None:
                    save |= X.reads
                X.reads = save
                return rest(env.declare(name, Var("VIEW", "view", {"base": base, "rows": rows, "reads": reads})))
            if meth == "begin" and not a and tname == "auto":
                e2 = env.declare(name, Var("N", "iter", {"base": base}))
                return "let %s := 0 in\n    %s" % (gname(name), rest(e2))
        want = DECL_TYPES.get(tname, "?")
        if want == "?":
            raise OutOfGrammar("%s: declaration type %r" % (X.what, tname))
        e = X.ex(init, env)
        if want is None:
            if e[0] in ("L", "EMPTY"):
                raise OutOfGrammar("%s: auto %s = literal" % (X.what, name))
            want = e[0]
        if tname == "storage_index_t" and e[0] == "N":
            want = "N"
        return X.let(env, name, want, self.coerce(e, want, X.what), rest)

    def decl_tuple(self, X, env, s, rest, ctx):
        raise OutOfGrammar("%s: structured binding" % X.what)

    def target(self, X, env, lhs):
        """-> (C++ variable written, type, function new-value-text -> new whole value, type of the element)"""
        if len(lhs) == 1 and lhs[0][0] == "id" and lhs[0][1] in env.vars:
            n = lhs[0][1]
            v = env.vars[n]
            if v.kind in ("val", "iter"):
                return n, v.ty, (lambda x: x), v.ty
        if len(lhs) >= 4 and lhs[0][0] == "id" and lhs[0][1] in env.vars and lhs[-1] in (("op", ")"), ("op", "]")) and lhs[1] in (("op", "("), ("op", "[")):
            n = lhs[0][1]
            v = env.vars[n]
            if v.kind == "val" and v.ty in ("NV", "ZV", "TV"):
                X.note(n)
                i = X.ex(lhs[2:-1], env, "N")[1]
                return n, v.ty, (lambda x, i=i, n=n: "(upd %s %s %s)" % (i, x, gname(n))), ELEM[v.ty]
            if v.kind == "view" and lhs[1] == ("op", "("):
                a = split_top(lhs[2:-1])
                if len(a) != 2:
                    raise OutOfGrammar("%s: view access arity" % X.what)
                r, c = (X.ex(t, env, "Z")[1] for t in a)
                for m in v.info["reads"]:
                    X.note(m)
                b = v.info["base"]
                return b, "TV", (lambda x, r=r, c=c, b=b, rows=v.info["rows"]: "(upd (flat %s %s %s) %s %s)" % (rows, r, c, x, gname(b))), "S"
        raise OutOfGrammar("%s: assignment to %r" % (X.what, toks_text(lhs)[:50]))

    def assign(self, X, env, lhs, op, rhs, rest, ctx):
        # chained assignment a = b = e  ==  b = e; a = e  (e must not read what b writes)
        depth = 0
        for p, (k, v) in enumerate(rhs):
            if k == "op" and v in ("(", "[", "{"):
                depth += 1
            elif k == "op" and v in (")", "]", "}"):
                depth -= 1
            elif (k, v) == ("op", "=") and depth == 0:
                if op != "=":
                    raise OutOfGrammar("%s: compound chained assignment" % X.what)
                inner_l, e = rhs[:p], rhs[p + 1:]
                save = X.reads
                X.reads = set()
                X.ex(e, env)
                er = set(X.reads)
                X.reads = save
                n1 = self.target(X, env, inner_l)[0]
                if n1 in er:
                    raise OutOfGrammar("%s: chained assignment whose value reads its own target" % X.what)
                return self.assign(X, env, inner_l, "=", e, lambda e2: self.assign(X, e2, lhs, "=", e, rest, ctx), ctx)
        # sparsity = convert_sparsity(from, request)   (from the member initialiser list)
        if rhs and rhs[0] == ("id", "convert_sparsity") and op == "=" and len(lhs) == 1:
            cs = self.units.get("convert_sparsity")
            if cs is None:
                raise OutOfGrammar("%s: convert_sparsity is not translated" % X.what)
            args = split_top(rhs[2:-1])
            if [toks_text(a) for a in args] != ["from", "request"]:
                raise OutOfGrammar("%s: convert_sparsity called with other arguments than (from, request)" % X.what)
            for n in cs["reads"]:
                X.note(n)
            outs = [lhs[0][1]] + cs["extra"]
            e2 = env
            for n in outs:
                e2 = e2.wrote(n)
            call = "(%s)" % " ".join([cs["name"]] + cs["args"])
            if cs["throws"]:
                if ctx.mode != "O":
                    raise OutOfGrammar("%s: throwing call in a pure context" % X.what)
                return "obind %s (fun %s =>\n    %s)" % (call, X.pat(outs), rest(e2))
            return "let %s := %s in\n    %s" % (X.pat(outs), call, rest(e2))
        n, ty, put, ety = self.target(X, env, lhs)
        e = X.ex(rhs, env)
        if op == "=":
            val = self.coerce(e, ety, X.what)
        elif op in ("+=", "-=") and ety in ("N", "Z"):
            X.note(n)
            cur = (ety, gname(n)) if put(gname(n)) == gname(n) else None
            if cur is None:
                raise OutOfGrammar("%s: compound assignment to an element" % X.what)
            val = self.arith(op[0], cur, e, X.what)[1]
        else:
            raise OutOfGrammar("%s: assignment operator %s on type %s" % (X.what, op, ety))
        return X.let(env, n, ty, put(val), rest)

    def call_stmt(self, X, env, toks, rest, ctx):
        if not toks or toks[0][0] != "id":
            raise OutOfGrammar("%s: expression statement" % X.what)
        name = toks[0][1]
        v = env.vars.get(name)
        # statement lambda: inline
        if v is not None and v.kind == "lam" and toks[1:] == [("op", "("), ("op", ")")]:
            if v.info["params"]:
                raise OutOfGrammar("%s: statement lambda with parameters" % X.what)
            return X.block(v.info["body"], 0, env, lambda e2: rest(X.leave(env, e2)), Ctx(ctx.mode, ret=None, cont=None))
        # value provider
        if v is not None and v.kind == "cb" and toks[1] == ("op", "(") and toks[-1] == ("op", ")") and len(toks) == 4 and toks[2][0] == "id":
            tgt = toks[2][1]
            if tgt not in env.vars or env.vars[tgt].kind != "val" or env.vars[tgt].ty != "TV":
                raise OutOfGrammar("%s: value provider applied to %s" % (X.what, tgt))
            X.note("vals")
            return X.let(env, tgt, "TV", "vals", rest)
        # the work buffer in the constructor: only its size is set there, its contents are written by the value provider first
        if v is not None and v.kind == "scratch" and len(toks) >= 5 and toks[1:4] == [("op", "."), ("id", "resize"), ("op", "(")] and toks[-1] == ("op", ")"):
            argt = split_top(toks[4:-1])
            if len(argt) != 1:
                raise OutOfGrammar("%s: resize arity" % X.what)
            X.ex(argt[0], env, "N")
            return rest(env)
        # x.resize(n) / x.setZero()
        if v is not None and v.kind == "val" and len(toks) >= 5 and toks[1] == ("op", ".") and toks[3] == ("op", "(") and toks[-1] == ("op", ")"):
            m, argt = toks[2][1], split_top(toks[4:-1])
            if m == "resize" and len(argt) == 1 and v.ty in DEFAULT:
                n = X.ex(argt[0], env, "N")[1]
                return X.let(env, name, v.ty, "(repeat %s %s)" % (DEFAULT[v.ty], n), rest)
            if m == "setZero" and not argt and v.ty == "TV":
                X.note(name)
                return X.let(env, name, v.ty, "(map (fun _ => zero) %s)" % gname(name), rest)
        if name == "std::ranges::transform":
            argt = split_top(toks[2:-1])
            if len(argt) != 3 or len(argt[1]) != 5 or argt[1][1:] != [("op", "."), ("id", "begin"), ("op", "("), ("op", ")")] or len(argt[2]) != 1:
                raise OutOfGrammar("%s: std::ranges::transform arguments" % X.what)
            src = X.ex(argt[0], env)
            dst = argt[1][0][1]
            f = argt[2][0][1]
            if src[0] not in ("NV", "ZV") or dst not in env.vars or env.vars[dst].kind != "val" or env.vars[dst].ty not in ("NV", "ZV") \
                    or f not in env.vars or env.vars[f].kind != "lam":
                raise OutOfGrammar("%s: std::ranges::transform operands" % X.what)
            p = ix.Expr([], env.declare("x__", Var(ELEM[src[0]], "subst", {"text": "x_"})), X)
            body = X.call_expr_lambda(p, f, [[("id", "x__")]])
            dty = env.vars[dst].ty
            X.note(dst)
            return X.let(env, dst, dty, "(blit %s 0 (map (fun x_ => %s) %s))" % (gname(dst), self.coerce(body, ELEM[dty], X.what), src[1]), rest)
        if name == "std::ranges::copy_backward":
            argt = split_top(toks[2:-1])
            if len(argt) != 2 or not argt[1] or argt[1][0][0] != "id":
                raise OutOfGrammar("%s: copy_backward arguments" % X.what)
            it = argt[1][0][1]
            if it not in env.vars or env.vars[it].kind != "iter":
                raise OutOfGrammar("%s: copy_backward destination is not an iterator" % X.what)
            base = env.vars[it].info["base"]

            def write(e2):
                rng = X.ex(argt[0], e2)
                if rng[0] != "TV":
                    raise OutOfGrammar("%s: copy_backward source of type %s" % (X.what, rng[0]))
                X.note(it); X.note(base)
                return X.let(e2, base, "TV", "(blit_back %s %s %s)" % (gname(base), gname(it), rng[1]), rest)
            if len(argt[1]) == 1:
                return write(env)
            if argt[1][1] == ("op", "+="):
                X.note(it)
                inc = X.ex(argt[1][2:], env, "N")[1]
                return X.let(env, it, "N", "(Nat.add %s %s)" % (gname(it), inc), write)
            raise OutOfGrammar("%s: copy_backward destination expression" % X.what)
        raise OutOfGrammar("%s: call statement %r" % (X.what, toks_text(toks)[:60]))

    def while_(self, X, env, s, rest, ctx):
        raise OutOfGrammar("%s: while loop" % X.what)

    def for_range(self, X, env, s, rest, ctx):
        raise OutOfGrammar("%s: range-for" % X.what)


# ----------------------------------------------------------------------------- source -> units

def macro_state(repo):
    """is ALPAQA_HAVE_COO_CSC_CONVERSIONS defined?  The guard of its #define in sparse-ops.hpp, evaluated with the compiler's
    feature-test macros."""
    src = sx.strip_comments(open(os.path.join(repo, OPS), encoding="utf-8").read())
    lines = src.split("\n")
    guard = None
    stack = []
    for ln in lines:
        s = ln.strip()
        if re.match(r"#\s*if", s):
            stack.append(s)
        elif re.match(r"#\s*endif", s) and stack:
            stack.pop()
        elif re.match(r"#\s*define\s+%s\b" % MACRO, s):
            guard = list(stack)
    if guard is None:
        return False, "not defined anywhere in sparse-ops.hpp"
    if len(guard) != 1:
        raise OutOfGrammar("macro guard nesting")
    m = re.fullmatch(r"#\s*if\s+(.*)", guard[0])
    conds = [c.strip() for c in m.group(1).split("&&")]
    need = []
    for c in conds:
        mm = re.fullmatch(r"(__cpp_lib_\w+)\s*>=\s*(\d+)L?", c)
        if not mm:
            raise OutOfGrammar("macro guard %r" % c)
        need.append((mm.group(1), int(mm.group(2))))
    try:
        cxx = os.environ.get("CXX", "g++")
        p = subprocess.run([cxx, "-std=c++23", "-dM", "-E", "-x", "c++", "-include", "version", "-include", "ranges", "/dev/null"],
                           capture_output=True, text=True, timeout=20)
        have = dict(re.findall(r"#define (__cpp_lib_\w+) (\d+)L?", p.stdout))
        if p.returncode != 0:
            return False, "compiler query failed; assumed off"
    except Exception:
        return False, "compiler query failed; assumed off"
    on = all(int(have.get(n, 0)) >= v for n, v in need)
    return on, "guard `%s` with %s" % (m.group(1), ", ".join("%s=%s" % (n, have.get(n, "undefined")) for n, _ in need))


def find_structs(src):
    """[(from kind, to kind, from index param, to index param, body text)]"""
    out = []
    for m in re.finditer(r"struct\s+SparsityConverter\s*<", src):
        i = m.end() - 1
        j = sx.balanced(src, i, "SparsityConverter")
        args = src[i + 1:j]
        b = src.find("{", j)
        if b < 0 or src[j + 1:b].strip():
            continue                       # forward declaration
        e = sx.balanced(src, b, "SparsityConverter")
        parts = [flat(p) for p in split_angle(args)]
        if len(parts) != 2:
            continue
        ks = []
        for p in parts:
            mm = re.fullmatch(r"(Dense|SparseCSC|SparseCOO)\s*<\s*Conf\s*(?:,\s*(\w+)\s*)?>", p)
            ks.append(mm)
        if not all(ks):
            continue                       # the Sparsity<Conf> dispatcher
        out.append((KINDS[ks[0].group(1)], KINDS[ks[1].group(1)], ks[0].group(2), ks[1].group(2), src[b + 1:e]))
    return out


def flat(s):
    return " ".join(s.split())


def split_angle(s):
    out, cur, depth = [], "", 0
    for ch in s:
        if ch == "<":
            depth += 1
        elif ch == ">":
            depth -= 1
        if ch == "," and depth == 0:
            out.append(cur); cur = ""
        else:
            cur += ch
    out.append(cur)
    return out


def member_decls(body):
    """declared data members, in order"""
    out = []
    top = strip_nested(body)
    for m in re.finditer(r"(?:mutable\s+)?(index_vector_t|indexvec|vec|from_sparsity_t|to_sparsity_t)\s+([\w\s,]+);", top):
        for n in m.group(2).split(","):
            out.append(n.strip())
    return out


def strip_nested(body):
    out, depth = [], 0
    for ch in body:
        if ch == "{":
            depth += 1
        elif ch == "}":
            depth -= 1
        elif depth == 0:
            out.append(ch)
    return "".join(out)


class Struct:
    def __init__(self, fromk, tok, fip, tip, body):
        self.fromk, self.tok, self.fip, self.tip, self.body = fromk, tok, fip, tip, body
        self.key = "%s_%s" % (SHORT[fromk], SHORT[tok])
        self.members = member_decls(body)
        self.units = {}
        fi = {"CSC": "(c_ity from)", "COO": "(o_ity from)"}.get(fromk)
        self.tparams = {}
        if fip and fi:
            self.tparams[fip] = (fi, ["from"])
        if tip:
            self.tparams[tip] = ("t", ["t"])
        if fip and tip and fip == tip:          # one parameter for both: same type by construction
            self.tparams[fip] = ("t", ["t"])

    def req_fields(self):
        return {"COO": {"first_index": "OZ"}, "CSC": {"order": "OORDC"}, "D": {}}[self.tok]

    def lang(self):
        return Lang(self.fromk, self.tok, self.tparams, self.units)

    def base_env(self, with_members):
        env = ix.Env()
        return env

    def persistent(self):
        return [m for m in self.members if m in ("from_sparsity", "sparsity", "permutation")]


def record_of(L, X, env, kind, inits, what):
    """designated initialisers -> constructor application"""
    fields = {}
    for part in split_top(inits):
        if not part:
            continue                      # trailing comma
        if len(part) < 4 or part[0] != ("op", ".") or part[1][0] != "id" or part[2] != ("op", "="):
            raise OutOfGrammar("%s: initialiser %r" % (what, toks_text(part)[:40]))
        fields[part[1][1]] = part[3:]
    unknown = [f for f in fields if f not in FIELDS[kind]]
    if unknown:
        raise OutOfGrammar("%s: unknown fields %s" % (what, unknown))

    def val(f, default=None):
        ty = FIELDS[kind][f][0]
        if f not in fields:
            if default is None:
                raise OutOfGrammar("%s: field %s not initialised" % (what, f))
            return default
        return L.coerce(X.ex(fields[f], env), ty, what)
    if kind == "D":
        return "(mkDense %s %s %s)" % (val("rows", "0"), val("cols", "0"), val("symmetry", "Unsym"))
    X.note("t")
    if kind == "CSC":
        return "(mkCSC t %s %s %s %s %s %s)" % (val("rows", "0"), val("cols", "0"), val("symmetry", "Unsym"), val("inner_idx", "[]"),
                                                  val("outer_ptr", "[]"), val("order", "CscUnsorted"))
    return "(mkCOO t %s %s %s %s %s %s %s)" % (val("rows", "0"), val("cols", "0"), val("symmetry", "Unsym"), val("row_indices", "[]"),
                                                 val("col_indices", "[]"), val("order", "CooUnsorted"), val("first_index", "0%Z"))


def common_params(S, env):
    """(from : ..) [t] [request fields] — the same for convert_sparsity and the constructor"""
    sig, args = [], []
    env = env.declare("from", Var(S.fromk))
    sig.append("(from : %s)" % Lang.GTYPE[S.fromk]); args.append("from")
    if S.tok != "D":
        env = env.declare("t", Var("ITY"))
        sig.append("(t : ityp)"); args.append("t")
    rf = S.req_fields()
    env = env.declare("request", Var("REQ", "req", rf))
    for f, ty in rf.items():
        env = env.declare("req_" + f, Var(ty))
        sig.append("(req_%s : %s)" % (gname(f), Lang.GTYPE[ty])); args.append("req_" + gname(f))
    return env, sig, args


def member_env(S, env, names):
    for m in names:
        if m in MEMBER_TYPES:
            env = env.declare(m, Var(MEMBER_TYPES[m]))
    return env


def unit_convert_sparsity(S):
    name = "g_%s_convert_sparsity" % S.key
    m = list(re.finditer(r"\bto_sparsity_t\s+convert_sparsity\s*\(", S.body))
    if len(m) != 1:
        raise OutOfGrammar("%s: expected one convert_sparsity, found %d" % (name, len(m)))
    k = sx.balanced(S.body, m[0].end() - 1, name)
    ptext = flat(re.sub(r"\[\[\s*maybe_unused\s*\]\]", " ", S.body[m[0].end():k]))
    if not re.fullmatch(r"from_sparsity_t from ?, ?Request( request)?", ptext):
        raise OutOfGrammar("%s: parameters %r" % (name, ptext))
    b = S.body.find("{", k)
    e = sx.balanced(S.body, b, name)
    ast = ix.parse_body(S.body[b + 1:e], name)
    L = S.lang()
    u = ix.Unit(name, L)
    X = ix.Exec(u, name)
    env, sig, args = common_params(S, ix.Env())
    idx_members = [mm for mm in S.members if mm in MEMBER_TYPES and mm != "work"]
    env0 = env
    env = member_env(S, env, idx_members)
    throws = X.may_throw(ast, env)
    extra = [mm for mm in S.persistent() if mm == "permutation"]

    def shape(e2, r):
        comps = [r] + [gname(x) for x in extra]
        for x in extra:
            X.note(x)
        t = comps[0] if len(comps) == 1 else "(%s)" % ", ".join(comps)
        return "(Ok %s)" % t if throws else t

    def ret(e2, toks):
        if toks is None:
            raise OutOfGrammar("%s: bare return" % name)
        if toks[0] == ("op", "{") and toks[-1] == ("op", "}"):
            return shape(e2, record_of(L, X, e2, S.tok, toks[1:-1], name))
        v = X.ex(toks, e2)
        if v[0] != S.tok:
            raise OutOfGrammar("%s: returns a value of type %s" % (name, v[0]))
        return shape(e2, v[1])

    def k_(e2):
        raise OutOfGrammar("%s: control reaches the end without return" % name)
    X.reads = set()
    lets = "".join("let %s := %s in\n    " % (gname(mm), NIL[MEMBER_TYPES[mm]]) for mm in idx_members)
    body = lets + X.block(ast, 0, env, k_, Ctx("O" if throws else "P", ret=ret))
    reads = set(X.reads)
    rt = Lang.GTYPE[S.tok]
    if extra:
        rt = "(%s * %s)%%type" % (rt, " * ".join(Lang.GTYPE[MEMBER_TYPES[x]] for x in extra))
    if throws:
        rt = "outcome %s" % rt
    u.defs.append((name, "%s : %s" % (" ".join(sig), rt), body, "SparsityConverter<%s, %s>::convert_sparsity" % (S.fromk, S.tok)))
    S.units["convert_sparsity"] = {"name": name, "throws": throws, "extra": extra, "args": args, "reads": [a for a in ("from", "t") if a in args] + ["req_" + f for f in S.req_fields()]}
    return u.defs


KNOWN_WORK_SIZING = ["if (sparsity.symmetry != Symmetry::Unsymmetric) work.resize(sparsity.rows * sparsity.cols);",
                     "if (permutation.size() > 0) work.resize(sparsity.nnz());"]


def unit_ctor(S):
    name = "g_%s_ctor" % S.key
    m = list(re.finditer(r"(?<![\w:])SparsityConverter\s*\(\s*from_sparsity_t\s+from\s*,\s*Request(\s+request)?\s*=\s*\{\s*\}\s*\)", S.body))
    if len(m) != 1:
        raise OutOfGrammar("%s: expected one constructor, found %d" % (name, len(m)))
    b = S.body.find("{", m[0].end())
    inits_text = S.body[m[0].end():b].strip()
    e = sx.balanced(S.body, b, name)
    ast = ix.parse_body(S.body[b + 1:e], name)
    # the size of the work buffer is not part of the model (its contents are written by the value provider before they are read),
    # but the statements that size it are accounted for: exactly one of the known ones
    known_work = [ix.parse_body(t, name)[0] for t in KNOWN_WORK_SIZING]
    for st in ast:
        if '"work"' in json.dumps(st, ensure_ascii=False) and st not in known_work:
            raise OutOfGrammar("%s: statement on the work buffer other than the known sizing statements" % name)
    pre = []
    if inits_text:
        if not inits_text.startswith(":"):
            raise OutOfGrammar("%s: text before the constructor body" % name)
        toks = ix.tokenize(ix.rewrite_templates(inits_text[1:]))
        for part in split_top(toks):
            if len(part) < 3 or part[0][0] != "id" or part[1] != ("op", "(") or part[-1] != ("op", ")"):
                raise OutOfGrammar("%s: member initialiser %r" % (name, toks_text(part)[:40]))
            mem, arg = part[0][1], part[2:-1]
            if mem not in S.members:
                raise OutOfGrammar("%s: initialiser of unknown member %s" % (name, mem))
            if mem == "work":
                pre.append(("expr", [("id", "work"), ("op", "."), ("id", "resize"), ("op", "(")] + arg + [("op", ")")]))
            else:
                pre.append(("assign", [("id", mem)], "=", arg))
    nwork = len([st for st in ast if '"work"' in json.dumps(st, ensure_ascii=False)]) + len([st for st in pre if st[0] == "expr"])
    if nwork != (1 if "work" in S.members else 0):
        raise OutOfGrammar("%s: the work buffer is sized %d times" % (name, nwork))
    order = [s[1][0][1] if s[0] == "assign" else "work" for s in pre]
    if order != [mm for mm in S.members if mm in order]:
        raise OutOfGrammar("%s: member initialisers not in declaration order" % name)
    L = S.lang()
    u = ix.Unit(name, L)
    X = ix.Exec(u, name)
    env, sig, args = common_params(S, ix.Env())
    for mm in S.members:
        if mm == "work":
            env = env.declare(mm, Var("WORK", "scratch"))
        elif mm in MEMBER_TYPES:
            env = env.declare(mm, Var(MEMBER_TYPES[mm]))
        elif mm == "sparsity":
            env = env.declare(mm, Var(S.tok))
        elif mm == "from_sparsity":
            env = env.declare(mm, Var(S.fromk))
    stmts = pre + ast
    throws = X.may_throw(stmts, env)
    pers = S.persistent()

    def k_(e2):
        for x in pers:
            if x not in e2.writes and x != "permutation":
                raise OutOfGrammar("%s: member %s is not initialised" % (name, x))
        t = X.tup(e2, pers)
        return "(Ok %s)" % t if throws else t
    lets = "".join("let %s := %s in\n    " % (gname(mm), NIL[MEMBER_TYPES[mm]]) for mm in S.members if mm in MEMBER_TYPES and mm != "work")
    body = lets + X.block(stmts, 0, env, k_, Ctx("O" if throws else "P", ret=None))
    G = Lang.GTYPE
    tys = [G[S.fromk] if x == "from_sparsity" else G[S.tok] if x == "sparsity" else G[MEMBER_TYPES[x]] for x in pers]
    rt = tys[0] if len(tys) == 1 else "(%s)%%type" % " * ".join(tys)
    if throws:
        rt = "outcome %s" % rt
    u.defs.append((name, "%s : %s" % (" ".join(sig), rt), body, "SparsityConverter<%s, %s>: the constructor (member initialisers, then the body); result = %s"
                   % (S.fromk, S.tok, ", ".join(pers))))
    return u.defs


def unit_convert_values(S):
    name = "g_%s_convert_values" % S.key
    m = list(re.finditer(r"\bvoid\s+convert_values\s*\(\s*const\s+F\s*&\s*from\s*,\s*rvec\s+to\s*\)\s*const", S.body))
    if len(m) != 1:
        raise OutOfGrammar("%s: expected one convert_values, found %d" % (name, len(m)))
    b = S.body.find("{", m[0].end())
    e = sx.balanced(S.body, b, name)
    ast = ix.parse_body(S.body[b + 1:e], name)
    L = S.lang()
    u = ix.Unit(name, L)
    X = ix.Exec(u, name)
    env = ix.Env()
    sig = []
    G = Lang.GTYPE
    for x in S.persistent():
        ty = S.fromk if x == "from_sparsity" else S.tok if x == "sparsity" else MEMBER_TYPES[x]
        env = env.declare(x, Var(ty))
        sig.append("(%s : %s)" % (gname(x), G[ty]))
    env = env.declare("vals", Var("TV"))
    env = env.declare("from", Var("CB", "cb"))
    env = env.declare("to", Var("TV"))
    if "work" in S.members:
        env = env.declare("work", Var("TV"))
    sig += ["(vals : list T)", "(to : list T)"]
    throws = X.may_throw(ast, env)

    def k_(e2):
        return "(Ok to)" if throws else "to"

    def ret(e2, toks):
        if toks is not None:
            raise OutOfGrammar("%s: value returned from a void function" % name)
        return k_(e2)
    lets = "let work := (@nil T) in\n    " if "work" in S.members else ""
    body = lets + X.block(ast, 0, env, k_, Ctx("O" if throws else "P", ret=ret))
    rt = "outcome (list T)" if throws else "list T"
    u.defs.append((name, "%s : %s" % (" ".join(sig), rt), body, "SparsityConverter<%s, %s>::convert_values; vals = what the value provider writes" % (S.fromk, S.tok)))
    return u.defs


def unit_nnz(repo, which):
    src = sx.strip_comments(open(os.path.join(repo, SPH), encoding="utf-8").read())
    cls = {"csc": "SparseCSC", "coo": "SparseCOO"}[which]
    name = "g_%s_nnz" % which
    m = re.search(r"struct\s+%s\s*\{" % cls, src)
    if not m:
        raise OutOfGrammar("%s: struct %s not found" % (name, cls))
    e = sx.balanced(src, m.end() - 1, name)
    body = src[m.end():e]
    mm = list(re.finditer(r"\blength_t\s+nnz\s*\(\s*\)\s*const", body))
    if len(mm) != 1:
        raise OutOfGrammar("%s: expected one nnz()" % name)
    b = body.find("{", mm[0].end())
    ee = sx.balanced(body, b, name)
    ast = ix.parse_body(body[b + 1:ee], name)
    kind = {"csc": "CSC", "coo": "COO"}[which]
    L = Lang(kind, kind, {}, {})
    u = ix.Unit(name, L)
    X = ix.Exec(u, name)
    env = ix.Env()
    for f, (ty, acc) in FIELDS[kind].items():
        env = env.declare(f, Var(ty, "subst", {"text": "(%s s)" % acc}))

    def ret(e2, toks):
        return X.ex(toks, e2, "N")[1]

    def k_(e2):
        raise OutOfGrammar("%s: no return" % name)
    body_g = X.block(ast, 0, env, k_, Ctx("P", ret=ret))
    return [(name, "(s : %s) : nat" % Lang.GTYPE[kind], body_g, "%s::nnz" % cls)]


def load(repo):
    on, how = macro_state(repo)
    src = sx.strip_comments(open(os.path.join(repo, HPP), encoding="utf-8").read())
    src = ix.preprocess(src, {MACRO: on})
    structs = {}
    for fk, tk, fip, tip, body in find_structs(src):
        S = Struct(fk, tk, fip, tip, body)
        if S.key in structs:
            raise OutOfGrammar("two specialisations %s" % S.key)
        structs[S.key] = S
    return structs, on, how


PAIRS = [(a, b) for b in ("dense", "coo", "csc") for a in ("dense", "csc", "coo")]
VALUE_BINDERS = "{T : Type} (zero : T)"


def units(repo, cache={}):
    def get():
        if "s" not in cache:
            try:
                cache["s"] = load(repo)
            except (OutOfGrammar, OSError) as ex:
                cache["s"] = ex
        if isinstance(cache["s"], Exception):
            raise OutOfGrammar(str(cache["s"]))
        return cache["s"]

    def struct(key):
        structs, _, _ = get()
        if key not in structs:
            raise OutOfGrammar("no specialisation SparsityConverter<%s>" % key)
        return structs[key]

    out = [("macro", "", lambda r: [("g_have_coo_csc_conversions", ": bool", "true" if get()[1] else "false",
                                     "%s — %s" % (MACRO, get()[2]))]),
           ("specialisations", "", lambda r: [("g_specialisations", ": list (fmt * fmt)",
                                               "[%s]" % "; ".join('(F%s, F%s)' % tuple(k.split("_")) for k in sorted(get()[0])),
                                               "the (From, To) pairs with a SparsityConverter specialisation")]),
           ("csc_nnz", "", lambda r: unit_nnz(r, "csc")), ("coo_nnz", "", lambda r: unit_nnz(r, "coo"))]
    for a, b in PAIRS:
        key = "%s_%s" % (a, b)
        if key != "dense_dense":
            out.append((key + "_convert_sparsity", "", lambda r, key=key: unit_convert_sparsity(struct(key))))

        def ctor(r, key=key):
            S = struct(key)
            if key != "dense_dense" and "convert_sparsity" not in S.units:
                unit_convert_sparsity(S)          # its interface (throws / extra results) is needed; may raise OutOfGrammar
            return unit_ctor(S)
        out.append((key + "_ctor", "", ctor))
        out.append((key + "_convert_values", VALUE_BINDERS, lambda r, key=key: unit_convert_values(struct(key))))
    return out


HEADER = ["From Coq Require Import ZArith List Bool Arith.",
          "From Alpaqa Require Import Sparsity SparsityGenLib.",
          "Import ListNotations.",
          "Local Open Scope nat_scope.",
          ""]
END = "(* end of SparsityGen *)"


def generate(repo, units_fn, header, end, ref_path, refname):
    ref = gl.parse_ref(ref_path)
    lines, oog, names, ntr = [], {}, [], 0
    ulist = units_fn(repo)
    for uname, binders, fn in ulist:
        lines.append("(* unit %s *)" % uname)
        try:
            defs = fn(repo)
            lines += ix.render_defs(defs, binders, "zero" if binders else "", set(d[0] for d in defs))
            names += [d[0] for d in defs]
            ntr += len(defs)
        except (OutOfGrammar, OSError, UnicodeDecodeError, IndexError, KeyError, ValueError, RecursionError, AttributeError, TypeError) as ex:
            if os.environ.get("GEN_DEBUG"):
                import traceback
                sys.stderr.write("---- %s\n%s\n" % (uname, traceback.format_exc()[-1500:]))
                lines.append("(* FAILED %s *)" % sx.com(str(ex)))
                continue
            if uname not in ref:
                raise OutOfGrammar("unit %s out of grammar (%s) and no reference text" % (uname, ex))
            oog[uname] = "%s: %s" % (type(ex).__name__, str(ex)[:300]) if not isinstance(ex, OutOfGrammar) else str(ex)[:300]
            lines.append("(* OUT OF GRAMMAR: %s — REFERENCE TEXT (translate/ref/%s) *)" % (sx.com(str(ex)[:300]), refname))
            lines += ref[uname]
            names += re.findall(r"^Definition (\S+)", "\n".join(ref[uname]), re.M)
        lines.append("")
    status = {"status": "translator-out-of-grammar" if oog else "ok", "definitions": len(names), "translated": ntr,
              "units": len(ulist), "out_of_grammar": oog, "names": names}
    return "\n".join(header + lines + [end]) + "\n", status


def write_generic(repo, outfile, write_ref, units_fn, header, end, ref_path, refname, title, origin):
    body, status = generate(repo, units_fn, header, end, ref_path, refname)
    if write_ref:
        if status["out_of_grammar"]:
            raise SystemExit("refusing to write a reference text from an out-of-grammar source: %s" % status["out_of_grammar"])
        os.makedirs(os.path.dirname(ref_path), exist_ok=True)
        open(ref_path, "w", encoding="utf-8").write(
            "(* %s — reference text of the translator (the translation of the source tree the framework was built against).\n"
            "   Used unit by unit ONLY when the current source leaves the translator's grammar. *)\n" % refname + body)
    st = dict(status)
    st.pop("names")
    txt = ("(* %s — GENERATED on every run; do not edit.\n   origin: %s\n   status: %s *)\n"
           % (title, origin, sx.com(json.dumps(st, ensure_ascii=False, sort_keys=True)))) + body
    os.makedirs(os.path.dirname(outfile), exist_ok=True)
    old = open(outfile, encoding="utf-8").read() if os.path.exists(outfile) else None
    if old != txt:
        open(outfile, "w", encoding="utf-8").write(txt)
    return status


def write(repo=None, outfile=None, write_ref=False):
    repo = repo or os.environ.get("VERIF_REPO", "/repo")
    outfile = outfile or os.path.join(os.environ.get("VERIF_GEN_OUT") or os.path.join(VERIF, "coq", "gen"), "SparsityGen.v")
    return write_generic(repo, outfile, write_ref, lambda r: units(r, {}), HEADER, END, REF, "SparsityGen.ref.v",
                         "SparsityGen.v — by translate/gen_sparsity.py", os.path.join(repo, HPP) + " , " + os.path.join(repo, SPH))


if __name__ == "__main__":
    argv = [a for a in sys.argv[1:] if not a.startswith("--")]
    try:
        st = write(*(argv[:2]), write_ref="--write-ref" in sys.argv)
    except OutOfGrammar as ex:
        print(json.dumps({"status": "translator-failed", "detail": str(ex)}, ensure_ascii=False))
        sys.exit(3)
    print(json.dumps(st, ensure_ascii=False, sort_keys=True))
