#!/usr/bin/env python3
"""G3 — translate `check_all_stop_conditions` (panoc-helpers.tpp and the local copy in panoc-ocp.tpp) into Gallina.

Restricted grammar: inside the function body we accept
    auto max_time = params.max_time; if (opts.max_time) max_time = std::min(max_time, *opts.max_time);   (required first, in this order; not part of the model: clocks are inputs)
    auto tolerance = <a> > 0 ? <a> : real_t(<lit>);
    bool <name> = <expr>;       with <expr> ::= atom (<|<=|>|>=|==) atom | not std::isfinite(atom) | call stop_requested()
    return c1 ? SolverStatus::S1 : c2 ? SolverStatus::S2 : ... : SolverStatus::Busy;
and emit a function over an arbitrary Num T:
    stop_status_<suffix> (opts_tol eps : T) (time_exceeded : bool) (iteration max_iter no_progress max_no_progress : nat)
                        (stop_requested : bool) : status
The body is consumed statement by statement in this order; anything else -> out-of-grammar (exit 2), reported by the check, which then relies on the correspondence only."""
import os, re, sys
sys.path.insert(0, os.path.join(os.path.dirname(os.path.abspath(__file__)), "..", "lib"))
from vf import core

class OutOfGrammar(Exception):
    pass

ATOMS = {
    "time_elapsed > max_time": "time_exceeded",
    "iteration == params.max_iter": "Nat.eqb iteration max_iter",
    "stop_signal.stop_requested()": "stop_requested",
    "not std::isfinite(εₖ)": "negb (nfinite eps)",
    "!std::isfinite(εₖ)": "negb (nfinite eps)",
    "εₖ <= tolerance": "nleb eps tolerance",
    "no_progress > params.max_no_progress": "Nat.ltb max_no_progress no_progress",
}

def norm(s):
    return re.sub(r"\s+", " ", s.strip())

def translate_body(body, suffix):
    # consume-everything: the body is read statement by statement, in order; every statement must be the next accepted form
    rest = re.sub(r"//[^\n]*", "", body)
    rest = re.sub(r"/\*.*?\*/", "", rest, flags=re.S)
    pos = [0]

    def take(pattern, what, optional=False):
        m = re.compile(r"\s*" + pattern, re.S).match(rest, pos[0])
        if not m:
            if optional:
                return None
            raise OutOfGrammar("%s expected at: %s" % (what, norm(rest[pos[0]:])[:120]))
        pos[0] = m.end()
        return m
    # the time limit: exactly these two statements, in this order (the model takes `time_elapsed > max_time` as an input)
    take(r"auto\s+max_time\s*=\s*params\.max_time\s*;", "`auto max_time = params.max_time;`")
    take(r"if\s*\(opts\.max_time\)\s*max_time\s*=\s*std::min\(max_time,\s*\*opts\.max_time\)\s*;", "`if (opts.max_time) max_time = std::min(max_time, *opts.max_time);`")
    m = take(r"auto\s+tolerance\s*=\s*opts\.tolerance\s*>\s*0\s*\?\s*opts\.tolerance\s*:\s*real_t\(([0-9.eE+-]+)\)\s*;", "tolerance definition")
    deflt = m.group(1)
    # default tolerance as an exact rational: mantissa / 10^k
    mm = re.fullmatch(r"1e-(\d+)", deflt)
    if not mm:
        raise OutOfGrammar("default tolerance literal " + deflt)
    k = int(mm.group(1))
    bools = {}
    while True:
        bm = take(r"bool\s+(\w+)\s*=\s*([^;]+);", "bool definition", optional=True)
        if not bm:
            break
        name, expr = bm.group(1), norm(bm.group(2))
        if expr not in ATOMS:
            raise OutOfGrammar("bool %s = %s" % (name, expr))
        if name in bools:
            raise OutOfGrammar("bool %s defined twice" % name)
        bools[name] = ATOMS[expr]
    rm = take(r"return\s+([^;]*);", "return")
    if rest[pos[0]:].strip():
        raise OutOfGrammar("statement outside the grammar: " + norm(rest[pos[0]:])[:120])
    chain = norm(rm.group(1))
    toks = re.findall(r"(\w+)\s*\?\s*SolverStatus::(\w+)", chain)
    tail = re.search(r":\s*SolverStatus::(\w+)\s*$", chain)
    if not toks or not tail:
        raise OutOfGrammar("ternary chain")
    rebuilt = " : ".join("%s ? SolverStatus::%s" % t for t in toks) + " : SolverStatus::" + tail.group(1)
    if norm(rebuilt) != chain:
        raise OutOfGrammar("ternary chain shape: " + chain)
    for c, _ in toks:
        if c not in bools:
            raise OutOfGrammar("unknown condition " + c)
    out = []
    out.append("Definition default_tolerance_%s {T} `{Num T} : T := ndiv n1 (nofZ (10 ^ %d)%%Z)." % (suffix, k))
    out.append("Definition stop_status_%s {T} `{Num T} (opts_tol eps : T) (time_exceeded : bool)" % suffix)
    out.append("    (iteration max_iter no_progress max_no_progress : nat) (stop_requested : bool) : status :=")
    out.append("  let tolerance := if nltb n0 opts_tol then opts_tol else default_tolerance_%s in" % suffix)
    for name, e in bools.items():
        out.append("  let %s := %s in" % (name, e))
    expr = "St" + tail.group(1)
    for c, s in reversed(toks):
        expr = "if %s then St%s else %s" % (c, s, expr)
    out.append("  " + expr + ".")
    # the bare chain on booleans (order of the arms), for theorems about precedence
    args = " ".join(c for c, _ in toks)
    expr2 = "St" + tail.group(1)
    for c, s in reversed(toks):
        expr2 = "if %s then St%s else %s" % (c, s, expr2)
    out.append("Definition chain_%s (%s : bool) : status := %s." % (suffix, args, expr2))
    out.append("Definition chain_order_%s : list status := [%s]." % (suffix, "; ".join("St" + s for _, s in toks)))
    return "\n".join(out)

def function_body(src, name):
    i = src.find(name)
    if i < 0:
        raise OutOfGrammar("function %s not found" % name)
    # body: from the first '{' after the parameter list's closing ')' to its match
    j = src.find(") {", i)
    if j < 0:
        raise OutOfGrammar("function body")
    k = j + 2
    depth = 0
    for p in range(k, len(src)):
        if src[p] == "{":
            depth += 1
        elif src[p] == "}":
            depth -= 1
            if depth == 0:
                return src[k + 1:p]
    raise OutOfGrammar("unbalanced braces")

def main():
    inc = os.path.join(core.REPO, "src/alpaqa/include/alpaqa/implementation/inner")
    outs = ["(* GENERATED by translate/gen_stopchain.py from %s — do not edit *)" % inc,
            "From Coq Require Import ZArith List Bool Arith.", "From Alpaqa Require Import Num SolverStatus.", "Import ListNotations.", ""]
    status = {}
    for fname, suffix, fn in [("panoc-helpers.tpp", "helpers", "check_all_stop_conditions("),
                              ("panoc-ocp.tpp", "ocp", "check_all_stop_conditions = ")]:
        src = open(os.path.join(inc, fname), encoding="utf-8").read()
        try:
            if suffix == "ocp":
                i = src.find("auto check_all_stop_conditions")
                if i < 0:
                    raise OutOfGrammar("ocp lambda not found")
                j = src.find("{", src.find(")", i))
                depth = 0
                for p in range(j, len(src)):
                    if src[p] == "{": depth += 1
                    elif src[p] == "}":
                        depth -= 1
                        if depth == 0:
                            body = src[j + 1:p]; break
            else:
                body = function_body(src, fn)
            outs.append(translate_body(body, suffix))
            status[suffix] = "ok"
        except OutOfGrammar as e:
            status[suffix] = "out-of-grammar: %s" % e
            outs.append("(* %s: %s *)" % (suffix, status[suffix]))
        outs.append("")
    os.makedirs((os.environ.get("VERIF_GEN_OUT") or os.path.join(core.COQ, "gen")), exist_ok=True)
    p = os.path.join(os.environ.get("VERIF_GEN_OUT") or os.path.join(core.COQ, "gen"), "StopChain.v")
    txt = "\n".join(outs) + "\n"
    if not os.path.exists(p) or open(p).read() != txt:
        open(p, "w").write(txt)
    print(status)
    return 0 if all(v == "ok" for v in status.values()) else 2

if __name__ == "__main__":
    sys.exit(main())
