#!/usr/bin/env python3
"""gen_steihaug.py — translator G11b: alpaqa::SteihaugCG regenerated as Gallina from the C++ on every run.

Reads   <repo>/src/alpaqa/include/alpaqa/accelerators/steihaugcg.hpp
            get_boundaries_intersections (root formula with copysign, fmin / fmax ordering)
            solve: initialisation, zero-gradient return, the tolerance formula, the lambda `eval`, and the BODY of `while (true)` as a
            step function  result + state  (negative-curvature branch, NaN exit, boundary branch, interior update of s / r / d / z,
            termination tests), and the function itself (`while_fuel fuel step init`)
writes  coq/gen/SteihaugGen.v over the `Num` class; context of every definition: the Hessian product B (hess_prod), the parameters
        tol_scale, tol_scale_root, tol_max, and max_iter = (index_t) round(n * max_iter_factor) as an integer (the cast / std::round is
        not translated: the expression must be exactly that one, else out of grammar).
coq/theories/SteihaugGenEq.v proves the generated pieces equal to Steihaug.v's definitions.

Engine and grammar: translate/symexec.py.  Conventions: `auto z = v(this->z)` with `v = [n](auto &v) { return v.topRows(n); }` makes z another
name of the work vector (the first n rows of a vector resized to n); `auto &pa = r` is an alias; `hess_prod(x, out)` is `out := B x`;
`work_eval` is a scratch buffer of the lambda `eval`.  A unit that leaves the grammar is replaced by its block of the committed reference
text translate/ref/SteihaugGen.ref.v and reported as `translator-out-of-grammar` (never a violation by itself).

Usage: gen_steihaug.py [repo] [outfile] [--write-ref]      Prints one JSON status line."""
import json, os, re, sys
sys.path.insert(0, os.path.dirname(os.path.abspath(__file__)))
import symexec as sx
from symexec import OutOfGrammar
import gen_lbfgs as gl

HERE = os.path.dirname(os.path.abspath(__file__))
VERIF = os.path.dirname(HERE)
HPP = "src/alpaqa/include/alpaqa/accelerators/steihaugcg.hpp"
REF = os.path.join(HERE, "ref", "SteihaugGen.ref.v")

ATOMS = {"params.tol_scale": ("S", "tol_scale"), "params.tol_scale_root": ("S", "tol_scale_root"), "params.tol_max": ("S", "tol_max"),
         "NaN_config_t": ("S", "gnan")}
MAX_ITER_ARG = "real_t(n)*params.max_iter_factor"


class SHooks(sx.Hooks):
    def resolve(self, ex, name, call, has_rest):
        u, env = ex.u, ex.env
        if not call and name in ATOMS:
            return ATOMS[name]
        if call and name == "std::round":
            argt = ex.arg_tokens()
            if len(argt) != 1 or "".join(t[1] for t in argt[0]) != MAX_ITER_ARG:
                raise OutOfGrammar("%s: std::round of something else than n * max_iter_factor" % ex.what)
            return ("Z", "max_iter")
        if call and name == "get_boundaries_intersections":
            a = ex.args()
            if len(a) != 3:
                raise OutOfGrammar("%s: arity of get_boundaries_intersections" % ex.what)
            return ("P2", "(g_bnd %s %s %s)" % (sx.coerce(a[0], "V"), sx.coerce(a[1], "V"), sx.coerce(a[2], "S")))
        return None

    def call_stmt(self, X, env, toks, rest):
        # hess_prod(x, out)
        if len(toks) >= 6 and toks[0] == ("id", "hess_prod") and toks[1] == ("op", "(") and toks[-1] == ("op", ")"):
            p = sx.Expr(toks[1:], env, X.u, X.what)
            argt = p.arg_tokens(); p.end()
            if len(argt) != 2 or len(argt[1]) != 1 or not env.has(argt[1][0][1]):
                raise OutOfGrammar("%s: hess_prod arguments" % X.what)
            x = X.ex(argt[0], env, "V")[1]
            return X.bind(env, argt[1][0][1], "V", "(B %s)" % x, rest)
        return None


def src_of(repo):
    s = sx.strip_comments(open(os.path.join(repo, HPP), encoding="utf-8").read())
    return s.replace("NaN<config_t>", "NaN_config_t").replace("inf<config_t>", "inf_config_t")


def unit_bnd(repo):
    what = "g_bnd"
    ptext, body = sx.find_function_body(src_of(repo), r"\bstatic\s+auto\s+get_boundaries_intersections\s*\(", what)
    params = gl.parse_params(ptext, {}, what)
    ast = sx.parse_body(body, what)
    u = sx.Unit(what, SHooks())
    u.store = "<none>"
    X = sx.Exec(u, what)
    env = sx.Env()
    sig = []
    for c, t in params:
        env.cells[c] = sx.Cell(t, gl.pname(c))
        sig.append("(%s : %s)" % (gl.pname(c), sx.GTYPE[t]))

    def ret(env2, v):
        if v is None or v == "throw":
            raise OutOfGrammar("%s: bare return / throw" % what)
        return X.ex(v, env2, "P2")[1]

    def k(env2):
        raise OutOfGrammar("%s: control reaches the end without return" % what)
    body_g = X.block(ast, 0, env, k, ret)
    u.defs.append((what, "%s : (T * T)%%type" % " ".join(sig), body_g, "get_boundaries_intersections — the function"))
    return u.defs


def unit_solve(repo):
    what = "g_solve"
    ptext, body = sx.find_function_body(src_of(repo), r"\breal_t\s+solve\s*\(", what)
    if sx.flat(ptext) != "const auto &grad, const HessFun &hess_prod, real_t trust_radius, rvec step":
        raise OutOfGrammar("%s: parameters %r" % (what, sx.flat(ptext)))
    ast = sx.parse_body(body, what)
    u = sx.Unit(what, SHooks())
    u.store = "<none>"
    u.int_type = "Z"
    u.scratch = {"work_eval"}
    X = sx.Exec(u, what)
    env = sx.Env()
    sig = ["(fuel : nat)"]
    # the members (work vectors) and the parameters
    for c, ident in (("this->z", "z0"), ("this->r", "r0"), ("this->d", "d0"), ("this->Bd", "Bd0"), ("work_eval", "we0"),
                     ("grad", "grad"), ("trust_radius", "trust_radius"), ("step", "step")):
        t = "S" if c == "trust_radius" else "V"
        env.cells[c] = sx.Cell(t, ident)
    sig += ["(z0 r0 d0 Bd0 we0 : list T)", "(grad : list T)", "(trust_radius : T)", "(step : list T)"]

    def raw(env2, v):
        if v is None or v == "throw":
            raise OutOfGrammar("%s: bare return / throw" % what)
        return "(%s, %s)" % (X.ex(v, env2, "S")[1], u.val(env2, "step")[1])
    u.ret_raw = raw
    u.ret_gtype = "(T * list T)"

    def ret(env2, v):
        return "(Some %s)" % raw(env2, v)

    def k(env2):
        raise OutOfGrammar("%s: control reaches the end without return" % what)
    body_g = X.block(ast, 0, env, k, ret)
    u.defs.append((what, "%s : option (T * list T)" % " ".join(sig), body_g,
                   "SteihaugCG::solve — the function: (returned value, step); None = the while (true) loop ran out of fuel"))
    return u.defs


def unit_tolerance(repo):
    """the tolerance formula, as its own definition: the initialiser of `real_t tolerance = ...;` in solve, over ‖g‖"""
    what = "g_tolerance"
    ptext, body = sx.find_function_body(src_of(repo), r"\breal_t\s+solve\s*\(", what)
    ms = list(re.finditer(r"\breal_t\s+tolerance\s*=\s*([^;]+);", body))
    if len(ms) != 1:
        raise OutOfGrammar("%s: expected exactly one declaration of `tolerance`, found %d" % (what, len(ms)))
    u = sx.Unit(what, SHooks())
    u.store = "<none>"
    X = sx.Exec(u, what)
    env = sx.Env()
    env.cells["grad_mag"] = sx.Cell("S", "grad_mag")
    e = X.ex(sx.tokenize(ms[0].group(1)), env, "S")[1]
    return [(what, "(grad_mag : T) : T", e, "real_t tolerance = " + sx.flat(ms[0].group(1)))]


def units():
    return [("get_boundaries_intersections", unit_bnd), ("tolerance", unit_tolerance), ("solve", unit_solve)]


HEADER = ["From Coq Require Import ZArith List Bool Arith.",
          "From Alpaqa Require Import Num Vec SteihaugGenLib.",
          "Import ListNotations.",
          "Local Open Scope num_scope.",
          "",
          "(* every definition takes the same context: the number system, hess_prod as B, the parameters, max_iter as an integer *)",
          ""]
BINDERS = "{T : Type} {HN : Num T} (B : list T -> list T) (tol_scale tol_scale_root tol_max : T) (max_iter : Z)"
CTX_ARGS = "B tol_scale tol_scale_root tol_max max_iter"
END = "(* end of SteihaugGen *)"


def write(repo=None, outfile=None, write_ref=False):
    repo = repo or os.environ.get("VERIF_REPO", "/repo")
    outfile = outfile or os.path.join(os.environ.get("VERIF_GEN_OUT") or os.path.join(VERIF, "coq", "gen"), "SteihaugGen.v")
    return gl.write_generic(repo, outfile, write_ref, units, HEADER, END, REF, "SteihaugGen.ref.v",
                            "SteihaugGen.v — by translate/gen_steihaug.py", os.path.join(repo, HPP), BINDERS, CTX_ARGS)


if __name__ == "__main__":
    argv = [a for a in sys.argv[1:] if not a.startswith("--")]
    try:
        st = write(*(argv[:2]), write_ref="--write-ref" in sys.argv)
    except OutOfGrammar as ex:
        print(json.dumps({"status": "translator-failed", "detail": str(ex)}, ensure_ascii=False))
        sys.exit(3)
    print(json.dumps(st, ensure_ascii=False, sort_keys=True))
