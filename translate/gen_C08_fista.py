#!/usr/bin/env python3
"""gen_C08_fista.py — translator for C08.

Reads  <repo>/src/alpaqa/include/alpaqa/implementation/inner/fista.tpp  and writes  coq/gen/FistaGen.v :
the scalar kernels of the FISTA loop as Gallina functions over `Num`, translated expression by expression
(recursive descent over a restricted C++ expression grammar), so that the theorems' subject changes when
the source changes:

  t_next       <-  real_t t_new = <expr in t>;                       (momentum recurrence)
  extrap1      <-  curr->x = curr->x̂ + <expr> * (curr->x̂ - prev_x̂);   (extrapolation, one component)
  qub_margin   <-  real_t margin = <expr>;                           (inside the qub_violated lambda)
  qub_violated <-  return <lhs> > <rhs>;                             (inside the qub_violated lambda)
  bt_guard     <-  while (<expr> && qub_violated(*curr))             (first conjunct of the backtracking loop)
  bt_gamma/bt_L<-  curr->γ /= 2;  curr->L *= 2;                        (loop body)
  gamma_of_L   <-  curr->γ = params.Lipschitz.Lγ_factor / curr->L;

Usage:  gen_C08_fista.py [repo] [outfile]     (defaults: $VERIF_REPO or /repo, <verif>/coq/gen/FistaGen.v)
Returns a dict {name: (cpp_text, gallina_text)} from generate(); raises OutOfGrammar when the source region
has left the restricted grammar (the caller then falls back to the reference kernels and says so).
Consume-everything (translate/strict.py, DESIGN §9.4): the qub_violated lambda is exactly `real_t margin = E; return E;`, the backtracking
loop body exactly γ update, L update, eval_prox_grad_step(*curr); eval_ψx̂(*curr); ++s.stepsize_backtracks; stepsize_changed = true;
the momentum group three consecutive statements — any other statement there is out of grammar."""
import os, re, sys, unicodedata
from fractions import Fraction
sys.path.insert(0, os.path.dirname(os.path.abspath(__file__)))
import strict

HERE = os.path.dirname(os.path.abspath(__file__))
VERIF = os.path.dirname(HERE)
SRC_REL = "src/alpaqa/include/alpaqa/implementation/inner/fista.tpp"


class OutOfGrammar(Exception):
    pass


# ----------------------------------------------------------------------------- tokenizer

def _is_id_char(c):
    return c.isalnum() or c == "_" or unicodedata.category(c).startswith("M")


def tokenize(s):
    toks, i = [], 0
    while i < len(s):
        c = s[i]
        if c.isspace():
            i += 1
        elif c.isdigit() or (c == "." and i + 1 < len(s) and s[i + 1].isdigit()):
            j = i
            while j < len(s) and (s[j].isdigit() or s[j] == "."):
                j += 1
            toks.append(("num", s[i:j])); i = j
        elif _is_id_char(c):
            j = i
            while j < len(s):
                if _is_id_char(s[j]):
                    j += 1
                elif s.startswith("->", j) and j + 2 < len(s) and _is_id_char(s[j + 2]):
                    j += 2
                elif s.startswith("::", j) and j + 2 < len(s) and _is_id_char(s[j + 2]):
                    j += 2
                elif s[j] == "." and j + 1 < len(s) and _is_id_char(s[j + 1]) and not s[j + 1].isdigit():
                    j += 1
                else:
                    break
            toks.append(("id", s[i:j])); i = j
        elif s[i:i + 2] in ("&&", "||", ">=", "<=", "==", "!="):
            toks.append(("op", s[i:i + 2])); i += 2
        elif c in "+-*/()<>":
            toks.append(("op", c)); i += 1
        else:
            raise OutOfGrammar("unexpected character %r in %r" % (c, s))
    return toks


# ----------------------------------------------------------------------------- parser -> Gallina

class Parser:
    """expr := sum (cmp sum)? ; sum := prod ((+|-) prod)* ; prod := unary ((*|/) unary)* ;
       unary := - unary | atom ; atom := num | id | std::sqrt(expr) | std::abs(expr) | real_t(expr) | (expr)"""

    def __init__(self, text, env):
        self.t = tokenize(text)
        self.i = 0
        self.env = env
        self.text = text

    def peek(self):
        return self.t[self.i] if self.i < len(self.t) else (None, None)

    def eat(self, kind=None, val=None):
        k, v = self.peek()
        if k is None or (kind and k != kind) or (val is not None and v != val):
            raise OutOfGrammar("expected %s %s at token %d of %r" % (kind, val, self.i, self.text))
        self.i += 1
        return v

    def parse(self):
        e = self.expr()
        if self.i != len(self.t):
            raise OutOfGrammar("trailing tokens in %r" % self.text)
        return e

    def expr(self):
        a = self.sum()
        k, v = self.peek()
        if k == "op" and v in (">", "<", ">=", "<="):
            self.i += 1
            b = self.sum()
            return {">": "(%s <? %s)" % (b, a), "<": "(%s <? %s)" % (a, b),
                    ">=": "(%s <=? %s)" % (b, a), "<=": "(%s <=? %s)" % (a, b)}[v]
        return a

    def sum(self):
        a = self.prod()
        while self.peek() in (("op", "+"), ("op", "-")):
            op = self.eat()
            b = self.prod()
            a = "(%s %s %s)" % (a, op, b)
        return a

    def prod(self):
        a = self.unary()
        while self.peek() in (("op", "*"), ("op", "/")):
            op = self.eat()
            b = self.unary()
            a = "(%s %s %s)" % (a, op, b)
        return a

    def unary(self):
        if self.peek() == ("op", "-"):
            self.eat()
            return "(- %s)" % self.unary()
        return self.atom()

    def number(self, txt):
        try:
            q = Fraction(txt)
        except ValueError:
            raise OutOfGrammar("bad number %r" % txt)
        if q.denominator & (q.denominator - 1):
            raise OutOfGrammar("non-dyadic literal %r" % txt)

        def z(n):
            return "n0" if n == 0 else "n1" if n == 1 else "(nofZ %d%%Z)" % n
        return z(q.numerator) if q.denominator == 1 else "(%s / %s)" % (z(q.numerator), z(q.denominator))

    def atom(self):
        k, v = self.peek()
        if k == "num":
            self.eat()
            return self.number(v)
        if k == "op" and v == "(":
            self.eat()
            e = self.expr()
            self.eat("op", ")")
            return e
        if k == "id":
            self.eat()
            if v in ("std::sqrt", "std::abs", "real_t"):
                self.eat("op", "(")
                e = self.expr()
                self.eat("op", ")")
                return {"std::sqrt": "(nsqrt %s)", "std::abs": "(nabs %s)", "real_t": "%s"}[v] % e
            if v in self.env:
                return self.env[v]
            raise OutOfGrammar("unknown identifier %r in %r" % (v, self.text))
        raise OutOfGrammar("unexpected token %r in %r" % ((k, v), self.text))


def tr(text, env):
    return Parser(text, env).parse()


# ----------------------------------------------------------------------------- source extraction

def strip_comments(src):
    src = re.sub(r"/\*.*?\*/", " ", src, flags=re.S)
    return re.sub(r"//[^\n]*", " ", src)


def one(pattern, src, what):
    m = re.findall(pattern, src, flags=re.S)
    if len(m) != 1:
        raise OutOfGrammar("%s: expected exactly one match, found %d" % (what, len(m)))
    return m[0]


def flat(s):
    return " ".join(s.split())


def one_match(pattern, src, what):
    m = list(re.finditer(pattern, src, flags=re.S))
    if len(m) != 1:
        raise OutOfGrammar("%s: expected exactly one match, found %d" % (what, len(m)))
    return m[0]


def generate(repo):
    """consume-everything (translate/strict.py): every statement of the qub_violated lambda, of the backtracking loop and of the
    momentum / extrapolation group is either translated or one of the statements listed here, in this order"""
    path = os.path.join(repo, SRC_REL)
    src = strip_comments(open(path, encoding="utf-8").read())
    out = {}
    try:
        # --- momentum recurrence and extrapolation: three consecutive statements
        m = one_match(r"real_t\s+t_new\s*=", src, "t_new")
        r = strict.account(strict.statements_from(src, m.start(), 3),
                           [("t_new", r"real_t\s+t_new\s*=\s*([^;]+);", "1"),
                            ("exchange", strict.lit("real_t t_prev = std::exchange(t, t_new);"), "1"),
                            ("extrap", r"if\s*\(\s*params\.disable_acceleration\s*\)\s*curr->x\s*=\s*([^;]+);\s*else\s*curr->x\s*=\s*([^;]+);", "1")],
                           "momentum / extrapolation group")
        e = flat(r["t_new"].group(1))
        out["t_next"] = (e, "(t : T) : T", tr(e, {"t": "t"}))
        one(r"real_t\s+t_prev\s*=", src, "t_prev")
        one(r"if\s*\(\s*params\.disable_acceleration\s*\)", src, "extrapolation if/else")
        if flat(r["extrap"].group(1)) != "curr->x̂":
            raise OutOfGrammar("disable_acceleration branch is not `curr->x = curr->x̂`: %r" % r["extrap"].group(1))
        e = flat(r["extrap"].group(2))
        out["extrap1"] = (e, "(t_prev t xh xhp : T) : T",
                          tr(e, {"t": "t", "t_prev": "t_prev", "curr->x̂": "xh", "prev_x̂": "xhp"}))
        # --- quadratic upper bound test: the lambda body is exactly `real_t margin = E; return E;`
        lam = one(r"auto\s+qub_violated\s*=\s*\[this\]\s*\(const\s+Iterate\s*&i\)\s*\{(.*?)\};", src, "qub_violated lambda")
        r = strict.account(strict.split_statements(lam), [("margin", r"real_t\s+margin\s*=\s*([^;]+);", "1"), ("ret", r"return\s+([^;]+);", "1")],
                           "qub_violated lambda")
        e = flat(r["margin"].group(1))
        out["qub_margin"] = (e, "(psx tol : T) : T",
                             tr(e, {"i.ψx": "psx", "params.quadratic_upperbound_tolerance_factor": "tol"}))
        e = flat(r["ret"].group(1))
        out["qub_violated"] = (e, "(psx psxh gp L pp tol : T) : bool",
                               tr(e, {"i.ψx": "psx", "i.ψx̂": "psxh", "i.grad_ψᵀp": "gp", "i.L": "L", "i.pᵀp": "pp",
                                      "margin": "(qub_margin psx tol)"}))
        if not out["qub_violated"][2].startswith("(") or "<?" not in out["qub_violated"][2] and "<=?" not in out["qub_violated"][2]:
            raise OutOfGrammar("qub_violated does not return a comparison")
        # --- backtracking loop: condition `<guard> && qub_violated(*curr)`, body = these six statements in this order
        m = one_match(r"while\s*\((?=[^{;]*qub_violated\()", src, "backtracking loop")
        cond, body, _ = strict.control(strict.statement_at(src, m.start()), "while")
        cm = re.fullmatch(r"(.*?)&&\s*qub_violated\(\s*\*curr\s*\)", cond)
        if not cm:
            raise OutOfGrammar("backtracking loop condition %r" % cond)
        e = flat(cm.group(1))
        out["bt_guard"] = (e, "(L Lmax : T) : bool", tr(e, {"curr->L": "L", "params.L_max": "Lmax"}))
        r = strict.account(strict.split_statements(body),
                           [("gamma", r"curr->γ\s*([*/])=\s*([^;]+);", "1"), ("L", r"curr->L\s*([*/])=\s*([^;]+);", "1"),
                            ("step", strict.lit("eval_prox_grad_step(*curr);"), "1"), ("psi", strict.lit("eval_ψx̂(*curr);"), "1"),
                            ("count", strict.lit("++s.stepsize_backtracks;"), "1"), ("flag", strict.lit("stepsize_changed = true;"), "1")],
                           "backtracking loop body")
        op, e = r["gamma"].group(1), r["gamma"].group(2)
        out["bt_gamma"] = ("curr->γ %s= %s" % (op, flat(e)), "(gam : T) : T", "(gam %s %s)" % (op, tr(flat(e), {})))
        op, e = r["L"].group(1), r["L"].group(2)
        out["bt_L"] = ("curr->L %s= %s" % (op, flat(e)), "(L : T) : T", "(L %s %s)" % (op, tr(flat(e), {})))
    except strict.Unaccounted as ex:
        raise OutOfGrammar(str(ex))
    # --- initial step size
    e = flat(one(r"curr->γ\s*=\s*([^;]+);", src, "initial γ"))
    out["gamma_of_L"] = (e, "(Lgam L : T) : T", tr(e, {"params.Lipschitz.Lγ_factor": "Lgam", "curr->L": "L"}))
    return out


REFERENCE = {   # Beck–Teboulle kernels; used ONLY when the source has left the grammar (reported in the evidence)
    "t_next": ("(reference)", "(t : T) : T", "((n1 + (nsqrt (n1 + (((nofZ 4%Z) * t) * t)))) / (nofZ 2%Z))"),
    "extrap1": ("(reference)", "(t_prev t xh xhp : T) : T", "(xh + (((t_prev - n1) / t) * (xh - xhp)))"),
    "qub_margin": ("(reference)", "(psx tol : T) : T", "((n1 + (nabs psx)) * tol)"),
    "qub_violated": ("(reference)", "(psx psxh gp L pp tol : T) : bool",
                     "((((psx + gp) + (((n1 / (nofZ 2%Z)) * L) * pp)) + (qub_margin psx tol)) <? psxh)"),
    "bt_guard": ("(reference)", "(L Lmax : T) : bool", "(L <? Lmax)"),
    "bt_gamma": ("(reference)", "(gam : T) : T", "(gam / (nofZ 2%Z))"),
    "bt_L": ("(reference)", "(L : T) : T", "(L * (nofZ 2%Z))"),
    "gamma_of_L": ("(reference)", "(Lgam L : T) : T", "(Lgam / L)"),
}
ORDER = ["t_next", "extrap1", "qub_margin", "qub_violated", "bt_guard", "bt_gamma", "bt_L", "gamma_of_L"]


def render(defs, origin):
    L = ["(* FistaGen.v — GENERATED by translate/gen_C08_fista.py; do not edit.",
         "   origin: %s *)" % origin,
         "From Coq Require Import ZArith List Bool.",
         "From Alpaqa Require Import Num.",
         "",
         "Section FistaGen.",
         "  Context {T : Type} `{Num T}.",
         "  Local Open Scope num_scope.",
         ""]
    for k in ORDER:
        cpp, sig, body = defs[k]
        L.append("  (* C++: %s *)" % cpp.replace("*)", "* )").replace("(*", "( *"))
        L.append("  Definition %s %s := %s." % (k, sig, body))
        L.append("")
    L.append("End FistaGen.")
    return "\n".join(L) + "\n"


def write(repo=None, outfile=None):
    """returns (status, detail, defs): status 'ok' | 'translator-out-of-grammar'"""
    repo = repo or os.environ.get("VERIF_REPO", "/repo")
    outfile = outfile or os.path.join(os.environ.get("VERIF_GEN_OUT") or os.path.join(VERIF, "coq", "gen"), "FistaGen.v")
    try:
        defs = generate(repo)
        status, detail = "ok", ""
        origin = os.path.join(repo, SRC_REL)
    except (OutOfGrammar, OSError, UnicodeDecodeError) as ex:
        defs, status, detail = dict(REFERENCE), "translator-out-of-grammar", str(ex)
        origin = "REFERENCE kernels (source out of grammar: %s)" % str(ex).replace("*)", "* )")
    txt = render(defs, origin)
    os.makedirs(os.path.dirname(outfile), exist_ok=True)
    old = open(outfile).read() if os.path.exists(outfile) else None
    if old != txt:               # keep the timestamp when nothing changed (no needless recompilation)
        open(outfile, "w").write(txt)
    return status, detail, defs


if __name__ == "__main__":
    st, det, defs = write(*(sys.argv[1:3]))
    print(st, det)
    for k in ORDER:
        print("%-13s %s" % (k, defs[k][2]))
