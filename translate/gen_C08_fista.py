#!/usr/bin/env python3
"""gen_C08_fista.py — translator for C08.

Reads  <repo>/src/alpaqa/include/alpaqa/implementation/inner/fista.tpp  and writes  coq/gen/FistaGen.v :
the scalar kernels of the FISTA loop as Gallina functions over `Num`, translated expression by expression
(recursive descent over a restricted C++ expression grammar), so that the theorems' subject changes when
the source changes:

  t_next       <-  real_t t_new = <expr in t>;                       (momentum recurrence)
  extrap1      <-  curr->x = curr->x̂ + <expr> * (curr->x̂ - prev_x̂);   (extrapolation, one component)
  qub_margin   <-  real_t margin = <expr>;                           (inside the qub_violated lambda)
  qub_violated <-  return <lhs> > <rhs>;                             (inside the qub_violated lambda)
  bt_guard     <-  while (<expr> && qub_violated(*curr))             (first conjunct of the backtracking loop)
  bt_gamma/bt_L<-  curr->γ /= 2;  curr->L *= 2;                        (loop body)
  gamma_of_L   <-  curr->γ = params.Lipschitz.Lγ_factor / curr->L;

Usage:  gen_C08_fista.py [repo] [outfile]     (defaults: $VERIF_REPO or /repo, <verif>/coq/gen/FistaGen.v)
Returns a dict {name: (cpp_text, gallina_text)} from generate(); raises OutOfGrammar when the source region
has left the restricted grammar (the caller then falls back to the reference kernels and says so)."""
import os, re, sys, unicodedata
from fractions import Fraction

HERE = os.path.dirname(os.path.abspath(__file__))
VERIF = os.path.dirname(HERE)
SRC_REL = "src/alpaqa/include/alpaqa/implementation/inner/fista.tpp"


class OutOfGrammar(Exception):
    pass


# ----------------------------------------------------------------------------- tokenizer

def _is_id_char(c):
    return c.isalnum() or c == "_" or unicodedata.category(c).startswith("M")


def tokenize(s):
    toks, i = [], 0
    while i < len(s):
        c = s[i]
        if c.isspace():
            i += 1
        elif c.isdigit() or (c == "." and i + 1 < len(s) and s[i + 1].isdigit()):
            j = i
            while j < len(s) and (s[j].isdigit() or s[j] == "."):
                j += 1
            toks.append(("num", s[i:j])); i = j
        elif _is_id_char(c):
            j = i
            while j < len(s):
                if _is_id_char(s[j]):
                    j += 1
                elif s.startswith("->", j) and j + 2 < len(s) and _is_id_char(s[j + 2]):
                    j += 2
                elif s.startswith("::", j) and j + 2 < len(s) and _is_id_char(s[j + 2]):
                    j += 2
                elif s[j] == "." and j + 1 < len(s) and _is_id_char(s[j + 1]) and not s[j + 1].isdigit():
                    j += 1
                else:
                    break
            toks.append(("id", s[i:j])); i = j
        elif s[i:i + 2] in ("&&", "||", ">=", "<=", "==", "!="):
            toks.append(("op", s[i:i + 2])); i += 2
        elif c in "+-*/()<>":
            toks.append(("op", c)); i += 1
        else:
            raise OutOfGrammar("unexpected character %r in %r" % (c, s))
    return toks


# ----------------------------------------------------------------------------- parser -> Gallina

class Parser:
    """expr := sum (cmp sum)? ; sum := prod ((+|-) prod)* ; prod := unary ((*|/) unary)* ;
       unary := - unary | atom ; atom := num | id | std::sqrt(expr) | std::abs(expr) | real_t(expr) | (expr)"""

    def __init__(self, text, env):
        self.t = tokenize(text)
        self.i = 0
        self.env = env
        self.text = text

    def peek(self):
        return self.t[self.i] if self.i < len(self.t) else (None, None)

    def eat(self, kind=None, val=None):
        k, v = self.peek()
        if k is None or (kind and k != kind) or (val is not None and v != val):
            raise OutOfGrammar("expected %s %s at token %d of %r" % (kind, val, self.i, self.text))
        self.i += 1
        return v

    def parse(self):
        e = self.expr()
        if self.i != len(self.t):
            raise OutOfGrammar("trailing tokens in %r" % self.text)
        return e

    def expr(self):
        a = self.sum()
        k, v = self.peek()
        if k == "op" and v in (">", "<", ">=", "<="):
            self.i += 1
            b = self.sum()
            return {">": "(%s <? %s)" % (b, a), "<": "(%s <? %s)" % (a, b),
                    ">=": "(%s <=? %s)" % (b, a), "<=": "(%s <=? %s)" % (a, b)}[v]
        return a

    def sum(self):
        a = self.prod()
        while self.peek() in (("op", "+"), ("op", "-")):
            op = self.eat()
            b = self.prod()
            a = "(%s %s %s)" % (a, op, b)
        return a

    def prod(self):
        a = self.unary()
        while self.peek() in (("op", "*"), ("op", "/")):
            op = self.eat()
            b = self.unary()
            a = "(%s %s %s)" % (a, op, b)
        return a

    def unary(self):
        if self.peek() == ("op", "-"):
            self.eat()
            return "(- %s)" % self.unary()
        return self.atom()

    def number(self, txt):
        try:
            q = Fraction(txt)
        except ValueError:
            raise OutOfGrammar("bad number %r" % txt)
        if q.denominator & (q.denominator - 1):
            raise OutOfGrammar("non-dyadic literal %r" % txt)

        def z(n):
            return "n0" if n == 0 else "n1" if n == 1 else "(nofZ %d%%Z)" % n
        return z(q.numerator) if q.denominator == 1 else "(%s / %s)" % (z(q.numerator), z(q.denominator))

    def atom(self):
        k, v = self.peek()
        if k == "num":
            self.eat()
            return self.number(v)
        if k == "op" and v == "(":
            self.eat()
            e = self.expr()
            self.eat("op", ")")
            return e
        if k == "id":
            self.eat()
            if v in ("std::sqrt", "std::abs", "real_t"):
                self.eat("op", "(")
                e = self.expr()
                self.eat("op", ")")
                return {"std::sqrt": "(nsqrt %s)", "std::abs": "(nabs %s)", "real_t": "%s"}[v] % e
            if v in self.env:
                return self.env[v]
            raise OutOfGrammar("unknown identifier %r in %r" % (v, self.text))
        raise OutOfGrammar("unexpected token %r in %r" % ((k, v), self.text))


def tr(text, env):
    return Parser(text, env).parse()


# ----------------------------------------------------------------------------- source extraction

def strip_comments(src):
    src = re.sub(r"/\*.*?\*/", " ", src, flags=re.S)
    return re.sub(r"//[^\n]*", " ", src)


def one(pattern, src, what):
    m = re.findall(pattern, src, flags=re.S)
    if len(m) != 1:
        raise OutOfGrammar("%s: expected exactly one match, found %d" % (what, len(m)))
    return m[0]


def flat(s):
    return " ".join(s.split())


def generate(repo):
    path = os.path.join(repo, SRC_REL)
    src = strip_comments(open(path, encoding="utf-8").read())
    out = {}
    # --- momentum recurrence
    e = flat(one(r"real_t\s+t_new\s*=\s*([^;]+);", src, "t_new"))
    out["t_next"] = (e, "(t : T) : T", tr(e, {"t": "t"}))
    one(r"real_t\s+t_prev\s*=\s*std::exchange\(\s*t\s*,\s*t_new\s*\)\s*;", src, "t_prev = std::exchange(t, t_new)")
    # --- extrapolation (two assignments to curr->x guarded by disable_acceleration)
    m = one(r"if\s*\(\s*params\.disable_acceleration\s*\)\s*curr->x\s*=\s*([^;]+);\s*else\s*curr->x\s*=\s*([^;]+);", src,
            "extrapolation if/else")
    if flat(m[0]) != "curr->x̂":
        raise OutOfGrammar("disable_acceleration branch is not `curr->x = curr->x̂`: %r" % m[0])
    e = flat(m[1])
    out["extrap1"] = (e, "(t_prev t xh xhp : T) : T",
                      tr(e, {"t": "t", "t_prev": "t_prev", "curr->x̂": "xh", "prev_x̂": "xhp"}))
    # --- quadratic upper bound test
    lam = one(r"auto\s+qub_violated\s*=\s*\[this\]\s*\(const\s+Iterate\s*&i\)\s*\{(.*?)\};", src, "qub_violated lambda")
    e = flat(one(r"real_t\s+margin\s*=\s*([^;]+);", lam, "margin"))
    out["qub_margin"] = (e, "(psx tol : T) : T",
                         tr(e, {"i.ψx": "psx", "params.quadratic_upperbound_tolerance_factor": "tol"}))
    e = flat(one(r"return\s+([^;]+);", lam, "qub return"))
    out["qub_violated"] = (e, "(psx psxh gp L pp tol : T) : bool",
                           tr(e, {"i.ψx": "psx", "i.ψx̂": "psxh", "i.grad_ψᵀp": "gp", "i.L": "L", "i.pᵀp": "pp",
                                  "margin": "(qub_margin psx tol)"}))
    if not out["qub_violated"][2].startswith("(") or "<?" not in out["qub_violated"][2] and "<=?" not in out["qub_violated"][2]:
        raise OutOfGrammar("qub_violated does not return a comparison")
    # --- backtracking loop
    m = one(r"while\s*\(([^{;]*?)&&\s*qub_violated\(\s*\*curr\s*\)\s*\)\s*\{(.*?)\}", src, "backtracking loop")
    e = flat(m[0])
    out["bt_guard"] = (e, "(L Lmax : T) : bool", tr(e, {"curr->L": "L", "params.L_max": "Lmax"}))
    body = m[1]
    op, e = one(r"curr->γ\s*([*/])=\s*([^;]+);", body, "γ update in loop")
    out["bt_gamma"] = ("curr->γ %s= %s" % (op, flat(e)), "(gam : T) : T", "(gam %s %s)" % (op, tr(flat(e), {})))
    op, e = one(r"curr->L\s*([*/])=\s*([^;]+);", body, "L update in loop")
    out["bt_L"] = ("curr->L %s= %s" % (op, flat(e)), "(L : T) : T", "(L %s %s)" % (op, tr(flat(e), {})))
    # the loop must recompute the step and ψ(x̂) (order is checked by the correspondence, presence here)
    if not re.search(r"eval_prox_grad_step\(\*curr\);\s*eval_ψx̂\(\*curr\);", body):
        raise OutOfGrammar("backtracking loop body does not recompute step and ψ(x̂)")
    # --- initial step size
    e = flat(one(r"curr->γ\s*=\s*([^;]+);", src, "initial γ"))
    out["gamma_of_L"] = (e, "(Lgam L : T) : T", tr(e, {"params.Lipschitz.Lγ_factor": "Lgam", "curr->L": "L"}))
    return out


REFERENCE = {   # Beck–Teboulle kernels; used ONLY when the source has left the grammar (reported in the evidence)
    "t_next": ("(reference)", "(t : T) : T", "((n1 + (nsqrt (n1 + (((nofZ 4%Z) * t) * t)))) / (nofZ 2%Z))"),
    "extrap1": ("(reference)", "(t_prev t xh xhp : T) : T", "(xh + (((t_prev - n1) / t) * (xh - xhp)))"),
    "qub_margin": ("(reference)", "(psx tol : T) : T", "((n1 + (nabs psx)) * tol)"),
    "qub_violated": ("(reference)", "(psx psxh gp L pp tol : T) : bool",
                     "((((psx + gp) + (((n1 / (nofZ 2%Z)) * L) * pp)) + (qub_margin psx tol)) <? psxh)"),
    "bt_guard": ("(reference)", "(L Lmax : T) : bool", "(L <? Lmax)"),
    "bt_gamma": ("(reference)", "(gam : T) : T", "(gam / (nofZ 2%Z))"),
    "bt_L": ("(reference)", "(L : T) : T", "(L * (nofZ 2%Z))"),
    "gamma_of_L": ("(reference)", "(Lgam L : T) : T", "(Lgam / L)"),
}
ORDER = ["t_next", "extrap1", "qub_margin", "qub_violated", "bt_guard", "bt_gamma", "bt_L", "gamma_of_L"]


def render(defs, origin):
    L = ["(* FistaGen.v — GENERATED by translate/gen_C08_fista.py; do not edit.",
         "   origin: %s *)" % origin,
         "From Coq Require Import ZArith List Bool.",
         "From Alpaqa Require Import Num.",
         "",
         "Section FistaGen.",
         "  Context {T : Type} `{Num T}.",
         "  Local Open Scope num_scope.",
         ""]
    for k in ORDER:
        cpp, sig, body = defs[k]
        L.append("  (* C++: %s *)" % cpp.replace("*)", "* )").replace("(*", "( *"))
        L.append("  Definition %s %s := %s." % (k, sig, body))
        L.append("")
    L.append("End FistaGen.")
    return "\n".join(L) + "\n"


def write(repo=None, outfile=None):
    """returns (status, detail, defs): status 'ok' | 'translator-out-of-grammar'"""
    repo = repo or os.environ.get("VERIF_REPO", "/repo")
    outfile = outfile or os.path.join(os.environ.get("VERIF_GEN_OUT") or os.path.join(VERIF, "coq", "gen"), "FistaGen.v")
    try:
        defs = generate(repo)
        status, detail = "ok", ""
        origin = os.path.join(repo, SRC_REL)
    except (OutOfGrammar, OSError, UnicodeDecodeError) as ex:
        defs, status, detail = dict(REFERENCE), "translator-out-of-grammar", str(ex)
        origin = "REFERENCE kernels (source out of grammar: %s)" % str(ex).replace("*)", "* )")
    txt = render(defs, origin)
    os.makedirs(os.path.dirname(outfile), exist_ok=True)
    old = open(outfile).read() if os.path.exists(outfile) else None
    if old != txt:               # keep the timestamp when nothing changed (no needless recompilation)
        open(outfile, "w").write(txt)
    return status, detail, defs


if __name__ == "__main__":
    st, det, defs = write(*(sys.argv[1:3]))
    print(st, det)
    for k in ORDER:
        print("%-13s %s" % (k, defs[k][2]))
