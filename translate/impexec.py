"""impexec.py — shared engine of translate/gen_sparsity.py and translate/gen_csv.py (not a translator by itself).

A second, statement-oriented symbolic executor next to symexec.py (whose tokenizer, comment stripper, brace matcher and name
mangling it reuses).  What it adds over symexec.Exec: exceptions (`throw` inside loops and branches: the result type of a unit
that can throw is `outcome X`, loops whose body can throw are `ofold`, everything else stays a plain `let` / `fold_left`),
`switch` over an enum (-> `match`), `continue`, nested for loops with bounds computed at loop entry, `<=` bounds, `while`
loops with fuel, designated-initialiser returns, local lambdas (expression lambdas are inlined at the call, statement lambdas
`[&] { ... }` are inlined as a block), views (`auto &&T = to.reshaped(r, c)`) and iterators (`auto t = to.begin()`).

Generated text uses SHADOWING: the Gallina name of a C++ variable is its (ASCII-mangled) name, an assignment is
`let x := e in`, so the generated definitions read like the source.

Grammar
  stmt := '{' stmt* '}' | 'if' ['constexpr'] '(' e ')' stmt ['else' stmt] | 'switch' '(' e ')' '{' arms '}'
        | 'for' '(' ty id '=' e ';' id ('<'|'<=') e ';' '++' id ')' stmt | 'while' '(' e ')' stmt
        | 'return' [e | '{' '.' id '=' e, ... '}'] ';' | 'throw' id '(' ... ')' ';' | 'continue' ';' | 'break' ';' (switch arm end only)
        | decl ';' | lvalue ('='|'+='|'-=') e ';' (chained `a = b = e` allowed) | '++' id ';' | id '++' ';' | call ';'
        | 'assert' '(' ... ')' ';' (skipped: NDEBUG build) | 'using' ... ';' (only if the client language's `using` hook accepts it)
        a statement after return / throw / continue / break or after an if whose branches all leave is out of grammar (unreachable)
  arms := ('case' label ':' | 'default' ':')+ stmt* ['break' ';']  — an arm either ends with break / throw / return / continue
          or is empty (`[[fallthrough]]`: its labels are added to the next arm); real fall-through is out of grammar;
          a `default:` arm that only throws and is unreachable (all enumerators have a case) is dropped.
if / switch: when at most one arm can fall through the continuation is placed in that arm; when several arms fall through
(and none returns / continues) the variables they assign are merged (`let '(a, b) := if .. in` / `obind (if ..) (fun '(a, b) =>`);
otherwise the continuation is duplicated into the arms.
Everything else raises OutOfGrammar.  Deterministic, python3 stdlib only."""
import re
from fractions import Fraction
import symexec as sx
from symexec import OutOfGrammar, tokenize, ascii_name, com, flat, balanced, strip_comments, nfc

KEYWORDS = {"return", "throw", "if", "for", "while", "switch", "case", "default", "break", "continue", "using", "else", "assert",
            "do", "goto", "try", "catch", "new", "delete"}
RESERVED = {"fun", "let", "in", "if", "then", "else", "match", "end", "at", "as", "return", "with", "fix", "forall", "exists", "Type",
            "Set", "Prop", "S", "O", "Ok", "T", "zero", "fuel", "nil", "cons", "tt", "true", "false", "None", "Some", "fst", "snd", "length",
            "nth", "map", "seq", "rev", "upd", "flat", "repeat"}


def gname(c):
    n = ascii_name(c)
    return n + "_" if n in RESERVED else n


def toks_text(toks):
    return " ".join(t[1] for t in toks)


def split_top(toks, sep=","):
    out, cur, depth = [], [], 0
    for k, v in toks:
        if k == "op" and v in ("(", "[", "{"):
            depth += 1
        elif k == "op" and v in (")", "]", "}"):
            depth -= 1
        if (k, v) == ("op", sep) and depth == 0:
            out.append(cur); cur = []
        else:
            cur.append((k, v))
    if cur or out:
        out.append(cur)
    return out


def preprocess(src, macros):
    """evaluate `#if NAME` / `#ifdef NAME` / `#if !NAME` / `#else` / `#endif` for the macros given (name -> bool); other
    conditionals are out of grammar; `#include`, `#pragma`, `#define`-free text assumed"""
    out, stack = [], []
    for line in src.split("\n"):
        s = line.strip()
        if s.startswith("#"):
            m = re.match(r"#\s*(if|ifdef|ifndef|else|endif|elif)\b\s*(.*)", s)
            if not m:
                out.append("")
                continue
            d, arg = m.group(1), m.group(2).strip()
            if d in ("if", "ifdef", "ifndef"):
                neg = d == "ifndef"
                if d == "if" and arg.startswith("!"):
                    neg, arg = True, arg[1:].strip()
                if arg not in macros:
                    raise OutOfGrammar("preprocessor conditional on %r" % arg)
                stack.append(bool(macros[arg]) != neg)
            elif d == "else":
                if not stack:
                    raise OutOfGrammar("#else without #if")
                stack[-1] = not stack[-1]
            elif d == "endif":
                if not stack:
                    raise OutOfGrammar("#endif without #if")
                stack.pop()
            else:
                raise OutOfGrammar("#elif")
            out.append("")
        else:
            out.append(line if all(stack) else "")
    if stack:
        raise OutOfGrammar("unterminated #if")
    return "\n".join(out)


def rewrite_templates(text):
    """template-argument syntax that the token grammar cannot tell from comparisons -> call syntax"""
    text = re.sub(r"\[\[\s*maybe_unused\s*\]\]", " ", text)
    text = re.sub(r"\[\[\s*nodiscard\s*\]\]", " ", text)
    text = re.sub(r"\[\[\s*fallthrough\s*\]\]", "__fallthrough", text)

    def cast(m):
        return "static_cast__(%s, " % ("T__" + ascii_name(re.sub(r"\s+", "", m.group(1)).replace("::", "__").replace("*", "_ptr")))
    text = re.sub(r"static_cast\s*<\s*((?:typename\s+|const\s+)?[\w:]+(?:\s*\*)?)\s*>\s*\(", cast, text)
    text = re.sub(r"std::is_same_v\s*<\s*(\w+)\s*,\s*(\w+)\s*>", r"is_same_v__(\1, \2)", text)
    return text


# ----------------------------------------------------------------------------- statements -> AST

class Parser:
    def __init__(self, text, what):
        self.t = tokenize(rewrite_templates(text))
        self.i = 0
        self.what = what

    def oog(self, msg):
        raise OutOfGrammar("%s: %s" % (self.what, msg))

    def peek(self, k=0):
        return self.t[self.i + k] if self.i + k < len(self.t) else (None, None)

    def at(self, kind, val, k=0):
        return self.peek(k) == (kind, val)

    def eat(self, kind=None, val=None):
        k, v = self.peek()
        if k is None or (kind and k != kind) or (val is not None and v != val):
            self.oog("expected %s %s, found %r" % (kind or "", val or "", v))
        self.i += 1
        return v

    def until(self, stops):
        depth, out = 0, []
        while True:
            k, v = self.peek()
            if k is None:
                self.oog("unexpected end looking for %s" % (stops,))
            if k == "op" and depth == 0 and v in stops:
                self.i += 1
                return out, v
            if k == "op" and v in ("(", "{", "["):
                depth += 1
            elif k == "op" and v in (")", "}", "]"):
                depth -= 1
                if depth < 0:
                    self.oog("unbalanced")
            out.append((k, v)); self.i += 1

    def group(self, o, c):
        self.eat("op", o)
        depth, out = 1, []
        while True:
            k, v = self.peek()
            if k is None:
                self.oog("unbalanced %s" % o)
            self.i += 1
            if (k, v) == ("op", o):
                depth += 1
            elif (k, v) == ("op", c):
                depth -= 1
                if depth == 0:
                    return out
            out.append((k, v))

    def sub(self, toks):
        p = Parser("", self.what)
        p.t = list(toks)
        return p

    def block(self):
        out = []
        while self.peek()[0] is not None and not self.at("op", "}"):
            s = self.stmt()
            if s is not None:
                out.append(s)
        return out

    def body(self):
        s = self.stmt()
        if s is None:
            return []
        return s[1] if s[0] == "block" else [s]

    def stmt(self):
        k, v = self.peek()
        if (k, v) == ("op", "{"):
            self.eat()
            b = self.block()
            self.eat("op", "}")
            return ("block", b)
        if (k, v) == ("op", ";"):
            self.eat()
            return None
        if k == "id" and v == "assert":
            self.until((";",))
            return None
        if k == "id" and v == "using":
            toks, _ = self.until((";",))
            return ("using", "".join(t[1] + (" " if t[0] == "id" else "") for t in toks).strip())
        if (k, v) == ("id", "__fallthrough"):
            self.eat(); self.eat("op", ";")
            return ("fallthrough",)
        if (k, v) == ("id", "if"):
            self.eat()
            cx = False
            if self.at("id", "constexpr"):
                self.eat(); cx = True
            c = self.group("(", ")")
            a = self.body()
            b = None
            if self.at("id", "else"):
                self.eat()
                b = self.body()
            return ("if", c, a, b, cx)
        if (k, v) == ("id", "switch"):
            self.eat()
            e = self.group("(", ")")
            inner = self.sub(self.group("{", "}"))
            return ("switch", e, inner.arms())
        if (k, v) == ("id", "return"):
            self.eat()
            e, _ = self.until((";",))
            return ("return", e or None)
        if (k, v) == ("id", "throw"):
            self.eat()
            e, _ = self.until((";",))
            return ("throw", e)
        if (k, v) == ("id", "continue"):
            self.eat(); self.eat("op", ";")
            return ("continue",)
        if (k, v) == ("id", "break"):
            self.eat(); self.eat("op", ";")
            return ("break",)
        if (k, v) == ("id", "while"):
            self.eat()
            c = self.group("(", ")")
            return ("while", c, self.body())
        if (k, v) == ("id", "for"):
            self.eat()
            return self.for_(self.group("(", ")"))
        if k == "id" and v in KEYWORDS:
            self.oog("statement %s" % v)
        if (k, v) == ("op", "++") and self.peek(1)[0] == "id" and self.at("op", ";", 2):
            self.eat(); n = self.eat("id"); self.eat()
            return ("incr", n)
        if k == "id" and self.at("op", "++", 1) and self.at("op", ";", 2):
            n = self.eat("id"); self.eat(); self.eat()
            return ("incr", n)
        toks, _ = self.until((";",))
        return self.simple(toks)

    def simple(self, toks):
        """declaration / assignment / call, from the tokens up to `;`"""
        j = 0
        while j < len(toks) and toks[j] in (("id", "const"), ("id", "static"), ("id", "constexpr"), ("id", "typename"), ("id", "mutable")):
            j += 1
        d = toks[j:]
        # structured binding: auto [a, b] = e
        if len(d) >= 2 and d[0] == ("id", "auto") and d[1] == ("op", "["):
            c = d.index(("op", "]"))
            names = [t[1] for t in d[2:c] if t[0] == "id"]
            if d[c + 1] != ("op", "="):
                self.oog("structured binding")
            return ("decl_tuple", names, d[c + 2:])
        if len(d) >= 2 and d[0][0] == "id" and d[0][1] not in KEYWORDS:
            ty = [d[0]]
            p = 1
            ref = False
            while p < len(d) and d[p] in (("op", "&"), ("op", "&&"), ("op", "*"), ("id", "const")):
                if d[p][1] in ("&", "&&"):
                    ref = True
                ty.append(d[p]); p += 1
            if p < len(d) and d[p][0] == "id" and d[p][1] not in KEYWORDS and (p + 1 == len(d) or d[p + 1] in (("op", "="), ("op", "{"), ("op", ","))):
                name = d[p][1]
                rest = d[p + 1:]
                if not rest:
                    return ("decl", ty, name, None, ref)
                if rest[0] == ("op", ","):
                    self.oog("several declarators in one declaration")
                if rest[0] == ("op", "{"):
                    if rest[-1] != ("op", "}"):
                        self.oog("brace initialiser")
                    return ("decl", ty, name, rest[1:-1] or None, ref)
                init = rest[1:]
                if init and init[0] == ("op", "["):            # lambda
                    q = self.sub(init)
                    caps = q.group("[", "]")
                    ps = q.group("(", ")") if q.at("op", "(") else []
                    body = q.sub(q.group("{", "}")).block()
                    if q.peek()[0] is not None:
                        self.oog("text after a lambda body")
                    return ("lambda", name, caps, ps, body)
                return ("decl", ty, name, init, ref)
        # assignment (possibly chained)
        depth = 0
        for p, (kk, vv) in enumerate(toks):
            if kk == "op" and vv in ("(", "[", "{"):
                depth += 1
            elif kk == "op" and vv in (")", "]", "}"):
                depth -= 1
            elif kk == "op" and depth == 0 and vv in ("=", "+=", "-=", "*=", "/=", "|="):
                return ("assign", toks[:p], vv, toks[p + 1:])
        return ("expr", toks)

    def arms(self):
        arms, labels = [], []
        while self.peek()[0] is not None:
            if self.at("id", "case"):
                self.eat()
                lab, _ = self.until((":",))
                labels.append(lab)
                continue
            if self.at("id", "default"):
                self.eat(); self.eat("op", ":")
                labels.append("default")
                continue
            if not labels:
                self.oog("statement before the first case label")
            body = []
            while self.peek()[0] is not None and not self.at("id", "case") and not self.at("id", "default"):
                s = self.stmt()
                if s is not None:
                    body.append(s)
            if len(body) == 1 and body[0][0] == "block":
                body = body[0][1]
            elif len(body) == 2 and body[0][0] == "block" and body[1] == ("break",):
                body = body[0][1] + [body[1]]
            if body == [("fallthrough",)] or not body:
                continue                       # labels accumulate
            if body[-1] == ("break",):
                body = body[:-1]
            elif body[-1][0] not in ("throw", "return", "continue"):
                self.oog("switch arm falls through into the next one")
            if any(s == ("break",) or s == ("fallthrough",) for s in body):
                self.oog("break / fallthrough in the middle of a switch arm")
            arms.append((labels, body))
            labels = []
        if labels:
            self.oog("labels without statements at the end of a switch")
        return arms

    def for_(self, hdr):
        parts = split_top(hdr, ";")
        body = self.body()
        if len(parts) == 1:
            p = parts[0]
            if ("op", ":") in p:
                c = p.index(("op", ":"))
                names = [t[1] for t in p[:c] if t[0] == "id" and t[1] not in ("auto", "const")]
                if len(names) >= 1:
                    return ("for_range", names[-1], p[c + 1:], body)
            self.oog("range-for header")
        if len(parts) != 3:
            self.oog("for header")
        init, cond, inc = parts
        if len(init) < 4 or init[0][0] != "id" or init[1][0] != "id" or init[2] != ("op", "="):
            self.oog("for init")
        var, lo = init[1][1], init[3:]
        if inc not in ([("op", "++"), ("id", var)], [("id", var), ("op", "++")]):
            self.oog("for increment")
        if len(cond) >= 3 and cond[0] == ("id", var) and cond[1] in (("op", "<"), ("op", "<=")):
            return ("for", var, lo, cond[1][1], cond[2:], body)
        self.oog("for condition")


def parse_body(text, what):
    p = Parser(text, what)
    b = p.block()
    if p.peek()[0] is not None:
        p.oog("trailing tokens from %r" % p.peek()[1])
    return b


# ----------------------------------------------------------------------------- environment

class Var:
    __slots__ = ("ty", "kind", "info")

    def __init__(self, ty, kind="val", info=None):
        self.ty, self.kind, self.info = ty, kind, info


class Env:
    def __init__(self):
        self.vars = {}              # C++ name -> Var   (insertion ordered)
        self.writes = frozenset()   # C++ names of value variables assigned so far on this path

    def copy(self):
        e = Env()
        e.vars = dict(self.vars)
        e.writes = self.writes
        return e

    def declare(self, name, var):
        e = self.copy()
        e.vars[name] = var
        return e

    def wrote(self, name):
        e = self.copy()
        e.writes = self.writes | {name}
        return e


class Ctx:
    """where the statements being translated live: mode 'O' (result type outcome ..) or 'P' (pure); how `return` and `continue` render"""

    def __init__(self, mode, ret=None, cont=None):
        self.mode, self.ret, self.cont = mode, ret, cont


class Unit:
    def __init__(self, name, lang):
        self.name = name
        self.lang = lang            # the client: types, coercions, names
        self.defs = []              # (name, signature, body, comment)
        self.loops = 0
        self.reads = None


# ----------------------------------------------------------------------------- expressions

class Expr:
    """typed expression parser; values are (type code, Gallina text) or ("L", text, Fraction) for numeric literals"""

    def __init__(self, toks, env, X):
        self.t, self.i, self.env, self.X, self.L = list(toks), 0, env, X, X.u.lang
        self.what = X.what

    def oog(self, msg):
        raise OutOfGrammar("%s: %s" % (self.what, msg))

    def peek(self, k=0):
        return self.t[self.i + k] if self.i + k < len(self.t) else (None, None)

    def at(self, kind, val):
        return self.peek() == (kind, val)

    def eat(self, kind=None, val=None):
        k, v = self.peek()
        if k is None or (kind and k != kind) or (val is not None and v != val):
            self.oog("expected %s %s, found %r" % (kind or "", val or "", v))
        self.i += 1
        return v

    def end(self):
        if self.i != len(self.t):
            self.oog("trailing tokens from %r" % self.peek()[1])

    def expr(self):
        c = self.lor()
        if self.at("op", "?"):
            self.eat()
            a = self.expr()
            self.eat("op", ":")
            b = self.expr()
            t, x, y = self.L.unify(a, b, self.what)
            return (t, "(if %s then %s else %s)" % (self.L.coerce(c, "B", self.what), x, y))
        return c

    def lor(self):
        a = self.land()
        while self.at("op", "||"):
            self.eat()
            b = self.land()
            a = ("B", "(%s || %s)" % (self.L.coerce(a, "B", self.what), self.L.coerce(b, "B", self.what)))
        return a

    def land(self):
        a = self.equality()
        while self.at("op", "&&"):
            self.eat()
            b = self.equality()
            a = ("B", "(%s && %s)" % (self.L.coerce(a, "B", self.what), self.L.coerce(b, "B", self.what)))
        return a

    def equality(self):
        a = self.rel()
        while self.peek() in (("op", "=="), ("op", "!=")):
            op = self.eat()
            a = self.L.compare(op, a, self.rel(), self.what)
        return a

    def rel(self):
        a = self.sum()
        if self.peek() in (("op", "<"), ("op", ">"), ("op", "<="), ("op", ">=")):
            op = self.eat()
            a = self.L.compare(op, a, self.sum(), self.what)
        return a

    def sum(self):
        a = self.prod()
        while self.peek() in (("op", "+"), ("op", "-")):
            op = self.eat()
            a = self.L.arith(op, a, self.prod(), self.what)
        return a

    def prod(self):
        a = self.unary()
        while self.peek() in (("op", "*"), ("op", "/"), ("op", "%")):
            op = self.eat()
            a = self.L.arith(op, a, self.unary(), self.what)
        return a

    def unary(self):
        k, v = self.peek()
        if (k, v) in (("op", "!"), ("id", "not")):
            self.eat()
            return ("B", "(negb %s)" % self.L.coerce(self.unary(), "B", self.what))
        if (k, v) == ("op", "*"):
            self.eat()
            return self.L.deref(self.unary(), self.what)
        if (k, v) == ("op", "-"):
            self.eat()
            return self.L.neg(self.unary(), self.what)
        return self.postfix()

    def arg_tokens(self):
        self.eat("op", "(")
        depth, cur = 0, []
        while True:
            k, v = self.peek()
            if k is None:
                self.oog("unbalanced call")
            self.i += 1
            if k == "op" and v in ("(", "[", "{"):
                depth += 1
            elif k == "op" and v in (")", "]", "}"):
                if depth == 0:
                    return split_top(cur)
                depth -= 1
            cur.append((k, v))

    def sub(self, toks, env=None):
        p = Expr(toks, env or self.env, self.X)
        e = p.expr()
        p.end()
        return e

    def postfix(self):
        e = self.atom()
        while True:
            if self.at("op", ".") or self.at("op", "->"):
                self.eat()
                m = self.eat("id")
                if self.at("op", "("):
                    e = self.L.method(self, e, m, self.arg_tokens())
                else:
                    e = self.L.member(self, e, m)
            elif self.at("op", "(") and e[0] in self.L.INDEXABLE:
                a = self.arg_tokens()
                e = self.L.index(self, e, a)
            elif self.at("op", "[") and e[0] in self.L.INDEXABLE:
                self.eat()
                depth, cur = 0, []
                while True:
                    k, v = self.peek()
                    if k is None:
                        self.oog("unbalanced [")
                    self.i += 1
                    if (k, v) == ("op", "["):
                        depth += 1
                    elif (k, v) == ("op", "]"):
                        if depth == 0:
                            break
                        depth -= 1
                    cur.append((k, v))
                e = self.L.index(self, e, [cur])
            else:
                return e

    def atom(self):
        k, v = self.peek()
        if k == "num":
            self.eat()
            try:
                return ("L", v, Fraction(v))
            except ValueError:
                self.oog("bad number %r" % v)
        if k == "str":
            self.eat()
            return self.L.string(self, v)
        if (k, v) == ("op", "("):
            self.eat()
            e = self.expr()
            self.eat("op", ")")
            return e
        if k != "id":
            self.oog("unexpected token %r" % v)
        name = self.eat("id")
        if name in ("true", "false"):
            return ("B", name)
        if name in self.env.vars:
            var = self.env.vars[name]
            if var.kind == "val":
                self.X.note(name)
                return (var.ty, gname(name))
            if var.kind == "subst":
                for r in var.info.get("reads", ()):
                    self.X.note(r)
                return (var.ty, var.info["text"])
            if var.kind == "lam" and self.at("op", "("):
                return self.X.call_expr_lambda(self, name, self.arg_tokens())
            r = self.L.special_var(self, name, var)
            if r is not None:
                return r
            self.oog("use of %s (%s) in an expression" % (name, var.kind))
        if self.at("op", "{"):              # Type{...}
            self.eat()
            depth, cur = 0, []
            while True:
                kk, vv = self.peek()
                if kk is None:
                    self.oog("unbalanced {")
                self.i += 1
                if (kk, vv) == ("op", "{"):
                    depth += 1
                elif (kk, vv) == ("op", "}"):
                    if depth == 0:
                        break
                    depth -= 1
                cur.append((kk, vv))
            return self.L.brace_init(self, name, cur)
        if self.at("op", "("):
            r = self.L.call(self, name)
            if r is not None:
                return r
            self.oog("unknown function %r" % name)
        r = self.L.atom(self, name)
        if r is None:
            self.oog("unknown identifier %r" % name)
        return r


# ----------------------------------------------------------------------------- executor

class Exec:
    def __init__(self, unit, what):
        self.u = unit
        self.what = what
        self.dry = 0
        self.reads = None
        self.pending = []           # `let .. in` lines of the effects of the expression just evaluated (client languages with effects)
        self.pending_w = []         # the variables those lines assign

    def oog(self, msg):
        raise OutOfGrammar("%s: %s" % (self.what, msg))

    def flush(self, env):
        """-> (text of the pending effect bindings, environment after them)"""
        pre = "".join(l + "\n    " for l in self.pending)
        for n in self.pending_w:
            env = env.wrote(n) if n in env.vars else env.declare(n, Var(self.pending_t.get(n, "N"))).wrote(n)
        self.pending, self.pending_w = [], []
        return pre, env

    pending_t = {}

    def mok(self, tup):
        f = getattr(self.u.lang, "m_ok", None)
        return f(self, tup) if f else "(Ok %s)" % tup

    def mbind(self, expr, names, rest):
        f = getattr(self.u.lang, "m_bind", None)
        return f(self, expr, names, rest) if f else "obind (%s) (fun %s =>\n    %s)" % (expr, self.pat(names), rest)

    def note(self, name):
        if self.reads is not None:
            self.reads.add(name)

    def ex(self, toks, env, want=None):
        p = Expr(toks, env, self)
        e = p.expr()
        p.end()
        if want:
            return (want, self.u.lang.coerce(e, want, self.what))
        return e

    # ---- classification
    def kinds(self, stmts, env, lams=None):
        """subset of {'fall','ret','throw','cont'}: how control can leave the statement list (syntactic)"""
        out = set()
        lams = dict(lams or {})
        for s in stmts:
            k = self.kinds1(s, env, lams)
            out |= k - {"fall"}
            if "fall" not in k:
                return out
        out.add("fall")
        return out

    def kinds1(self, s, env, lams):
        tag = s[0]
        if tag == "block":
            return self.kinds(s[1], env, lams)
        if tag == "if":
            a = self.kinds(s[2], env, lams)
            b = self.kinds(s[3], env, lams) if s[3] is not None else {"fall"}
            return a | b
        if tag == "switch":
            out = set()
            try:
                arms = self.u.lang.switch_arms(self, s, env)
            except OutOfGrammar:
                arms = s[2]            # scrutinee not evaluable from here: every arm, the default included
            for _, body in arms:
                out |= self.kinds(body, env, lams)
            return out
        if tag in ("for", "for_range", "while"):
            k = self.kinds(s[-1], env, lams)
            return (k - {"cont"}) | {"fall"}
        if tag == "return":
            return {"ret"}
        if tag == "throw":
            return {"throw"}
        if tag == "continue":
            return {"cont"}
        if tag == "lambda":
            lams[s[1]] = s
            return {"fall"}
        if tag in ("expr", "assign", "decl"):
            return self.u.lang.stmt_kinds(self, s, env, lams)
        return {"fall"}

    def may_throw(self, stmts, env):
        return "throw" in self.kinds(stmts, env)

    def writes(self, stmts, env):
        """C++ names of the variables of `env` a statement list assigns (dry run)"""
        acc = set()
        base = env.copy()
        base.writes = frozenset()

        def k(e):
            acc.update(e.writes); return "_"
        ctx = Ctx("O", ret=lambda e, v: k(e), cont=lambda e: k(e))
        ctx.dry = True
        save = (list(self.u.defs), self.u.loops, self.reads)
        self.reads = None
        self.dry += 1
        try:
            self.block(stmts, 0, base, k, ctx)
        finally:
            self.dry -= 1
            self.u.defs, self.u.loops, self.reads = save[0], save[1], save[2]
        return [n for n in env.vars if n in acc and env.vars[n].kind in ("val", "iter")]

    # ---- rendering helpers
    def tup(self, env, names):
        vs = [gname(n) for n in names]
        return "tt" if not vs else vs[0] if len(vs) == 1 else "(%s)" % ", ".join(vs)

    def pat(self, names):
        vs = [gname(n) for n in names]
        return "_" if not vs else vs[0] if len(vs) == 1 else "'(%s)" % ", ".join(vs)

    def tup_type(self, env, names):
        G = self.u.lang.GTYPE
        if not names:
            return "unit"
        ts = [G[env.vars[n].ty] for n in names]
        return ts[0] if len(ts) == 1 else "(%s)%%type" % " * ".join(ts)

    def let(self, env, name, ty, val, k):
        """C++ variable `name` := val; continue (the effects of the expression `val` was computed from come first)"""
        pre, env = self.flush(env)
        env = env.wrote(name) if name in env.vars else env.declare(name, Var(ty)).wrote(name)
        return "%slet %s := %s in\n    %s" % (pre, gname(name), val, k(env))

    def throw_text(self, s, ctx):
        if ctx.mode != "O":
            self.oog("throw in a context translated as pure")
        return self.u.lang.throw(self, s[1])

    # ---- statements
    def block(self, stmts, i, env, k, ctx):
        if self.pending:
            self.oog("effects of an expression left pending")
        if i == len(stmts):
            return k(env)
        s = stmts[i]
        rest = lambda e: self.block(stmts, i + 1, e, k, ctx)
        tag = s[0]
        if tag == "block":
            def leave(e2, outer=env):
                e3 = outer.copy()
                e3.writes = e2.writes
                return rest(e3)
            return self.block(s[1], 0, env, leave, ctx)
        if tag == "using":
            # a using-declaration changes what names mean: the client language accepts the ones it knows (and may record them)
            if not getattr(self.u.lang, "using", lambda X, text: False)(self, s[1]):
                self.oog("using-declaration %r" % s[1])
            return rest(env)
        if tag in ("return", "throw", "continue", "break") and i + 1 < len(stmts):
            self.oog("statement after %s in the same block (unreachable)" % tag)
        if tag == "return":
            if ctx.ret is None:
                self.oog("return here")
            return ctx.ret(env, s[1])
        if tag == "throw":
            return self.throw_text(s, ctx)
        if tag == "continue":
            if ctx.cont is None:
                self.oog("continue outside a loop")
            return ctx.cont(env)
        if tag == "decl":
            return self.u.lang.decl(self, env, s, rest, ctx)
        if tag == "decl_tuple":
            return self.u.lang.decl_tuple(self, env, s, rest, ctx)
        if tag == "lambda":
            return rest(env.declare(s[1], Var("LAM", "lam", {"caps": s[2], "params": s[3], "body": s[4]})))
        if tag == "incr":
            if s[1] not in env.vars or env.vars[s[1]].kind != "val" or env.vars[s[1]].ty not in getattr(self.u.lang, "INCR_TYPES", ("N", "Z")):
                self.oog("++ on %s" % s[1])
            self.note(s[1])
            ty = env.vars[s[1]].ty
            return self.let(env, s[1], ty, "(Z.succ %s)" % gname(s[1]) if ty == "Z" else "(S %s)" % gname(s[1]), rest)
        if tag == "assign":
            return self.u.lang.assign(self, env, s[1], s[2], s[3], rest, ctx)
        if tag == "expr":
            return self.u.lang.call_stmt(self, env, s[1], rest, ctx)
        if tag == "if":
            c = self.ex(s[1], env, "B")[1]
            pre, env = self.flush(env)
            arms = [(c, s[2]), (None, s[3] if s[3] is not None else [])]
            if i + 1 < len(stmts) and not any("fall" in self.kinds(b, env) for _, b in arms):
                self.oog("statement after an if whose branches all leave (unreachable)")
            return pre + self.branch(env, arms, lambda texts: "if %s then\n    %s\n    else\n    %s" % (c, texts[0], texts[1]), rest, ctx)
        if tag == "switch":
            e = self.ex(s[1], env)
            arms = self.u.lang.switch_arms(self, s, env, scrut=e)
            return self.branch(env, [(lab, body) for lab, body in arms],
                               lambda texts: "match %s with\n    %s\n    end" % (e[1], "\n    ".join("| %s => %s" % (lab, t) for (lab, _), t in zip(arms, texts))),
                               rest, ctx)
        if tag == "for":
            return self.loop(env, s, rest, ctx)
        if tag == "while":
            return self.u.lang.while_(self, env, s, rest, ctx)
        if tag == "for_range":
            return self.u.lang.for_range(self, env, s, rest, ctx)
        if tag == "fallthrough" or tag == "break":
            self.oog("%s outside a switch arm" % tag)
        self.oog("statement %s" % tag)

    def branch(self, env, arms, render, rest, ctx):
        """arms: [(label, stmts)]; render(list of arm texts) -> text"""
        ks = [self.kinds(b, env) for _, b in arms]
        falling = [i for i, k in enumerate(ks) if "fall" in k]
        if len(falling) <= 1:
            texts = [self.block(b, 0, env, (lambda e, outer=env: rest(self.leave(outer, e))), ctx) for _, b in arms]
            return render(texts)
        if all(k <= {"fall", "throw"} for k in ks):
            W = []
            for _, b in arms:
                for n in self.writes(b, env):
                    if n not in W:
                        W.append(n)
            W = [n for n in env.vars if n in W]
            throws = any("throw" in k for k in ks)
            if not W and not throws:
                return rest(env)
            if throws and ctx.mode != "O":
                self.oog("throw in a context translated as pure")
            env2 = env
            for n in W:
                env2 = env2.wrote(n)
            if throws:
                W = [n for n in W if n not in getattr(self.u.lang, "MONAD_VARS", ())]
            sub = Ctx("O" if throws else "P")
            done = (lambda e: self.mok(self.tup(e, W))) if throws else (lambda e: self.tup(e, W))
            texts = [self.block(b, 0, env, done, sub) for _, b in arms]
            if throws:
                return self.mbind(render(texts), W, rest(env2))
            return "let %s := (%s) in\n    %s" % (self.pat(W), render(texts), rest(env2))
        texts = [self.block(b, 0, env, (lambda e, outer=env: rest(self.leave(outer, e))), ctx) for _, b in arms]
        return render(texts)

    def leave(self, outer, inner):
        e = outer.copy()
        e.writes = inner.writes
        return e

    def loop(self, env, s, rest, ctx):
        _, var, lo, cmp, hi, body = s
        u = self.u
        save = self.reads
        self.reads = set()
        a = self.ex(lo, env)
        b = self.ex(hi, env, "N")[1]
        bound_reads = set(self.reads)
        if save is not None:
            save |= self.reads
        self.reads = save
        if var in env.vars:
            self.oog("loop variable %s shadows a variable" % var)
        inner = env.declare(var, Var("N"))
        W = [n for n in self.writes(body, inner) if n != var and n in env.vars]
        if var in self.writes(body, inner):
            self.oog("the body of a for loop assigns its counter")
        if bound_reads & set(W):
            self.oog("the bounds of a for loop depend on a variable its body assigns")
        kinds = self.kinds(body, inner)
        if "ret" in kinds:
            self.oog("return inside a for loop")
        throws = "throw" in kinds
        if throws and ctx.mode != "O":
            self.oog("throw in a context translated as pure")
        if not W and not throws:
            return rest(env)
        if cmp == "<=":
            b = "(S %s)" % b
        if a[0] == "L" and a[2] == 0:
            idx = "(seq 0 %s)" % b
        else:
            as_ = u.lang.coerce(a, "N", self.what)
            idx = "(seq %s (Nat.sub %s %s))" % (as_, b, as_)
        done = (lambda e: "(Ok %s)" % self.tup(e, W)) if throws else (lambda e: self.tup(e, W))
        sub = Ctx("O" if throws else "P", ret=None, cont=done)
        save = self.reads
        self.reads = set()
        u.loops += 1
        mine = u.loops
        base = inner.copy()
        base.writes = frozenset()
        bodyx = self.block(body, 0, base, done, sub)
        reads = self.reads
        if save is not None:
            save |= (reads - {var})
        self.reads = save
        caps = [n for n in env.vars if n in reads and n not in W and env.vars[n].kind in ("val", "iter")]
        G = u.lang.GTYPE
        gn = "%s_for%d_step" % (u.name, mine)
        sig = " ".join(["(%s : %s)" % (gname(c), G[env.vars[c].ty]) for c in caps] + ["(%s : %s)" % (gname(n), G[env.vars[n].ty]) for n in W]
                       + ["(%s : nat)" % gname(var)])
        rt = self.tup_type(env, W)
        if throws:
            rt = "outcome %s" % (rt if not rt.endswith("%type") else rt)
        if not self.dry:
            u.defs.append((gn, "%s : %s" % (sig, rt), bodyx, "body of for loop %d (over %s)" % (mine, var)))
        else:
            u.defs.append((gn, "", "", ""))
        capv = [gname(c) for c in caps]
        if len(W) == 1 or not W:
            stepx = "(%s)" % " ".join([gn] + capv) if W else "(fun _ %s => %s)" % (gname(var), " ".join([gn] + capv + [gname(var)]))
        else:
            stepx = "(fun %s %s => %s)" % (self.pat(W), gname(var), " ".join([gn] + capv + [gname(n) for n in W] + [gname(var)]))
        env2 = env
        for n in W:
            env2 = env2.wrote(n)
        if throws:
            return "obind (ofold %s %s %s) (fun %s =>\n    %s)" % (stepx, idx, self.tup(env, W), self.pat(W), rest(env2))
        return "let %s := fold_left %s %s %s in\n    %s" % (self.pat(W), stepx, idx, self.tup(env, W), rest(env2))

    # ---- lambdas
    def call_expr_lambda(self, ex, name, argt):
        lam = ex.env.vars[name].info
        body = lam["body"]
        if len(body) != 1 or body[0][0] != "return" or body[0][1] is None:
            self.oog("lambda %s used in an expression is not a single return" % name)
        ps = [[t for t in p if t[0] == "id"] for p in split_top(lam["params"])]
        if len(ps) != len(argt):
            self.oog("arity of lambda %s" % name)
        env = ex.env
        for p, a in zip(ps, argt):
            v = ex.sub(a)
            if v[0] == "L":
                v = self.u.lang.literal_default(v, self.what)
            env = env.declare(p[-1][1], Var(v[0], "subst", {"text": v[1]}))
        return ex.sub(body[0][1], env)


def render_defs(defs, binders, ctx_args, ctx_names=None):
    """ctx_names: the generated names that take the context arguments (the definitions of the same unit)"""
    out = []
    for name, sig, body, cpp in defs:
        if ctx_args:
            body = re.sub(r"\bg_\w+\b", lambda m: "(%s %s)" % (m.group(0), ctx_args) if ctx_names is None or m.group(0) in ctx_names else m.group(0), body)
        out.append("(* %s *)" % com(cpp))
        out.append("Definition %s %s %s :=\n  %s." % (name, binders, sig.strip(), body.replace("\n    ", "\n  ")))
    return out
