(* OcpGen.ref.v — reference text of the translator (the translation of the source tree the framework was built against).
   Used unit by unit ONLY when the current source leaves the translator's grammar. *)
From Coq Require Import ZArith List Bool Arith.
From Alpaqa Require Import Num Vec Ocp OcpGenLib.
Import ListNotations.
Local Open Scope num_scope.

(* every definition takes the same context: the number system, the problem functions F, the LQR callables L, the dense solve,
   the dimensions d of the problem *)

(* unit layout *)
(* sizes of the delegating constructor *)
Definition g_sizes {T : Type} {HN : Num T} (F : ocp_fns T) (L : lqr_fns T) (lsolve : list (list T) -> list T -> list T) (d : dims) : list nat :=
  [(dnx d); (dnu d); (dnh d); (dnc d)].
(* sizes_N of the delegating constructor *)
Definition g_sizes_N {T : Type} {HN : Num T} (F : ocp_fns T) (L : lqr_fns T) (lsolve : list (list T) -> list T -> list T) (d : dims) : list nat :=
  [(dnx d); (dnhN d); (dncN d)].
(* std::partial_sum(sizes) -> indices *)
Definition g_indices {T : Type} {HN : Num T} (F : ocp_fns T) (L : lqr_fns T) (lsolve : list (list T) -> list T -> list T) (d : dims) : list nat :=
  (psum (g_sizes F L lsolve d)).
(* std::partial_sum(sizes_N) -> indices_N *)
Definition g_indices_N {T : Type} {HN : Num T} (F : ocp_fns T) (L : lqr_fns T) (lsolve : list (list T) -> list T -> list T) (d : dims) : list nat :=
  (psum (g_sizes_N F L lsolve d)).
(* N{N} *)
Definition g_vars_N {T : Type} {HN : Num T} (F : ocp_fns T) (L : lqr_fns T) (lsolve : list (list T) -> list T -> list T) (d : dims) : nat :=
  (dN d).
(* length_t size(size_t i) *)
Definition g_size {T : Type} {HN : Num T} (F : ocp_fns T) (L : lqr_fns T) (lsolve : list (list T) -> list T -> list T) (d : dims) (a_i : nat) : nat :=
  (Nat.sub (nth (S a_i) (g_indices F L lsolve d) 0%nat) (nth a_i (g_indices F L lsolve d) 0%nat)).
(* length_t size_N(size_t i) *)
Definition g_size_N {T : Type} {HN : Num T} (F : ocp_fns T) (L : lqr_fns T) (lsolve : list (list T) -> list T -> list T) (d : dims) (a_i : nat) : nat :=
  (Nat.sub (nth (S a_i) (g_indices_N F L lsolve d) 0%nat) (nth a_i (g_indices_N F L lsolve d) 0%nat)).
(* length_t nx() *)
Definition g_nx {T : Type} {HN : Num T} (F : ocp_fns T) (L : lqr_fns T) (lsolve : list (list T) -> list T -> list T) (d : dims) : nat :=
  (nth 0%nat (g_indices F L lsolve d) 0%nat).
(* length_t nu() *)
Definition g_nu {T : Type} {HN : Num T} (F : ocp_fns T) (L : lqr_fns T) (lsolve : list (list T) -> list T -> list T) (d : dims) : nat :=
  (g_size F L lsolve d 0%nat).
(* length_t nxu() *)
Definition g_nxu {T : Type} {HN : Num T} (F : ocp_fns T) (L : lqr_fns T) (lsolve : list (list T) -> list T -> list T) (d : dims) : nat :=
  (Nat.add (g_nx F L lsolve d) (g_nu F L lsolve d)).
(* length_t nh() *)
Definition g_nh {T : Type} {HN : Num T} (F : ocp_fns T) (L : lqr_fns T) (lsolve : list (list T) -> list T -> list T) (d : dims) : nat :=
  (g_size F L lsolve d 1%nat).
(* length_t nc() *)
Definition g_nc {T : Type} {HN : Num T} (F : ocp_fns T) (L : lqr_fns T) (lsolve : list (list T) -> list T -> list T) (d : dims) : nat :=
  (g_size F L lsolve d 2%nat).
(* length_t nx_N() *)
Definition g_nx_N {T : Type} {HN : Num T} (F : ocp_fns T) (L : lqr_fns T) (lsolve : list (list T) -> list T -> list T) (d : dims) : nat :=
  (nth 0%nat (g_indices_N F L lsolve d) 0%nat).
(* length_t nh_N() *)
Definition g_nh_N {T : Type} {HN : Num T} (F : ocp_fns T) (L : lqr_fns T) (lsolve : list (list T) -> list T -> list T) (d : dims) : nat :=
  (g_size_N F L lsolve d 0%nat).
(* length_t nc_N() *)
Definition g_nc_N {T : Type} {HN : Num T} (F : ocp_fns T) (L : lqr_fns T) (lsolve : list (list T) -> list T -> list T) (d : dims) : nat :=
  (g_size_N F L lsolve d 1%nat).
(* vec create(): the length *)
Definition g_create_len {T : Type} {HN : Num T} (F : ocp_fns T) (L : lqr_fns T) (lsolve : list (list T) -> list T -> list T) (d : dims) : nat :=
  (Nat.add (Nat.mul (dN d) (last (g_indices F L lsolve d) 0%nat)) (last (g_indices_N F L lsolve d) 0%nat)).
(* vec create_qr(): the length *)
Definition g_create_qr_len {T : Type} {HN : Num T} (F : ocp_fns T) (L : lqr_fns T) (lsolve : list (list T) -> list T -> list T) (d : dims) : nat :=
  (Nat.add (Nat.mul (dN d) (g_nxu F L lsolve d)) (g_nx F L lsolve d)).
(* xk(v, t): offset of the segment *)
Definition g_xk_off {T : Type} {HN : Num T} (F : ocp_fns T) (L : lqr_fns T) (lsolve : list (list T) -> list T -> list T) (d : dims) (a_t : nat) : nat :=
  (Nat.mul a_t (last (g_indices F L lsolve d) 0%nat)).
(* xk(v, t): length of the segment *)
Definition g_xk_len {T : Type} {HN : Num T} (F : ocp_fns T) (L : lqr_fns T) (lsolve : list (list T) -> list T -> list T) (d : dims) (a_t : nat) : nat :=
  (g_nx F L lsolve d).
(* xuk(v, t): offset of the segment *)
Definition g_xuk_off {T : Type} {HN : Num T} (F : ocp_fns T) (L : lqr_fns T) (lsolve : list (list T) -> list T -> list T) (d : dims) (a_t : nat) : nat :=
  (Nat.mul a_t (last (g_indices F L lsolve d) 0%nat)).
(* xuk(v, t): length of the segment *)
Definition g_xuk_len {T : Type} {HN : Num T} (F : ocp_fns T) (L : lqr_fns T) (lsolve : list (list T) -> list T -> list T) (d : dims) (a_t : nat) : nat :=
  (g_nxu F L lsolve d).
(* uk(v, t): offset of the segment *)
Definition g_uk_off {T : Type} {HN : Num T} (F : ocp_fns T) (L : lqr_fns T) (lsolve : list (list T) -> list T -> list T) (d : dims) (a_t : nat) : nat :=
  (Nat.add (Nat.mul a_t (last (g_indices F L lsolve d) 0%nat)) (nth 0%nat (g_indices F L lsolve d) 0%nat)).
(* uk(v, t): length of the segment *)
Definition g_uk_len {T : Type} {HN : Num T} (F : ocp_fns T) (L : lqr_fns T) (lsolve : list (list T) -> list T -> list T) (d : dims) (a_t : nat) : nat :=
  (g_nu F L lsolve d).
(* hk(v, t): offset of the segment *)
Definition g_hk_off {T : Type} {HN : Num T} (F : ocp_fns T) (L : lqr_fns T) (lsolve : list (list T) -> list T -> list T) (d : dims) (a_t : nat) : nat :=
  (Nat.add (Nat.mul a_t (last (g_indices F L lsolve d) 0%nat)) (if (Nat.ltb a_t (dN d)) then (nth 1%nat (g_indices F L lsolve d) 0%nat) else (nth 0%nat (g_indices_N F L lsolve d) 0%nat))).
(* hk(v, t): length of the segment *)
Definition g_hk_len {T : Type} {HN : Num T} (F : ocp_fns T) (L : lqr_fns T) (lsolve : list (list T) -> list T -> list T) (d : dims) (a_t : nat) : nat :=
  (if (Nat.ltb a_t (dN d)) then (g_nh F L lsolve d) else (g_nh_N F L lsolve d)).
(* ck(v, t): offset of the segment *)
Definition g_ck_off {T : Type} {HN : Num T} (F : ocp_fns T) (L : lqr_fns T) (lsolve : list (list T) -> list T -> list T) (d : dims) (a_t : nat) : nat :=
  (Nat.add (Nat.mul a_t (last (g_indices F L lsolve d) 0%nat)) (if (Nat.ltb a_t (dN d)) then (nth 2%nat (g_indices F L lsolve d) 0%nat) else (nth 1%nat (g_indices_N F L lsolve d) 0%nat))).
(* ck(v, t): length of the segment *)
Definition g_ck_len {T : Type} {HN : Num T} (F : ocp_fns T) (L : lqr_fns T) (lsolve : list (list T) -> list T -> list T) (d : dims) (a_t : nat) : nat :=
  (if (Nat.ltb a_t (dN d)) then (g_nc F L lsolve d) else (g_nc_N F L lsolve d)).
(* qk(v, t): offset of the segment *)
Definition g_qk_off {T : Type} {HN : Num T} (F : ocp_fns T) (L : lqr_fns T) (lsolve : list (list T) -> list T -> list T) (d : dims) (a_t : nat) : nat :=
  (Nat.mul a_t (g_nxu F L lsolve d)).
(* qk(v, t): length of the segment *)
Definition g_qk_len {T : Type} {HN : Num T} (F : ocp_fns T) (L : lqr_fns T) (lsolve : list (list T) -> list T -> list T) (d : dims) (a_t : nat) : nat :=
  (g_nx F L lsolve d).
(* rk(v, t): offset of the segment *)
Definition g_rk_off {T : Type} {HN : Num T} (F : ocp_fns T) (L : lqr_fns T) (lsolve : list (list T) -> list T -> list T) (d : dims) (a_t : nat) : nat :=
  (Nat.add (Nat.mul a_t (g_nxu F L lsolve d)) (g_nx F L lsolve d)).
(* rk(v, t): length of the segment *)
Definition g_rk_len {T : Type} {HN : Num T} (F : ocp_fns T) (L : lqr_fns T) (lsolve : list (list T) -> list T -> list T) (d : dims) (a_t : nat) : nat :=
  (g_nu F L lsolve d).
(* qrk(v, t): offset of the segment *)
Definition g_qrk_off {T : Type} {HN : Num T} (F : ocp_fns T) (L : lqr_fns T) (lsolve : list (list T) -> list T -> list T) (d : dims) (a_t : nat) : nat :=
  (Nat.mul a_t (g_nxu F L lsolve d)).
(* qrk(v, t): length of the segment *)
Definition g_qrk_len {T : Type} {HN : Num T} (F : ocp_fns T) (L : lqr_fns T) (lsolve : list (list T) -> list T -> list T) (d : dims) (a_t : nat) : nat :=
  (g_nxu F L lsolve d).
(* create_AB(): rows *)
Definition g_create_AB_rows {T : Type} {HN : Num T} (F : ocp_fns T) (L : lqr_fns T) (lsolve : list (list T) -> list T -> list T) (d : dims) : nat :=
  (g_nx F L lsolve d).
(* create_AB(): columns *)
Definition g_create_AB_cols {T : Type} {HN : Num T} (F : ocp_fns T) (L : lqr_fns T) (lsolve : list (list T) -> list T -> list T) (d : dims) : nat :=
  (Nat.mul (g_nxu F L lsolve d) (dN d)).
(* ABk(AB, t): first column / number of columns *)
Definition g_ABk_off {T : Type} {HN : Num T} (F : ocp_fns T) (L : lqr_fns T) (lsolve : list (list T) -> list T -> list T) (d : dims) (a_t : nat) : nat :=
  (Nat.mul a_t (g_nxu F L lsolve d)).
(* ABk(AB, t): first column / number of columns *)
Definition g_ABk_len {T : Type} {HN : Num T} (F : ocp_fns T) (L : lqr_fns T) (lsolve : list (list T) -> list T -> list T) (d : dims) (a_t : nat) : nat :=
  (g_nxu F L lsolve d).
(* Ak(AB, t): first column / number of columns *)
Definition g_Ak_off {T : Type} {HN : Num T} (F : ocp_fns T) (L : lqr_fns T) (lsolve : list (list T) -> list T -> list T) (d : dims) (a_t : nat) : nat :=
  (Nat.mul a_t (g_nxu F L lsolve d)).
(* Ak(AB, t): first column / number of columns *)
Definition g_Ak_len {T : Type} {HN : Num T} (F : ocp_fns T) (L : lqr_fns T) (lsolve : list (list T) -> list T -> list T) (d : dims) (a_t : nat) : nat :=
  (g_nx F L lsolve d).
(* Bk(AB, t): first column / number of columns *)
Definition g_Bk_off {T : Type} {HN : Num T} (F : ocp_fns T) (L : lqr_fns T) (lsolve : list (list T) -> list T -> list T) (d : dims) (a_t : nat) : nat :=
  (Nat.add (Nat.mul a_t (g_nxu F L lsolve d)) (g_nx F L lsolve d)).
(* Bk(AB, t): first column / number of columns *)
Definition g_Bk_len {T : Type} {HN : Num T} (F : ocp_fns T) (L : lqr_fns T) (lsolve : list (list T) -> list T -> list T) (d : dims) (a_t : nat) : nat :=
  (g_nu F L lsolve d).
(* OCPEvaluator::N() = vars.N *)
Definition g_N {T : Type} {HN : Num T} (F : ocp_fns T) (L : lqr_fns T) (lsolve : list (list T) -> list T -> list T) (d : dims) : nat :=
  (g_vars_N F L lsolve d).

(* unit forward *)
(* body of the for loop *)
Definition g_forward_for1_step {T : Type} {HN : Num T} (F : ocp_fns T) (L : lqr_fns T) (lsolve : list (list T) -> list T -> list T) (d : dims) (D_lb : list (option T)) (D_ub : list (option T)) (mu : list T) (y : list T) (l_nc_3 : nat) (s_storage_in : list T) (s_V_in : T) (i_t : nat) : (list T * T)%type :=
  let '(l_storage_8, l_V_9) := (if (Nat.ltb 0%nat (g_nh F L lsolve d)) then let l_storage_5 := (put (g_hk_off F L lsolve d i_t) (pf_eval_h F i_t (seg (g_xk_off F L lsolve d i_t) (g_xk_len F L lsolve d i_t) s_storage_in) (seg (g_uk_off F L lsolve d i_t) (g_uk_len F L lsolve d i_t) s_storage_in)) s_storage_in) in
  let l_V_6 := (s_V_in + (pf_eval_l F i_t (seg (g_hk_off F L lsolve d i_t) (g_hk_len F L lsolve d i_t) l_storage_5))) in
  (l_storage_5, l_V_6) else let l_V_7 := (s_V_in + (pf_eval_l F i_t (seg (g_xuk_off F L lsolve d i_t) (g_xuk_len F L lsolve d i_t) s_storage_in))) in
  (s_storage_in, l_V_7)) in
  let '(l_storage_13, l_V_14) := (if (Nat.ltb 0%nat l_nc_3) then let l_storage_10 := (put (g_ck_off F L lsolve d i_t) (pf_eval_constr F i_t (seg (g_xk_off F L lsolve d i_t) (g_xk_len F L lsolve d i_t) l_storage_8)) l_storage_8) in
  let l_zeta_11 := (vadd (seg (g_ck_off F L lsolve d i_t) (g_ck_len F L lsolve d i_t) l_storage_10) (vdiv (seg (Nat.mul i_t l_nc_3) l_nc_3 y) (seg (Nat.mul i_t l_nc_3) l_nc_3 mu))) in
  let l_V_12 := (l_V_9 + ((n1 / n2) * (dist_sq D_lb D_ub (seg (Nat.mul i_t l_nc_3) l_nc_3 mu) l_zeta_11))) in
  (l_storage_10, l_V_12) else (l_storage_8, l_V_9)) in
  let l_storage_15 := (put (g_xk_off F L lsolve d (S i_t)) (pf_eval_f F i_t (seg (g_xk_off F L lsolve d i_t) (g_xk_len F L lsolve d i_t) l_storage_13) (seg (g_uk_off F L lsolve d i_t) (g_uk_len F L lsolve d i_t) l_storage_13)) l_storage_13) in
  (l_storage_15, l_V_14).
(* the indices in the order the for loop visits them *)
Definition g_forward_for1_order {T : Type} {HN : Num T} (F : ocp_fns T) (L : lqr_fns T) (lsolve : list (list T) -> list T -> list T) (d : dims) (a_hi : nat) : list nat :=
  (seq 0 a_hi).
(* OCPEvaluator::forward — the function; result = (return value, storage) *)
Definition g_forward {T : Type} {HN : Num T} (F : ocp_fns T) (L : lqr_fns T) (lsolve : list (list T) -> list T -> list T) (d : dims) (storage : list T) (D_lb : list (option T)) (D_ub : list (option T)) (D_N_lb : list (option T)) (D_N_ub : list (option T)) (mu : list T) (y : list T) : (T * list T)%type :=
  let l_V_1 := n0 in
  let l_N_2 := (g_N F L lsolve d) in
  let l_nc_3 := (g_nc F L lsolve d) in
  let l_nc_N_4 := (g_nc_N F L lsolve d) in
  let '(l_storage_16, l_V_17) := fold_left (fun '(s_storage_in, s_V_in) i_t => g_forward_for1_step F L lsolve d D_lb D_ub mu y l_nc_3 s_storage_in s_V_in i_t) (g_forward_for1_order F L lsolve d l_N_2) (storage, l_V_1) in
  let '(l_storage_21, l_V_22) := (if (Nat.ltb 0%nat (g_nh_N F L lsolve d)) then let l_storage_18 := (put (g_hk_off F L lsolve d l_N_2) (pf_eval_h_N F (seg (g_xk_off F L lsolve d l_N_2) (g_xk_len F L lsolve d l_N_2) l_storage_16)) l_storage_16) in
  let l_V_19 := (l_V_17 + (pf_eval_l_N F (seg (g_hk_off F L lsolve d l_N_2) (g_hk_len F L lsolve d l_N_2) l_storage_18))) in
  (l_storage_18, l_V_19) else let l_V_20 := (l_V_17 + (pf_eval_l_N F (seg (g_xk_off F L lsolve d l_N_2) (g_xk_len F L lsolve d l_N_2) l_storage_16))) in
  (l_storage_16, l_V_20)) in
  let '(l_storage_26, l_V_27) := (if (Nat.ltb 0%nat l_nc_N_4) then let l_storage_23 := (put (g_ck_off F L lsolve d l_N_2) (pf_eval_constr_N F (seg (g_xk_off F L lsolve d l_N_2) (g_xk_len F L lsolve d l_N_2) l_storage_21)) l_storage_21) in
  let l_zeta_24 := (vadd (seg (g_ck_off F L lsolve d l_N_2) (g_ck_len F L lsolve d l_N_2) l_storage_23) (vdiv (seg (Nat.mul l_N_2 l_nc_3) l_nc_N_4 y) (seg (Nat.mul l_N_2 l_nc_3) l_nc_N_4 mu))) in
  let l_V_25 := (l_V_22 + ((n1 / n2) * (dist_sq D_N_lb D_N_ub (seg (Nat.mul l_N_2 l_nc_3) l_nc_N_4 mu) l_zeta_24))) in
  (l_storage_23, l_V_25) else (l_storage_21, l_V_22)) in
  (l_V_27, l_storage_26).

(* unit backward *)
(* body of the for loop *)
Definition g_backward_for1_step {T : Type} {HN : Num T} (F : ocp_fns T) (L : lqr_fns T) (lsolve : list (list T) -> list T -> list T) (d : dims) (storage : list T) (D_lb : list (option T)) (D_ub : list (option T)) (mu : list T) (y : list T) (l_nc_2 : nat) (l_nu_4 : nat) (l_nx_5 : nat) (s_g_in : list T) (s_qrbuf_in : list T) (s_work_x_in : list T) (s_work_lam_in : list T) (s_work_c_in : list T) (i_t : nat) : (list T * list T * list T * list T * list T)%type :=
  let l_qrbuf_15 := (put (g_qrk_off F L lsolve d i_t) (pf_eval_grad_f_prod F i_t (seg (g_xk_off F L lsolve d i_t) (g_xk_len F L lsolve d i_t) storage) (seg (g_uk_off F L lsolve d i_t) (g_uk_len F L lsolve d i_t) storage) s_work_lam_in) s_qrbuf_in) in
  let l_work_lam_16 := (seg (g_qrk_off F L lsolve d i_t) l_nx_5 l_qrbuf_15) in
  let l_g_17 := (put (Nat.mul i_t l_nu_4) (seg (Nat.add (g_qrk_off F L lsolve d i_t) (Nat.sub (g_qrk_len F L lsolve d i_t) l_nu_4)) l_nu_4 l_qrbuf_15) s_g_in) in
  let l_qrbuf_18 := (put (g_qrk_off F L lsolve d i_t) (pf_eval_qr F i_t (seg (g_xuk_off F L lsolve d i_t) (g_xuk_len F L lsolve d i_t) storage) (seg (g_hk_off F L lsolve d i_t) (g_hk_len F L lsolve d i_t) storage)) l_qrbuf_15) in
  let '(l_qrbuf_23, l_work_x_24, l_work_c_25) := (if (Nat.ltb 0%nat l_nc_2) then let l_zeta_19 := (vadd (seg (g_ck_off F L lsolve d i_t) (g_ck_len F L lsolve d i_t) storage) (vdiv (seg (Nat.mul i_t l_nc_2) l_nc_2 y) (seg (Nat.mul i_t l_nc_2) l_nc_2 mu))) in
  let l_work_c_20 := (put 0%nat (vmul (seg (Nat.mul i_t l_nc_2) l_nc_2 mu) (pdiff D_lb D_ub l_zeta_19)) s_work_c_in) in
  let l_work_x_21 := (pf_eval_grad_constr_prod F i_t (seg (g_xk_off F L lsolve d i_t) (g_xk_len F L lsolve d i_t) storage) (seg 0%nat l_nc_2 l_work_c_20)) in
  let l_qrbuf_22 := (put (g_qrk_off F L lsolve d i_t) (vadd (seg (g_qrk_off F L lsolve d i_t) l_nx_5 l_qrbuf_18) l_work_x_21) l_qrbuf_18) in
  (l_qrbuf_22, l_work_x_21, l_work_c_20) else (l_qrbuf_18, s_work_x_in, s_work_c_in)) in
  let l_work_lam_26 := (vadd l_work_lam_16 (seg (g_qrk_off F L lsolve d i_t) l_nx_5 l_qrbuf_23)) in
  let l_g_27 := (put (Nat.mul i_t l_nu_4) (vadd (seg (Nat.mul i_t l_nu_4) l_nu_4 l_g_17) (seg (Nat.add (g_qrk_off F L lsolve d i_t) (Nat.sub (g_qrk_len F L lsolve d i_t) l_nu_4)) l_nu_4 l_qrbuf_23)) l_g_17) in
  (l_g_27, l_qrbuf_23, l_work_x_24, l_work_lam_26, l_work_c_25).
(* the indices in the order the for loop visits them *)
Definition g_backward_for1_order {T : Type} {HN : Num T} (F : ocp_fns T) (L : lqr_fns T) (lsolve : list (list T) -> list T -> list T) (d : dims) (a_hi : nat) : list nat :=
  (rev (seq 0 a_hi)).
(* OCPEvaluator::backward — the function; result = (g, qrbuf, work_x, work_λ, work_c) *)
Definition g_backward {T : Type} {HN : Num T} (F : ocp_fns T) (L : lqr_fns T) (lsolve : list (list T) -> list T -> list T) (d : dims) (storage : list T) (g : list T) (qr : list T) (D_lb : list (option T)) (D_ub : list (option T)) (D_N_lb : list (option T)) (D_N_ub : list (option T)) (mu : list T) (y : list T) (work_x : list T) (work_lam : list T) (work_c : list T) : (list T * list T * list T * list T * list T)%type :=
  let l_N_1 := (g_N F L lsolve d) in
  let l_nc_2 := (g_nc F L lsolve d) in
  let l_nc_N_3 := (g_nc_N F L lsolve d) in
  let l_nu_4 := (g_nu F L lsolve d) in
  let l_nx_5 := (g_nx F L lsolve d) in
  let l_work_lam_6 := (pf_eval_q_N F (seg (g_xk_off F L lsolve d l_N_1) (g_xk_len F L lsolve d l_N_1) storage) (seg (g_hk_off F L lsolve d l_N_1) (g_hk_len F L lsolve d l_N_1) storage)) in
  let '(l_work_x_11, l_work_lam_12, l_work_c_13) := (if (Nat.ltb 0%nat l_nc_N_3) then let l_zeta_7 := (vadd (seg (g_ck_off F L lsolve d l_N_1) (g_ck_len F L lsolve d l_N_1) storage) (vdiv (seg (Nat.mul l_N_1 l_nc_2) l_nc_N_3 y) (seg (Nat.mul l_N_1 l_nc_2) l_nc_N_3 mu))) in
  let l_work_c_8 := (put 0%nat (vmul (seg (Nat.mul l_N_1 l_nc_2) l_nc_N_3 mu) (pdiff D_N_lb D_N_ub l_zeta_7)) work_c) in
  let l_work_x_9 := (pf_eval_grad_constr_prod_N F (seg (g_xk_off F L lsolve d l_N_1) (g_xk_len F L lsolve d l_N_1) storage) (seg 0%nat l_nc_N_3 l_work_c_8)) in
  let l_work_lam_10 := (vadd l_work_lam_6 l_work_x_9) in
  (l_work_x_9, l_work_lam_10, l_work_c_8) else (work_x, l_work_lam_6, work_c)) in
  let l_qrbuf_14 := (put (g_qk_off F L lsolve d (g_N F L lsolve d)) l_work_lam_12 qr) in
  let '(l_g_28, l_qrbuf_29, l_work_x_30, l_work_lam_31, l_work_c_32) := fold_left (fun '(s_g_in, s_qrbuf_in, s_work_x_in, s_work_lam_in, s_work_c_in) i_t => g_backward_for1_step F L lsolve d storage D_lb D_ub mu y l_nc_2 l_nu_4 l_nx_5 s_g_in s_qrbuf_in s_work_x_in s_work_lam_in s_work_c_in i_t) (g_backward_for1_order F L lsolve d l_N_1) (g, l_qrbuf_14, l_work_x_11, l_work_lam_12, l_work_c_13) in
  (l_g_28, l_qrbuf_29, l_work_x_30, l_work_lam_31, l_work_c_32).

(* unit factor_masked *)
(* body of the for loop *)
Definition g_factor_masked_for1_step {T : Type} {HN : Num T} (F : ocp_fns T) (L : lqr_fns T) (lsolve : list (list T) -> list T -> list T) (d : dims) (nx : nat) (nu : nat) (use_cholesky : bool) (s_P_in : list (list T)) (s_gain_K_in : list (list (list T))) (s_e_in : list (list T)) (s_s_in : list T) (s_c_in : list T) (s_y_in : list T) (s_t_in : list T) (s_PA_in : list (list T)) (i_i : nat) : (list (list T) * list (list (list T)) * list (list T) * list T * list T * list T * list T * list (list T))%type :=
  let l_ABi_4 := (lf_AB L i_i) in
  let l_Ai_5 := (mleft nx l_ABi_4) in
  let l_Bi_6 := (mright nu l_ABi_4) in
  let l_ui_7 := (lf_u L i_i) in
  let l_Ji_8 := (lf_J L i_i) in
  let l_Ki_9 := (lf_K L i_i) in
  let l_nJ_10 := (length l_Ji_8) in
  let l_BiJ_11 := (selcols l_Ji_8 l_Bi_6) in
  let l_PBiJ_12 := (mm l_nJ_10 s_P_in l_BiJ_11) in
  let l_Rh_13 := (mm l_nJ_10 (mT l_nJ_10 l_BiJ_11) l_PBiJ_12) in
  let l_Rh_14 := (lf_R L i_i l_Ji_8 l_Rh_13) in
  let l_PA_15 := (mm nx s_P_in l_Ai_5) in
  let l_Sh_16 := (mm nx (mT l_nJ_10 l_BiJ_11) l_PA_15) in
  let l_Sh_17 := (lf_S L i_i l_Ji_8 l_Sh_16) in
  let l_c_18 := (mv (selcols l_Ki_9 l_Bi_6) (sel l_Ki_9 l_ui_7)) in
  let l_y_19 := (mv s_P_in l_c_18) in
  let l_y_20 := (vadd l_y_19 s_s_in) in
  let l_t_21 := (put 0%nat (mtv l_nJ_10 l_BiJ_11 l_y_20) s_t_in) in
  let l_t_22 := (put 0%nat (vadd (seg 0%nat l_nJ_10 l_t_21) (sel l_Ji_8 (lf_r L i_i))) l_t_21) in
  let l_t_23 := (put 0%nat (lf_R_prod L i_i l_Ji_8 l_Ki_9 l_ui_7 (seg 0%nat l_nJ_10 l_t_22)) l_t_22) in
  let '(l_gain_K_28, l_e_29) := (if use_cholesky then let l_gain_K_24 := (lupd i_i (msolve lsolve l_nJ_10 nx l_Rh_14 l_Sh_17) s_gain_K_in) in
  let l_e_25 := (lupd i_i (lsolve l_Rh_14 (seg 0%nat l_nJ_10 l_t_23)) s_e_in) in
  (l_gain_K_24, l_e_25) else let l_gain_K_26 := (lupd i_i (msolve lsolve l_nJ_10 nx l_Rh_14 l_Sh_17) s_gain_K_in) in
  let l_e_27 := (lupd i_i (lsolve l_Rh_14 (seg 0%nat l_nJ_10 l_t_23)) s_e_in) in
  (l_gain_K_26, l_e_27)) in
  let l_gain_K_30 := (lupd i_i (mneg (nth i_i l_gain_K_28 [])) l_gain_K_28) in
  let l_e_31 := (lupd i_i (vneg (nth i_i l_e_29 [])) l_e_29) in
  let '(l_P_39, l_s_40) := (if (Nat.ltb 0%nat i_i) then let l_P_32 := (mm nx (mT nx l_Ai_5) l_PA_15) in
  let l_P_33 := (madd l_P_32 (mm nx (mT nx l_Sh_17) (nth i_i l_gain_K_30 []))) in
  let l_s_34 := (mtv nx l_Sh_17 (nth i_i l_e_31 [])) in
  let l_s_35 := (vadd l_s_34 (mtv nx l_Ai_5 l_y_20)) in
  let l_s_36 := (vadd l_s_35 (lf_q L i_i)) in
  let l_s_37 := (lf_S_prod L i_i l_Ki_9 l_ui_7 l_s_36) in
  let l_P_38 := (lf_Q L i_i l_P_33) in
  (l_P_38, l_s_37) else (s_P_in, s_s_in)) in
  (l_P_39, l_gain_K_30, l_e_31, l_s_40, l_c_18, l_y_20, l_t_23, l_PA_15).
(* the indices in the order the for loop visits them *)
Definition g_factor_masked_for1_order {T : Type} {HN : Num T} (F : ocp_fns T) (L : lqr_fns T) (lsolve : list (list T) -> list T -> list T) (d : dims) (a_hi : nat) : list nat :=
  (rev (seq 0 a_hi)).
(* StatefulLQRFactor::factor_masked — the function; result = (P, gain_K, e, s, c, y, t, PA) *)
Definition g_factor_masked {T : Type} {HN : Num T} (F : ocp_fns T) (L : lqr_fns T) (lsolve : list (list T) -> list T -> list T) (d : dims) (N : nat) (nx : nat) (nu : nat) (use_cholesky : bool) (P : list (list T)) (gain_K : list (list (list T))) (e : list (list T)) (s : list T) (c : list T) (y : list T) (t : list T) (PA : list (list T)) : (list (list T) * list (list (list T)) * list (list T) * list T * list T * list T * list T * list (list T))%type :=
  let l_P_1 := (mzero nx nx) in
  let l_P_2 := (lf_Q L N l_P_1) in
  let l_s_3 := (lf_q L N) in
  let '(l_P_41, l_gain_K_42, l_e_43, l_s_44, l_c_45, l_y_46, l_t_47, l_PA_48) := fold_left (fun '(s_P_in, s_gain_K_in, s_e_in, s_s_in, s_c_in, s_y_in, s_t_in, s_PA_in) i_i => g_factor_masked_for1_step F L lsolve d nx nu use_cholesky s_P_in s_gain_K_in s_e_in s_s_in s_c_in s_y_in s_t_in s_PA_in i_i) (g_factor_masked_for1_order F L lsolve d N) (l_P_2, gain_K, e, l_s_3, c, y, t, PA) in
  (l_P_41, l_gain_K_42, l_e_43, l_s_44, l_c_45, l_y_46, l_t_47, l_PA_48).

(* unit solve_masked *)
(* body of the for loop *)
Definition g_solve_masked_for1_step {T : Type} {HN : Num T} (F : ocp_fns T) (L : lqr_fns T) (lsolve : list (list T) -> list T -> list T) (d : dims) (nx : nat) (nu : nat) (gain_K : list (list (list T))) (s_Delu_eq_in : list T) (s_Delx_in : list T) (s_e_in : list (list T)) (i_i : nat) : (list T * list T * list (list T))%type :=
  let l_ABi_2 := (lf_AB L i_i) in
  let l_Ai_3 := (mleft nx l_ABi_2) in
  let l_Bi_4 := (mright nu l_ABi_2) in
  let l_Ji_5 := (lf_J L i_i) in
  let l_nJ_6 := (length l_Ji_5) in
  let l_e_7 := (lupd i_i (vadd (nth i_i s_e_in []) (mv (nth i_i gain_K []) (seg (Nat.mul (Nat.modulo i_i 2%nat) nx) nx s_Delx_in))) s_e_in) in
  let l_Delu_eq_8 := (put (Nat.mul i_i nu) (scatter l_Ji_5 (nth i_i l_e_7 []) (seg (Nat.mul i_i nu) nu s_Delu_eq_in)) s_Delu_eq_in) in
  let l_Delx_9 := (put (Nat.mul (Nat.modulo (S i_i) 2%nat) nx) (mv l_Ai_3 (seg (Nat.mul (Nat.modulo i_i 2%nat) nx) nx s_Delx_in)) s_Delx_in) in
  let l_Delx_10 := (put (Nat.mul (Nat.modulo (S i_i) 2%nat) nx) (vadd (seg (Nat.mul (Nat.modulo (S i_i) 2%nat) nx) nx l_Delx_9) (mv l_Bi_4 (seg (Nat.mul i_i nu) nu l_Delu_eq_8))) l_Delx_9) in
  (l_Delu_eq_8, l_Delx_10, l_e_7).
(* the indices in the order the for loop visits them *)
Definition g_solve_masked_for1_order {T : Type} {HN : Num T} (F : ocp_fns T) (L : lqr_fns T) (lsolve : list (list T) -> list T -> list T) (d : dims) (a_hi : nat) : list nat :=
  (seq 0 a_hi).
(* StatefulLQRFactor::solve_masked — the function; result = (Δu_eq, Δx, e) *)
Definition g_solve_masked {T : Type} {HN : Num T} (F : ocp_fns T) (L : lqr_fns T) (lsolve : list (list T) -> list T -> list T) (d : dims) (N : nat) (nx : nat) (nu : nat) (Delu_eq : list T) (Delx : list T) (gain_K : list (list (list T))) (e : list (list T)) : (list T * list T * list (list T))%type :=
  let l_Delx_1 := (put 0%nat (vconst nx n0) Delx) in
  let '(l_Delu_eq_11, l_Delx_12, l_e_13) := fold_left (fun '(s_Delu_eq_in, s_Delx_in, s_e_in) i_i => g_solve_masked_for1_step F L lsolve d nx nu gain_K s_Delu_eq_in s_Delx_in s_e_in i_i) (g_solve_masked_for1_order F L lsolve d N) (Delu_eq, l_Delx_1, e) in
  (l_Delu_eq_11, l_Delx_12, l_e_13).

(* end of OcpGen *)
