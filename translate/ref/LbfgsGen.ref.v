(* LbfgsGen.ref.v — reference text of the translator (the translation of the source tree the framework was built against).
   Used unit by unit ONLY when the current source leaves the translator's grammar. *)
From Coq Require Import ZArith List Bool Arith.
From Alpaqa Require Import Num Vec LbfgsGenLib.
Import ListNotations.
Local Open Scope num_scope.

(* every definition takes the same context: the number system, the column store O, std::pow, the parameters P *)

(* unit cbfgs_on *)
(* bexplicits+operators+bool — the function *)
Definition g_cbfgs_on {T : Type} {HN : Num T} {St : Type} (O : store_ops T St) (pw : T -> T -> T) (P : gparams T) : bool :=
  (n0 <? (gp_cbfgs_eps P)).

(* unit update_valid *)
(* LBFGS<Conf>::update_valid — the function *)
Definition g_update_valid {T : Type} {HN : Num T} {St : Type} (O : store_ops T St) (pw : T -> T -> T) (P : gparams T) (yTs : T) (sTs : T) (pTp : T) : bool :=
  if (sTs <=? (gp_min_abs_s P)) then
  false
  else
  if (negb (nfinite yTs)) then
  false
  else
  let l_a_yTs_1 := (if (gp_force_pos_def P) then yTs else (nabs yTs)) in
  if (l_a_yTs_1 <=? ((gp_min_div_fac P) * sTs)) then
  false
  else
  if (g_cbfgs_on O pw P) then
  let l_alpha_2 := (gp_cbfgs_alpha P) in
  let l_eps_3 := (gp_cbfgs_eps P) in
  let l_cbfgs_cond_4 := (((sTs * l_eps_3) * (pw pTp (l_alpha_2 / n2))) <=? l_a_yTs_1) in
  if (negb l_cbfgs_cond_4) then
  false
  else
  true
  else
  true.

(* unit succ *)
(* bindex_ts+succ — the function *)
Definition g_succ {T : Type} {HN : Num T} {St : Type} (O : store_ops T St) (pw : T -> T -> T) (P : gparams T) (st : St) (i : nat) : nat :=
  (if (Nat.ltb (S i) (so_history O st)) then (S i) else 0%nat).

(* unit pred *)
(* bindex_ts+pred — the function *)
Definition g_pred {T : Type} {HN : Num T} {St : Type} (O : store_ops T St) (pw : T -> T -> T) (P : gparams T) (st : St) (i : nat) : nat :=
  (if (Nat.ltb 0%nat i) then (Nat.pred i) else (Nat.pred (so_history O st))).

(* unit current_history *)
(* blength_ts+current_history — the function *)
Definition g_current_history {T : Type} {HN : Num T} {St : Type} (O : store_ops T St) (pw : T -> T -> T) (P : gparams T) (st : St) : nat :=
  (if (so_full O st) then (so_history O st) else (so_idx O st)).

(* unit foreach_fwd *)
(* foreach_fwd: the indices in the order `fun` is called *)
Definition g_foreach_fwd {T : Type} {HN : Num T} {St : Type} (O : store_ops T St) (pw : T -> T -> T) (P : gparams T) (st : St) : list nat :=
  (if (so_full O st) then (seq (so_idx O st) (Nat.sub (so_history O st) (so_idx O st))) else []) ++ (if (negb (Nat.eqb (so_idx O st) 0%nat)) then (seq 0 (so_idx O st)) else []).

(* unit foreach_rev *)
(* foreach_rev: the indices in the order `fun` is called *)
Definition g_foreach_rev {T : Type} {HN : Num T} {St : Type} (O : store_ops T St) (pw : T -> T -> T) (P : gparams T) (st : St) : list nat :=
  (if (negb (Nat.eqb (so_idx O st) 0%nat)) then (rev (seq 0 (so_idx O st))) else []) ++ (if (so_full O st) then (rev (seq (so_idx O st) (Nat.sub (so_history O st) (so_idx O st)))) else []).

(* unit update_sy_impl *)
(* LBFGS<Conf>::update_sy_impl — the function *)
Definition g_update_sy_impl {T : Type} {HN : Num T} {St : Type} (O : store_ops T St) (pw : T -> T -> T) (P : gparams T) (st : St) (s : list T) (y : list T) (pnextTpnext : T) (forced : bool) : bool * St :=
  let l_yTs_1 := (vdot y s) in
  let l_rho_2 := (n1 / l_yTs_1) in
  if (negb forced) then
  let l_sTs_3 := (vsqnorm s) in
  if (negb (g_update_valid O pw P l_yTs_1 l_sTs_3 pnextTpnext)) then
  (false, st)
  else
  let st_4 := (so_set_s O st (so_idx O st) s) in
  let st_5 := (so_set_y O st_4 (so_idx O st_4) y) in
  let st_6 := (so_set_rho O st_5 (so_idx O st_5) l_rho_2) in
  let st_7 := (so_set_idx O st_6 (g_succ O pw P st_6 (so_idx O st_6))) in
  let st_8 := (so_set_full O st_7 ((so_full O st_7) || (Nat.eqb (so_idx O st_7) 0%nat))) in
  (true, st_8)
  else
  let st_9 := (so_set_s O st (so_idx O st) s) in
  let st_10 := (so_set_y O st_9 (so_idx O st_9) y) in
  let st_11 := (so_set_rho O st_10 (so_idx O st_10) l_rho_2) in
  let st_12 := (so_set_idx O st_11 (g_succ O pw P st_11 (so_idx O st_11))) in
  let st_13 := (so_set_full O st_12 ((so_full O st_12) || (Nat.eqb (so_idx O st_12) 0%nat))) in
  (true, st_13).

(* unit update *)
(* LBFGS<Conf>::update — the function *)
Definition g_update {T : Type} {HN : Num T} {St : Type} (O : store_ops T St) (pw : T -> T -> T) (P : gparams T) (st : St) (xk : list T) (xnext : list T) (pk : list T) (pnext : list T) (sign : bool) (forced : bool) : bool * St :=
  let l_s_1 := (vsub xnext xk) in
  let l_y_2 := (if (Bool.eqb sign true) then (vsub pnext pk) else (vsub pk pnext)) in
  let l_pnextTpnext_3 := (if (g_cbfgs_on O pw P) then (vsqnorm pnext) else n0) in
  (g_update_sy_impl O pw P st l_s_1 l_y_2 l_pnextTpnext_3 forced).

(* unit apply *)
(* body of the rev loop *)
Definition g_apply_rev_step {T : Type} {HN : Num T} {St : Type} (O : store_ops T St) (pw : T -> T -> T) (P : gparams T) (st_in : St) (s_q_in : list T) (i_i : nat) : (St * list T)%type :=
  let st_5 := (so_set_alpha O st_in i_i ((so_rho O st_in i_i) * (vdot (so_s O st_in i_i) s_q_in))) in
  let l_q_6 := (vsub s_q_in (vscale (so_alpha O st_5 i_i) (so_y O st_5 i_i))) in
  (st_5, l_q_6).
(* body of the fwd loop *)
Definition g_apply_fwd_step {T : Type} {HN : Num T} {St : Type} (O : store_ops T St) (pw : T -> T -> T) (P : gparams T) (st_7 : St) (s_q_in : list T) (i_i : nat) : list T :=
  let l_beta_10 := ((so_rho O st_7 i_i) * (vdot (so_y O st_7 i_i) s_q_in)) in
  let l_q_11 := (vsub s_q_in (vscale (l_beta_10 - (so_alpha O st_7 i_i)) (so_s O st_7 i_i))) in
  l_q_11.
(* LBFGS<Conf>::apply — the function *)
Definition g_apply {T : Type} {HN : Num T} {St : Type} (O : store_ops T St) (pw : T -> T -> T) (P : gparams T) (st : St) (q : list T) (gam : T) : bool * list T * St :=
  if ((Nat.eqb (so_idx O st) 0%nat) && (negb (so_full O st))) then
  (false, q, st)
  else
  let l_gam_4 := (if ((Bool.eqb (gp_curvature P) true) || (gam <? n0)) then let l_new_idx_1 := (g_pred O pw P st (so_idx O st)) in
  let l_yTy_2 := (vsqnorm (so_y O st l_new_idx_1)) in
  let l_gam_3 := (n1 / ((so_rho O st l_new_idx_1) * l_yTy_2)) in
  l_gam_3 else gam) in
  let '(st_7, l_q_8) := fold_left (fun '(st_in, s_q_in) i_i => g_apply_rev_step O pw P st_in s_q_in i_i) (g_foreach_rev O pw P st) (st, q) in
  let l_q_9 := (vscale l_gam_4 l_q_8) in
  let l_q_12 := fold_left (g_apply_fwd_step O pw P st_7) (g_foreach_fwd O pw P st_7) l_q_9 in
  (true, l_q_12, st_7).

(* unit apply_masked_impl *)
(* body of the for loop *)
Definition g_apply_masked_impl_dotJ_for1_step {T : Type} {HN : Num T} {St : Type} (O : store_ops T St) (pw : T -> T -> T) (P : gparams T) (a_a : list T) (a_b : list T) (s_acc_in : T) (i_j : nat) : T :=
  let l_acc_5 := (s_acc_in + ((nth i_j a_a n0) * (nth i_j a_b n0))) in
  l_acc_5.
(* lambda dotJ *)
Definition g_apply_masked_impl_dotJ {T : Type} {HN : Num T} {St : Type} (O : store_ops T St) (pw : T -> T -> T) (P : gparams T) (J : list nat) (l_fullJ_1 : bool) (a_a : list T) (a_b : list T) : T :=
  if l_fullJ_1 then
  (vdot a_a a_b)
  else
  let l_acc_4 := n0 in
  let l_acc_6 := fold_left (g_apply_masked_impl_dotJ_for1_step O pw P a_a a_b) J l_acc_4 in
  l_acc_6.
(* body of the for loop *)
Definition g_apply_masked_impl_axmyJ_for1_step {T : Type} {HN : Num T} {St : Type} (O : store_ops T St) (pw : T -> T -> T) (P : gparams T) (a_a : T) (a_x : list T) (s_y_in : list T) (i_j : nat) : list T :=
  let l_y_13 := (vupd s_y_in i_j ((nth i_j s_y_in n0) - (a_a * (nth i_j a_x n0)))) in
  l_y_13.
(* lambda axmyJ *)
Definition g_apply_masked_impl_axmyJ {T : Type} {HN : Num T} {St : Type} (O : store_ops T St) (pw : T -> T -> T) (P : gparams T) (J : list nat) (l_fullJ_1 : bool) (a_a : T) (a_x : list T) (a_y : list T) : list T :=
  let l_y_15 := (if l_fullJ_1 then let l_y_12 := (vsub a_y (vscale a_a a_x)) in
  l_y_12 else let l_y_14 := fold_left (g_apply_masked_impl_axmyJ_for1_step O pw P a_a a_x) J a_y in
  l_y_14) in
  l_y_15.
(* body of the rev loop *)
Definition g_apply_masked_impl_rev_step {T : Type} {HN : Num T} {St : Type} (O : store_ops T St) (pw : T -> T -> T) (P : gparams T) (J : list nat) (l_fullJ_1 : bool) (st_in : St) (s_q_in : list T) (s_gam_in : T) (i_i : nat) : (St * list T * T)%type :=
  let l_yTs_7 := (g_apply_masked_impl_dotJ O pw P J l_fullJ_1 (so_s O st_in i_i) (so_y O st_in i_i)) in
  let l_sTs_8 := (g_apply_masked_impl_dotJ O pw P J l_fullJ_1 (so_s O st_in i_i) (so_s O st_in i_i)) in
  let l_rhoJ_9 := (n1 / l_yTs_7) in
  if (negb (g_update_valid O pw P l_yTs_7 l_sTs_8 n0)) then
  let st_10 := (so_mark_alpha O st_in i_i) in
  (st_10, s_q_in, s_gam_in)
  else
  let st_11 := (so_set_alpha O st_in i_i (l_rhoJ_9 * (g_apply_masked_impl_dotJ O pw P J l_fullJ_1 (so_s O st_in i_i) s_q_in))) in
  let l_q_16 := (g_apply_masked_impl_axmyJ O pw P J l_fullJ_1 (so_alpha O st_11 i_i) (so_y O st_11 i_i) s_q_in) in
  let l_gam_19 := (if (s_gam_in <? n0) then let l_yTy_17 := (g_apply_masked_impl_dotJ O pw P J l_fullJ_1 (so_y O st_11 i_i) (so_y O st_11 i_i)) in
  let l_gam_18 := (n1 / (l_rhoJ_9 * l_yTy_17)) in
  l_gam_18 else s_gam_in) in
  (st_11, l_q_16, l_gam_19).
(* body of the for loop *)
Definition g_apply_masked_impl_scalJ_for1_step {T : Type} {HN : Num T} {St : Type} (O : store_ops T St) (pw : T -> T -> T) (P : gparams T) (a_a : T) (s_x_in : list T) (i_j : nat) : list T :=
  let l_x_24 := (vupd s_x_in i_j ((nth i_j s_x_in n0) * a_a)) in
  l_x_24.
(* lambda scalJ *)
Definition g_apply_masked_impl_scalJ {T : Type} {HN : Num T} {St : Type} (O : store_ops T St) (pw : T -> T -> T) (P : gparams T) (J : list nat) (l_fullJ_1 : bool) (a_a : T) (a_x : list T) : list T :=
  let l_x_26 := (if l_fullJ_1 then let l_x_23 := (vscale a_a a_x) in
  l_x_23 else let l_x_25 := fold_left (g_apply_masked_impl_scalJ_for1_step O pw P a_a) J a_x in
  l_x_25) in
  l_x_26.
(* body of the fwd loop *)
Definition g_apply_masked_impl_fwd_step {T : Type} {HN : Num T} {St : Type} (O : store_ops T St) (pw : T -> T -> T) (P : gparams T) (st_20 : St) (J : list nat) (l_fullJ_1 : bool) (s_q_in : list T) (i_i : nat) : list T :=
  if (so_alpha_isnan O st_20 i_i) then
  s_q_in
  else
  let l_rhoJ_28 := (n1 / (g_apply_masked_impl_dotJ O pw P J l_fullJ_1 (so_s O st_20 i_i) (so_y O st_20 i_i))) in
  let l_beta_29 := (l_rhoJ_28 * (g_apply_masked_impl_dotJ O pw P J l_fullJ_1 (so_y O st_20 i_i) s_q_in)) in
  let l_q_30 := (g_apply_masked_impl_axmyJ O pw P J l_fullJ_1 (l_beta_29 - (so_alpha O st_20 i_i)) (so_s O st_20 i_i) s_q_in) in
  l_q_30.
(* LBFGS<Conf>::apply_masked_impl — the function *)
Definition g_apply_masked_impl {T : Type} {HN : Num T} {St : Type} (O : store_ops T St) (pw : T -> T -> T) (P : gparams T) (st : St) (q : list T) (gam : T) (J : list nat) : gres * list T * St :=
  if ((Nat.eqb (so_idx O st) 0%nat) && (negb (so_full O st))) then
  ((GRet false), q, st)
  else
  let l_fullJ_1 := (Nat.eqb (length q) (length J)) in
  let l_gam_3 := (if (Bool.eqb (gp_curvature P) true) then let l_gam_2 := (- n1) in
  l_gam_2 else gam) in
  if (g_cbfgs_on O pw P) then
  (GThrow, q, st)
  else
  let '(st_20, l_q_21, l_gam_22) := fold_left (fun '(st_in, s_q_in, s_gam_in) i_i => g_apply_masked_impl_rev_step O pw P J l_fullJ_1 st_in s_q_in s_gam_in i_i) (g_foreach_rev O pw P st) (st, q, l_gam_3) in
  if (l_gam_22 <? n0) then
  ((GRet false), l_q_21, st_20)
  else
  let l_q_27 := (g_apply_masked_impl_scalJ O pw P J l_fullJ_1 l_gam_22 l_q_21) in
  let l_q_31 := fold_left (g_apply_masked_impl_fwd_step O pw P st_20 J l_fullJ_1) (g_foreach_fwd O pw P st_20) l_q_27 in
  ((GRet true), l_q_31, st_20).

(* unit reset *)
(* LBFGS<Conf>::reset — the function *)
Definition g_reset {T : Type} {HN : Num T} {St : Type} (O : store_ops T St) (pw : T -> T -> T) (P : gparams T) (st : St) : St :=
  let st_1 := (so_set_idx O st 0%nat) in
  let st_2 := (so_set_full O st_1 false) in
  st_2.

(* unit resize *)
(* LBFGS<Conf>::resize — the function *)
Definition g_resize {T : Type} {HN : Num T} {St : Type} (O : store_ops T St) (pw : T -> T -> T) (P : gparams T) (st : St) (n : nat) : option (St) :=
  if (Nat.ltb (gp_memory P) 1%nat) then
  None
  else
  let st_1 := (so_resize O st n (gp_memory P)) in
  let st_2 := (g_reset O pw P st_1) in
  (Some st_2).

(* unit scale_y *)
(* body of the for loop *)
Definition g_scale_y_for1_step {T : Type} {HN : Num T} {St : Type} (O : store_ops T St) (pw : T -> T -> T) (P : gparams T) (factor : T) (st_in : St) (i_i : nat) : St :=
  let st_1 := (so_set_y O st_in i_i (vscale factor (so_y O st_in i_i))) in
  let st_2 := (so_set_rho O st_1 i_i ((so_rho O st_1 i_i) * (n1 / factor))) in
  st_2.
(* body of the for loop *)
Definition g_scale_y_for2_step {T : Type} {HN : Num T} {St : Type} (O : store_ops T St) (pw : T -> T -> T) (P : gparams T) (factor : T) (st_in : St) (i_i : nat) : St :=
  let st_4 := (so_set_y O st_in i_i (vscale factor (so_y O st_in i_i))) in
  let st_5 := (so_set_rho O st_4 i_i ((so_rho O st_4 i_i) * (n1 / factor))) in
  st_5.
(* LBFGS<Conf>::scale_y — the function *)
Definition g_scale_y {T : Type} {HN : Num T} {St : Type} (O : store_ops T St) (pw : T -> T -> T) (P : gparams T) (st : St) (factor : T) : St :=
  let st_7 := (if (so_full O st) then let st_3 := fold_left (g_scale_y_for1_step O pw P factor) (seq 0 (so_history O st)) st in
  st_3 else let st_6 := fold_left (g_scale_y_for2_step O pw P factor) (seq 0 (so_idx O st)) st in
  st_6) in
  st_7.

(* end of LbfgsGen *)
