(* KernelsGen.ref.v — reference text of translate/gen_kernels.py (the translation of the source tree the framework was built against).
   Used group by group ONLY when the current source leaves the translator's grammar. *)
From Coq Require Import ZArith List Bool Arith.
From Alpaqa Require Import Num Vec Prox SolverKernels PanocOcp.
Import ListNotations.

Section KernelsGen.
  Context {T : Type} `{Num T}.
  Local Open Scope num_scope.

  (* group helpers/calc_error_stop_crit/ApproxKKT *)
  (* C++: auto err = ( 1 / γ ) * pₖ + ( grad_ψₖ - grad_̂ψₖ ) ; return norm_inf ( err ) ; *)
  Definition g_crit_ApproxKKT (lb ub : list (option T)) (l1 : list T) (p : list T) (gam : T) (x xh yh grad gradh : list T) : T := (let l_err := (vadd (vscale (n1 / gam) p) (vsub grad gradh)) in (vnorminf l_err)).

  (* group helpers/calc_error_stop_crit/ApproxKKT2 *)
  (* C++: auto err = ( 1 / γ ) * pₖ + ( grad_ψₖ - grad_̂ψₖ ) ; return err.norm ( ) ; *)
  Definition g_crit_ApproxKKT2 (lb ub : list (option T)) (l1 : list T) (p : list T) (gam : T) (x xh yh grad gradh : list T) : T := (let l_err := (vadd (vscale (n1 / gam) p) (vsub grad gradh)) in (vnorm2 l_err)).

  (* group helpers/calc_error_stop_crit/ProjGradNorm *)
  (* C++: return norm_inf ( pₖ ) ; *)
  Definition g_crit_ProjGradNorm (lb ub : list (option T)) (l1 : list T) (p : list T) (gam : T) (x xh yh grad gradh : list T) : T := (vnorminf p).

  (* group helpers/calc_error_stop_crit/ProjGradNorm2 *)
  (* C++: return pₖ.norm ( ) ; *)
  Definition g_crit_ProjGradNorm2 (lb ub : list (option T)) (l1 : list T) (p : list T) (gam : T) (x xh yh grad gradh : list T) : T := (vnorm2 p).

  (* group helpers/calc_error_stop_crit/ProjGradUnitNorm *)
  (* C++: problem.eval_prox_grad_step ( real_t ( 1 ) , xₖ , grad_ψₖ , work_n1 , work_n2 ) ; return norm_inf ( work_n2 ) ; *)
  Definition g_crit_ProjGradUnitNorm (lb ub : list (option T)) (l1 : list T) (p : list T) (gam : T) (x xh yh grad gradh : list T) : T := (let l_step1 := eval_prox_grad_step lb ub l1 n1 x grad in (vnorminf (snd (fst l_step1)))).

  (* group helpers/calc_error_stop_crit/ProjGradUnitNorm2 *)
  (* C++: problem.eval_prox_grad_step ( real_t ( 1 ) , xₖ , grad_ψₖ , work_n1 , work_n2 ) ; return work_n2.norm ( ) ; *)
  Definition g_crit_ProjGradUnitNorm2 (lb ub : list (option T)) (l1 : list T) (p : list T) (gam : T) (x xh yh grad gradh : list T) : T := (let l_step1 := eval_prox_grad_step lb ub l1 n1 x grad in (vnorm2 (snd (fst l_step1)))).

  (* group helpers/calc_error_stop_crit/FPRNorm *)
  (* C++: return norm_inf ( pₖ ) / γ ; *)
  Definition g_crit_FPRNorm (lb ub : list (option T)) (l1 : list T) (p : list T) (gam : T) (x xh yh grad gradh : list T) : T := ((vnorminf p) / gam).

  (* group helpers/calc_error_stop_crit/FPRNorm2 *)
  (* C++: return pₖ.norm ( ) / γ ; *)
  Definition g_crit_FPRNorm2 (lb ub : list (option T)) (l1 : list T) (p : list T) (gam : T) (x xh yh grad gradh : list T) : T := ((vnorm2 p) / gam).

  (* group helpers/calc_error_stop_crit/Ipopt *)
  (* C++: problem.eval_prox_grad_step ( real_t ( 1 ) , x̂ₖ , grad_̂ψₖ , work_n1 , work_n2 ) ; auto err = norm_inf ( work_n2 ) ; auto n = 2 * ( ŷₖ.size ( ) + x̂ₖ.size ( ) ) ; if ( n == 0 ) return err ; work_n2 = - work_n2 - grad_̂ψₖ ; auto C_lagr_mult = norm_1 ( work_n2 ) ; auto D_lagr_mult = norm_1 ( ŷₖ ) ; const real_t s_max = 100 ; const real_t s_n = static_cast < real_t > ( n ) ; real_t s_d = std::max ( s_max , ( C_lagr_mult + D_lagr_mult ) / s_n ) / s_max ; return err / s_d ; *)
  Definition g_crit_Ipopt (lb ub : list (option T)) (l1 : list T) (p : list T) (gam : T) (x xh yh grad gradh : list T) : T := (let l_step1 := eval_prox_grad_step lb ub l1 n1 xh gradh in (let l_err := (vnorminf (snd (fst l_step1))) in (let l_n := (Nat.mul 2%nat (Nat.add (length yh) (length xh))) in (if (Nat.eqb l_n 0%nat) then l_err else (let l_work_n2_2 := (vsub (vneg (snd (fst l_step1))) gradh) in (let l_C_lagr_mult := (vnorm1 l_work_n2_2) in (let l_D_lagr_mult := (vnorm1 yh) in (let l_s_max := (nofZ 100%Z) in (let l_s_n := (nofZ (Z.of_nat l_n)) in (let l_s_d := ((cmax l_s_max ((l_C_lagr_mult + l_D_lagr_mult) / l_s_n)) / l_s_max) in (l_err / l_s_d))))))))))).

  (* group helpers/calc_error_stop_crit/LBFGSBpp *)
  (* C++: problem.eval_prox_grad_step ( real_t ( 1 ) , xₖ , grad_ψₖ , work_n1 , work_n2 ) ; return norm_inf ( work_n2 ) / std::fmax ( real_t ( 1 ) , xₖ.norm ( ) ) ; *)
  Definition g_crit_LBFGSBpp (lb ub : list (option T)) (l1 : list T) (p : list T) (gam : T) (x xh yh grad gradh : list T) : T := (let l_step1 := eval_prox_grad_step lb ub l1 n1 x grad in ((vnorminf (snd (fst l_step1))) / (nfmax n1 (vnorm2 x)))).

  (* group helpers/calc_error_stop_crit/switch *)
  (* C++: switch (crit) of calc_error_stop_crit *)
  Definition g_crit_eps (c : stopcrit) (lb ub : list (option T)) (l1 : list T) (p : list T) (gam : T) (x xh yh grad gradh : list T) : T := match c with | ApproxKKT => g_crit_ApproxKKT lb ub l1 p gam x xh yh grad gradh | ApproxKKT2 => g_crit_ApproxKKT2 lb ub l1 p gam x xh yh grad gradh | ProjGradNorm => g_crit_ProjGradNorm lb ub l1 p gam x xh yh grad gradh | ProjGradNorm2 => g_crit_ProjGradNorm2 lb ub l1 p gam x xh yh grad gradh | ProjGradUnitNorm => g_crit_ProjGradUnitNorm lb ub l1 p gam x xh yh grad gradh | ProjGradUnitNorm2 => g_crit_ProjGradUnitNorm2 lb ub l1 p gam x xh yh grad gradh | FPRNorm => g_crit_FPRNorm lb ub l1 p gam x xh yh grad gradh | FPRNorm2 => g_crit_FPRNorm2 lb ub l1 p gam x xh yh grad gradh | Ipopt => g_crit_Ipopt lb ub l1 p gam x xh yh grad gradh | LBFGSBpp => g_crit_LBFGSBpp lb ub l1 p gam x xh yh grad gradh end.
  (* C++: switch (crit) of stop_crit_requires_grad_ψx̂ *)
  Definition g_crit_needs_gradh (c : stopcrit) : bool := match c with | ApproxKKT => true | ApproxKKT2 => true | ProjGradNorm => false | ProjGradNorm2 => false | ProjGradUnitNorm => false | ProjGradUnitNorm2 => false | FPRNorm => false | FPRNorm2 => false | Ipopt => true | LBFGSBpp => false end.

  (* group panoc/fbe *)
  (* C++: ψx + hx̂ + pᵀp / (2 * γ) + grad_ψᵀp *)
  Definition g_panoc_fbe (psx hxh pp gam gp : T) : T := (((psx + hxh) + (pp / (n2 * gam))) + gp).

  (* group panoc/qub_violated *)
  (* C++: real_t margin = (1 + std::abs(i.ψx)) * params.quadratic_upperbound_tolerance_factor; return i.ψx̂ > i.ψx + i.grad_ψᵀp + real_t(0.5) * i.L * i.pᵀp + margin; *)
  Definition g_panoc_qub_violated (psx psxh gp L pp tol : T) : bool := (let l_margin := ((n1 + (nabs psx)) * tol) in ((((psx + gp) + (((n1 / n2) * L) * pp)) + l_margin) <? psxh)).

  (* group panoc/qub_site_init *)
  (* C++: curr->L < params.L_max && qub_violated( *curr) *)
  Definition g_panoc_qub_guard_init (L Lmax : T) (qv : bool) : bool := ((L <? Lmax) && qv).
  (* C++: curr->γ /= 2 *)
  Definition g_panoc_halve_gamma_init (gam : T) : T := (gam / n2).
  (* C++: curr->L *= 2 *)
  Definition g_panoc_halve_L_init (L : T) : T := (L * n2).

  (* group panoc/gamma_of_L *)
  (* C++: curr->γ = params.Lipschitz.Lγ_factor / curr->L *)
  Definition g_panoc_gamma_of_L (Lgam L : T) : T := (Lgam / L).

  (* group panoc/linesearch_violated *)
  (* C++: if (params.force_linesearch) return false; real_t β = params.linesearch_strictness_factor; real_t σ = β * (1 - curr.γ * curr.L) / (2 * curr.γ); real_t φγ = curr.fbe(); real_t margin = (1 + std::abs(φγ)) * params.linesearch_tolerance_factor; return next.fbe() > φγ - σ * curr.pᵀp + margin; *)
  Definition g_panoc_ls_violated (force : bool) (beta tol : T) (c_psx c_hxh c_pp c_gam c_gp c_L n_psx n_hxh n_pp n_gam n_gp : T) : bool := (if force then false else (let l_beta := beta in (let l_sig := ((l_beta * (n1 - (c_gam * c_L))) / (n2 * c_gam)) in (let l_phigam := (g_panoc_fbe c_psx c_hxh c_pp c_gam c_gp) in (let l_margin := ((n1 + (nabs l_phigam)) * tol) in (((l_phigam - (l_sig * c_pp)) + l_margin) <? (g_panoc_fbe n_psx n_hxh n_pp n_gam n_gp))))))).

  (* group panoc/linesearch_sites *)
  (* C++: next->L < params.L_max && qub_violated( *next) *)
  Definition g_panoc_qub_guard_ls (L Lmax : T) (qv : bool) : bool := ((L <? Lmax) && qv).
  (* C++: next->γ /= 2 *)
  Definition g_panoc_halve_gamma_ls (gam : T) : T := (gam / n2).
  (* C++: next->L *= 2 *)
  Definition g_panoc_halve_L_ls (L : T) : T := (L * n2).
  (* C++: if (τ > 0) τ = τ_init; *)
  Definition g_panoc_tau_reset (tau tau_init : T) : T := (if (n0 <? tau) then tau_init else tau).
  (* C++: τ > 0 && linesearch_violated( *curr, *next) *)
  Definition g_panoc_ls_guard (tau : T) (lv : bool) : bool := ((n0 <? tau) && lv).
  (* C++: τ *= params.linesearch_coefficient_update_factor; if (τ < params.min_linesearch_coefficient) τ = 0; *)
  Definition g_panoc_tau_update (tau factor tau_min : T) : T := (let l_tau1 := (tau * factor) in (if (l_tau1 <? tau_min) then n0 else l_tau1)).

  (* group panoc/no_progress *)
  (* C++: if (no_progress > 0 || params.max_no_progress == 0 || k % params.max_no_progress == 0) no_progress = curr->x == next->x ? no_progress + 1 : 0; *)
  Definition g_panoc_np_update (np k mnp : nat) (x xn : list T) : nat := (if (((Nat.ltb 0%nat np) || (Nat.eqb mnp 0%nat)) || (Nat.eqb (Nat.modulo k mnp) 0%nat)) then (if (veqb x xn) then (Nat.add np 1%nat) else 0%nat) else np).

  (* group zerofpr/fbe *)
  (* C++: ψx + hx̂ + pᵀp / (2 * γ) + grad_ψᵀp *)
  Definition g_zerofpr_fbe (psx hxh pp gam gp : T) : T := (((psx + hxh) + (pp / (n2 * gam))) + gp).

  (* group zerofpr/qub_violated *)
  (* C++: real_t margin = (1 + std::abs(i.ψx)) * params.quadratic_upperbound_tolerance_factor; return i.ψx̂ > i.ψx + i.grad_ψᵀp + real_t(0.5) * i.L * i.pᵀp + margin; *)
  Definition g_zerofpr_qub_violated (psx psxh gp L pp tol : T) : bool := (let l_margin := ((n1 + (nabs psx)) * tol) in ((((psx + gp) + (((n1 / n2) * L) * pp)) + l_margin) <? psxh)).

  (* group zerofpr/qub_site_init *)
  (* C++: curr->L < params.L_max && qub_violated( *curr) *)
  Definition g_zerofpr_qub_guard_init (L Lmax : T) (qv : bool) : bool := ((L <? Lmax) && qv).
  (* C++: curr->γ /= 2 *)
  Definition g_zerofpr_halve_gamma_init (gam : T) : T := (gam / n2).
  (* C++: curr->L *= 2 *)
  Definition g_zerofpr_halve_L_init (L : T) : T := (L * n2).

  (* group zerofpr/gamma_of_L *)
  (* C++: curr->γ = params.Lipschitz.Lγ_factor / curr->L *)
  Definition g_zerofpr_gamma_of_L (Lgam L : T) : T := (Lgam / L).

  (* group zerofpr/linesearch_violated *)
  (* C++: if (params.force_linesearch) return false; real_t β = params.linesearch_strictness_factor; real_t σ = β * (1 - curr.γ * curr.L) / (2 * curr.γ); real_t φγ = curr.fbe(); real_t margin = (1 + std::abs(φγ)) * params.linesearch_tolerance_factor; return next.fbe() > φγ - σ * curr.pᵀp + margin; *)
  Definition g_zerofpr_ls_violated (force : bool) (beta tol : T) (c_psx c_hxh c_pp c_gam c_gp c_L n_psx n_hxh n_pp n_gam n_gp : T) : bool := (if force then false else (let l_beta := beta in (let l_sig := ((l_beta * (n1 - (c_gam * c_L))) / (n2 * c_gam)) in (let l_phigam := (g_zerofpr_fbe c_psx c_hxh c_pp c_gam c_gp) in (let l_margin := ((n1 + (nabs l_phigam)) * tol) in (((l_phigam - (l_sig * c_pp)) + l_margin) <? (g_zerofpr_fbe n_psx n_hxh n_pp n_gam n_gp))))))).

  (* group zerofpr/linesearch_sites *)
  (* C++: next->L < params.L_max && qub_violated( *next) *)
  Definition g_zerofpr_qub_guard_ls (L Lmax : T) (qv : bool) : bool := ((L <? Lmax) && qv).
  (* C++: next->γ /= 2 *)
  Definition g_zerofpr_halve_gamma_ls (gam : T) : T := (gam / n2).
  (* C++: next->L *= 2 *)
  Definition g_zerofpr_halve_L_ls (L : T) : T := (L * n2).
  (* C++: if (τ > 0) τ = τ_init; *)
  Definition g_zerofpr_tau_reset (tau tau_init : T) : T := (if (n0 <? tau) then tau_init else tau).
  (* C++: τ > 0 && linesearch_violated( *curr, *next) *)
  Definition g_zerofpr_ls_guard (tau : T) (lv : bool) : bool := ((n0 <? tau) && lv).
  (* C++: τ /= 2; if (τ < params.min_linesearch_coefficient) τ = 0; *)
  Definition g_zerofpr_tau_update (tau factor tau_min : T) : T := (let l_tau1 := (tau / n2) in (if (l_tau1 <? tau_min) then n0 else l_tau1)).

  (* group zerofpr/no_progress *)
  (* C++: if (no_progress > 0 || params.max_no_progress == 0 || k % params.max_no_progress == 0) no_progress = curr->x == next->x ? no_progress + 1 : 0; *)
  Definition g_zerofpr_np_update (np k mnp : nat) (x xn : list T) : nat := (if (((Nat.ltb 0%nat np) || (Nat.eqb mnp 0%nat)) || (Nat.eqb (Nat.modulo k mnp) 0%nat)) then (if (veqb x xn) then (Nat.add np 1%nat) else 0%nat) else np).

  (* group pantr/fbe *)
  (* C++: ψx + hx̂ + pᵀp / (2 * γ) + grad_ψᵀp *)
  Definition g_pantr_fbe (psx hxh pp gam gp : T) : T := (((psx + hxh) + (pp / (n2 * gam))) + gp).

  (* group pantr/qub_violated *)
  (* C++: real_t margin = (1 + std::abs(i.ψx)) * params.quadratic_upperbound_tolerance_factor; return i.ψx̂ > i.ψx + i.grad_ψᵀp + real_t(0.5) * i.L * i.pᵀp + margin; *)
  Definition g_pantr_qub_violated (psx psxh gp L pp tol : T) : bool := (let l_margin := ((n1 + (nabs psx)) * tol) in ((((psx + gp) + (((n1 / n2) * L) * pp)) + l_margin) <? psxh)).

  (* group pantr/qub_site_bt *)
  (* C++: i.L < params.L_max && qub_violated(i) *)
  Definition g_pantr_qub_guard_bt (L Lmax : T) (qv : bool) : bool := ((L <? Lmax) && qv).
  (* C++: i.γ /= 2 *)
  Definition g_pantr_halve_gamma_bt (gam : T) : T := (gam / n2).
  (* C++: i.L *= 2 *)
  Definition g_pantr_halve_L_bt (L : T) : T := (L * n2).

  (* group pantr/gamma_of_L *)
  (* C++: curr->γ = params.Lipschitz.Lγ_factor / curr->L *)
  Definition g_pantr_gamma_of_L (Lgam L : T) : T := (Lgam / L).

  (* group fista/fbe *)
  (* C++: ψx + hx̂ + pᵀp / (2 * γ) + grad_ψᵀp *)
  Definition g_fista_fbe (psx hxh pp gam gp : T) : T := (((psx + hxh) + (pp / (n2 * gam))) + gp).

  (* group fista/no_progress *)
  (* C++: if (no_progress > 0 || params.max_no_progress == 0 || k % params.max_no_progress == 0) no_progress = curr->x̂ == prev_x̂ ? no_progress + 1 : 0; *)
  Definition g_fista_np_update (np k mnp : nat) (x xn : list T) : nat := (if (((Nat.ltb 0%nat np) || (Nat.eqb mnp 0%nat)) || (Nat.eqb (Nat.modulo k mnp) 0%nat)) then (if (veqb x xn) then (Nat.add np 1%nat) else 0%nat) else np).

  (* group ocp/fbe *)
  (* C++: ψu + pᵀp / (2 * γ) + grad_ψᵀp *)
  Definition g_ocp_fbe (psx pp gam gp : T) : T := ((psx + (pp / (n2 * gam))) + gp).

  (* group ocp/qub_violated *)
  (* C++: real_t margin = (1 + std::abs(i.ψu)) * params.quadratic_upperbound_tolerance_factor; return i.ψû > i.ψu + i.grad_ψᵀp + real_t(0.5) * i.L * i.pᵀp + margin; *)
  Definition g_ocp_qub_violated (psx psxh gp L pp tol : T) : bool := (let l_margin := ((n1 + (nabs psx)) * tol) in ((((psx + gp) + (((n1 / n2) * L) * pp)) + l_margin) <? psxh)).

  (* group ocp/qub_site_init *)
  (* C++: curr->L < params.L_max && qub_violated( *curr) *)
  Definition g_ocp_qub_guard_init (L Lmax : T) (qv : bool) : bool := ((L <? Lmax) && qv).
  (* C++: curr->γ /= 2 *)
  Definition g_ocp_halve_gamma_init (gam : T) : T := (gam / n2).
  (* C++: curr->L *= 2 *)
  Definition g_ocp_halve_L_init (L : T) : T := (L * n2).

  (* group ocp/gamma_of_L *)
  (* C++: curr->γ = params.Lipschitz.Lγ_factor / curr->L *)
  Definition g_ocp_gamma_of_L (Lgam L : T) : T := (Lgam / L).

  (* group ocp/linesearch_violated *)
  (* C++: real_t β = params.linesearch_strictness_factor; real_t σ = β * (1 - curr.γ * curr.L) / (2 * curr.γ); real_t φγ = curr.fbe(); real_t margin = (1 + std::abs(φγ)) * params.linesearch_tolerance_factor; return next.fbe() > φγ - σ * curr.pᵀp + margin; *)
  Definition g_ocp_ls_violated (force : bool) (beta tol : T) (c_psx c_pp c_gam c_gp c_L n_psx n_pp n_gam n_gp : T) : bool := (let l_beta := beta in (let l_sig := ((l_beta * (n1 - (c_gam * c_L))) / (n2 * c_gam)) in (let l_phigam := (g_ocp_fbe c_psx c_pp c_gam c_gp) in (let l_margin := ((n1 + (nabs l_phigam)) * tol) in (((l_phigam - (l_sig * c_pp)) + l_margin) <? (g_ocp_fbe n_psx n_pp n_gam n_gp)))))).

  (* group ocp/linesearch_sites *)
  (* C++: next->L < params.L_max && qub_violated( *next) *)
  Definition g_ocp_qub_guard_ls (L Lmax : T) (qv : bool) : bool := ((L <? Lmax) && qv).
  (* C++: next->γ /= 2 *)
  Definition g_ocp_halve_gamma_ls (gam : T) : T := (gam / n2).
  (* C++: next->L *= 2 *)
  Definition g_ocp_halve_L_ls (L : T) : T := (L * n2).
  (* C++: if (τ > 0) τ = τ_init; *)
  Definition g_ocp_tau_reset (tau tau_init : T) : T := (if (n0 <? tau) then tau_init else tau).
  (* C++: τ > 0 && linesearch_violated( *curr, *next) *)
  Definition g_ocp_ls_guard (tau : T) (lv : bool) : bool := ((n0 <? tau) && lv).
  (* C++: τ /= 2; if (τ < params.min_linesearch_coefficient) τ = 0; *)
  Definition g_ocp_tau_update (tau factor tau_min : T) : T := (let l_tau1 := (tau / n2) in (if (l_tau1 <? tau_min) then n0 else l_tau1)).

  (* group ocp/no_progress *)
  (* C++: if (no_progress > 0 || params.max_no_progress == 0 || k % params.max_no_progress == 0) no_progress = curr->xu == next->xu ? no_progress + 1 : 0; *)
  Definition g_ocp_np_update (np k mnp : nat) (x xn : list T) : nat := (if (((Nat.ltb 0%nat np) || (Nat.eqb mnp 0%nat)) || (Nat.eqb (Nat.modulo k mnp) 0%nat)) then (if (veqb x xn) then (Nat.add np 1%nat) else 0%nat) else np).

  (* group pantr/compute_candidate_ratio *)
  (* C++: real_t ϕγ = prox->fbe(); real_t ϕγ_next = cand->fbe(); real_t margin = (1 + std::abs(ϕγ)) * params.TR_tolerance_factor; real_t ρ = (ϕγ - ϕγ_next + margin) / (-q_model); return params.ratio_approx_fbe_quadratic_model ? ρ / (1 - params.Lipschitz.Lγ_factor) : ρ; *)
  Definition g_pantr_ratio (approx : bool) (p_psx p_hxh p_pp p_gam p_gp c_psx c_hxh c_pp c_gam c_gp q_model tol Lgam : T) : T := (let l_phigam := (g_pantr_fbe p_psx p_hxh p_pp p_gam p_gp) in (let l_phigam_next := (g_pantr_fbe c_psx c_hxh c_pp c_gam c_gp) in (let l_margin := ((n1 + (nabs l_phigam)) * tol) in (let l_rho := (((l_phigam - l_phigam_next) + l_margin) / (- q_model)) in (if approx then (l_rho / (n1 - Lgam)) else l_rho))))).

  (* group pantr/compute_updated_radius *)
  (* C++: if (ρ >= params.ratio_threshold_good) return std::max(params.radius_factor_good * q.norm(), old_Δ); else if (ρ >= params.ratio_threshold_acceptable) return old_Δ * params.radius_factor_acceptable; else return params.radius_factor_rejected * q.norm(); *)
  Definition g_pantr_updated_radius (q : list T) (rho old thr_good thr_acc rf_good rf_acc rf_rej : T) : T := (if (thr_good <=? rho) then (cmax (rf_good * (vnorm2 q)) old) else (if (thr_acc <=? rho) then (old * rf_acc) else (rf_rej * (vnorm2 q)))).
  (* C++: Δ = std::fmax(compute_updated_radius(q, ρ, Δ), params.min_radius) *)
  Definition g_pantr_radius_clip (r min_radius : T) : T := (nfmax r min_radius).
  (* C++: accept_candidate = ρ >= params.ratio_threshold_acceptable *)
  Definition g_pantr_accept (rho thr_acc : T) : bool := (thr_acc <=? rho).

  (* group ocp/calc_error_stop_crit *)
  (* C++: return norm_inf ( pₖ ) ; *)
  Definition g_ocp_crit_ProjGradNorm (Ulb Uub : list (option T)) (N : nat) (gam : T) (u g p : list T) (pp : T) : T := (vnorminf p).
  (* C++: return std::sqrt ( pₖᵀpₖ ) ; *)
  Definition g_ocp_crit_ProjGradNorm2 (Ulb Uub : list (option T)) (N : nat) (gam : T) (u g p : list T) (pp : T) : T := (nsqrt pp).
  (* C++: eval_prox_impl ( 1 , xuₖ , grad_ψₖ , work_xu , work_p ) ; return norm_inf ( work_p ) ; *)
  Definition g_ocp_crit_ProjGradUnitNorm (Ulb Uub : list (option T)) (N : nat) (gam : T) (u g p : list T) (pp : T) : T := (let l_step1 := ocp_prox Ulb Uub N n1 u g in (vnorminf (snd (fst (fst l_step1))))).
  (* C++: auto [ pTp , gTp ] = eval_prox_impl ( 1 , xuₖ , grad_ψₖ , work_xu , work_p ) ; return std::sqrt ( pTp ) ; *)
  Definition g_ocp_crit_ProjGradUnitNorm2 (Ulb Uub : list (option T)) (N : nat) (gam : T) (u g p : list T) (pp : T) : T := (let l_step1 := ocp_prox Ulb Uub N n1 u g in (nsqrt (snd (fst l_step1)))).
  (* C++: return norm_inf ( pₖ ) / γ ; *)
  Definition g_ocp_crit_FPRNorm (Ulb Uub : list (option T)) (N : nat) (gam : T) (u g p : list T) (pp : T) : T := ((vnorminf p) / gam).
  (* C++: return std::sqrt ( pₖᵀpₖ ) / γ ; *)
  Definition g_ocp_crit_FPRNorm2 (Ulb Uub : list (option T)) (N : nat) (gam : T) (u g p : list T) (pp : T) : T := ((nsqrt pp) / gam).
  (* C++: switch (params.stop_crit) of the local calc_error_stop_crit *)
  Definition g_ocp_crit (c : stopcrit) (Ulb Uub : list (option T)) (N : nat) (gam : T) (u g p : list T) (pp : T): option T := match c with | ApproxKKT => None | ApproxKKT2 => None | ProjGradNorm => Some (g_ocp_crit_ProjGradNorm Ulb Uub N gam u g p pp) | ProjGradNorm2 => Some (g_ocp_crit_ProjGradNorm2 Ulb Uub N gam u g p pp) | ProjGradUnitNorm => Some (g_ocp_crit_ProjGradUnitNorm Ulb Uub N gam u g p pp) | ProjGradUnitNorm2 => Some (g_ocp_crit_ProjGradUnitNorm2 Ulb Uub N gam u g p pp) | FPRNorm => Some (g_ocp_crit_FPRNorm Ulb Uub N gam u g p pp) | FPRNorm2 => Some (g_ocp_crit_FPRNorm2 Ulb Uub N gam u g p pp) | Ipopt => None | LBFGSBpp => None end.

End KernelsGen.
