(* SteihaugGen.ref.v — reference text of the translator (the translation of the source tree the framework was built against).
   Used unit by unit ONLY when the current source leaves the translator's grammar. *)
From Coq Require Import ZArith List Bool Arith.
From Alpaqa Require Import Num Vec SteihaugGenLib.
Import ListNotations.
Local Open Scope num_scope.

(* every definition takes the same context: the number system, hess_prod as B, the parameters, max_iter as an integer *)

(* unit get_boundaries_intersections *)
(* get_boundaries_intersections — the function *)
Definition g_bnd {T : Type} {HN : Num T} (B : list T -> list T) (tol_scale tol_scale_root tol_max : T) (max_iter : Z) (z : list T) (d : list T) (trust_radius : T) : (T * T)%type :=
  let l_a_1 := (vsqnorm d) in
  let l_b_2 := (n2 * (vdot z d)) in
  let l_c_3 := ((vsqnorm z) - (trust_radius * trust_radius)) in
  let l_sqrt_discriminant_4 := (nsqrt ((l_b_2 * l_b_2) - (((nofZ 4%Z) * l_a_1) * l_c_3))) in
  let l_aux_5 := (l_b_2 + (gcopysign l_sqrt_discriminant_4 l_b_2)) in
  let l_ta_6 := ((- l_aux_5) / (n2 * l_a_1)) in
  let l_tb_7 := (((- n2) * l_c_3) / l_aux_5) in
  ((nfmin l_ta_6 l_tb_7), (nfmax l_ta_6 l_tb_7)).

(* unit tolerance *)
(* real_t tolerance = std::fmin(params.tol_max, params.tol_scale * grad_mag * std::fmin(params.tol_scale_root, std::sqrt(grad_mag))) *)
Definition g_tolerance {T : Type} {HN : Num T} (B : list T -> list T) (tol_scale tol_scale_root tol_max : T) (max_iter : Z) (grad_mag : T) : T :=
  (nfmin tol_max ((tol_scale * grad_mag) * (nfmin tol_scale_root (nsqrt grad_mag)))).

(* unit solve *)
(* lambda eval *)
Definition g_solve_eval {T : Type} {HN : Num T} (B : list T -> list T) (tol_scale tol_scale_root tol_max : T) (max_iter : Z) (grad : list T) (a_p : list T) : T :=
  let l_work_eval_17 := (B a_p) in
  ((vdot a_p grad) + ((n1 / n2) * (vdot a_p l_work_eval_17))).
(* body of the while (true) loop: inl = return, inr = next state *)
Definition g_solve_while_step {T : Type} {HN : Num T} (B : list T -> list T) (tol_scale tol_scale_root tol_max : T) (max_iter : Z) (grad : list T) (trust_radius : T) (l_tolerance_8 : T) (l_max_iter_10 : Z) (s_m_z_in : list T) (s_m_r_in : list T) (s_m_d_in : list T) (s_m_Bd_in : list T) (s_step_in : list T) (s_r_sq_in : T) (s_i_in : Z) : ((T * list T) + (list T * list T * list T * list T * list T * T * Z)%type)%type :=
  let l_Bd_11 := (B s_m_d_in) in
  let l_dBd_12 := (vdot s_m_d_in l_Bd_11) in
  if (l_dBd_12 <=? n0) then
  let '(l_ta_13, l_tb_14) := (g_bnd B tol_scale tol_scale_root tol_max max_iter s_m_z_in s_m_d_in trust_radius) in
  let l_pa_15 := (vadd s_m_z_in (vscale l_ta_13 s_m_d_in)) in
  let l_pb_16 := (vadd s_m_z_in (vscale l_tb_14 s_m_d_in)) in
  let l_q_a_18 := (g_solve_eval B tol_scale tol_scale_root tol_max max_iter grad l_pa_15) in
  let l_q_b_19 := (g_solve_eval B tol_scale tol_scale_root tol_max max_iter grad l_pb_16) in
  let l_q_min_20 := (nfmin l_q_a_18 l_q_b_19) in
  if (l_q_a_18 =? l_q_min_20) then
  let l_s_21 := l_pa_15 in
  (inl (l_q_a_18, l_s_21))
  else
  let l_s_22 := l_pb_16 in
  (inl (l_q_b_19, l_s_22))
  else
  let l_alpha_23 := (s_r_sq_in / l_dBd_12) in
  if (negb (nfinite l_alpha_23)) then
  let l_s_24 := (map (fun _ => gnan) s_step_in) in
  (inl (gnan, l_s_24))
  else
  let l_s_25 := (vadd s_m_z_in (vscale l_alpha_23 s_m_d_in)) in
  if (trust_radius <=? (vnorm2 l_s_25)) then
  let '(l_ta_26, l_tb_27) := (g_bnd B tol_scale tol_scale_root tol_max max_iter s_m_z_in s_m_d_in trust_radius) in
  let l_s_28 := (vadd s_m_z_in (vscale l_tb_27 s_m_d_in)) in
  (inl ((g_solve_eval B tol_scale tol_scale_root tol_max max_iter grad l_s_28), l_s_28))
  else
  let l_r_29 := (vadd s_m_r_in (vscale l_alpha_23 l_Bd_11)) in
  let l_r_next_sq_30 := (vsqnorm l_r_29) in
  let l_r_next_31 := (nsqrt l_r_next_sq_30) in
  if (((l_r_next_31 <? l_tolerance_8) || (l_r_next_31 =? n0)) || (Z.ltb l_max_iter_10 s_i_in)) then
  (inl ((g_solve_eval B tol_scale tol_scale_root tol_max max_iter grad l_s_25), l_s_25))
  else
  let l_beta_next_32 := (l_r_next_sq_30 / s_r_sq_in) in
  let l_r_sq_33 := l_r_next_sq_30 in
  let l_d_34 := (vsub (vscale l_beta_next_32 s_m_d_in) l_r_29) in
  let l_z_35 := l_s_25 in
  let l_i_36 := (Z.succ s_i_in) in
  (inr (l_z_35, l_r_29, l_d_34, l_Bd_11, l_s_25, l_r_sq_33, l_i_36)).
(* SteihaugCG::solve — the function: (returned value, step); None = the while (true) loop ran out of fuel *)
Definition g_solve {T : Type} {HN : Num T} (B : list T -> list T) (tol_scale tol_scale_root tol_max : T) (max_iter : Z) (fuel : nat) (z0 r0 d0 Bd0 we0 : list T) (grad : list T) (trust_radius : T) (step : list T) : option (T * list T) :=
  let l_n_1 := (length grad) in
  let l_z_2 := (map (fun _ => n0) z0) in
  let l_r_3 := grad in
  let l_d_4 := (vneg l_r_3) in
  let l_r_sq_5 := (vsqnorm l_r_3) in
  let l_grad_mag_6 := (vnorm2 grad) in
  if (l_r_sq_5 =? n0) then
  let l_s_7 := (map (fun _ => n0) step) in
  (Some (n0, l_s_7))
  else
  let l_tolerance_8 := (nfmin tol_max ((tol_scale * l_grad_mag_6) * (nfmin tol_scale_root (nsqrt l_grad_mag_6)))) in
  let l_i_9 := 0%Z in
  let l_max_iter_10 := max_iter in
  while_fuel fuel (fun '(s_m_z_in, s_m_r_in, s_m_d_in, s_m_Bd_in, s_step_in, s_r_sq_in, s_i_in) => g_solve_while_step B tol_scale tol_scale_root tol_max max_iter grad trust_radius l_tolerance_8 l_max_iter_10 s_m_z_in s_m_r_in s_m_d_in s_m_Bd_in s_step_in s_r_sq_in s_i_in) (l_z_2, l_r_3, l_d_4, Bd0, step, l_r_sq_5, l_i_9).

(* end of SteihaugGen *)
