(* LmqrGen.ref.v — reference text of the translator (the translation of the source tree the framework was built against).
   Used unit by unit ONLY when the current source leaves the translator's grammar. *)
From Coq Require Import ZArith List Bool Arith.
From Alpaqa Require Import Num Vec LmqrGenLib.
Import ListNotations.
Local Open Scope num_scope.

(* every definition takes the same context: the number system, the matrix store O, the fuels of the two kinds of while loops *)

(* unit ci_eq *)
(* CircularIndices operator== (iterators compare their indices) *)
Definition g_ci_eq {T : Type} {HN : Num T} {St : Type} (O : qr_ops T St) (fuelS fuelN : nat) (a b : nat * nat * nat) : bool :=
  let '(a_zb, a_c, a_max) := a in
  let '(b_zb, b_c, b_max) := b in
  (Nat.eqb a_zb b_zb).

(* unit cit_incr *)
(* CircularIndexIterator::operator++ *)
Definition g_cit_incr {T : Type} {HN : Num T} {St : Type} (O : qr_ops T St) (fuelS fuelN : nat) (it : nat * nat * nat) : (nat * nat * nat)%type :=
  let '(i_zb, i_c, i_max) := it in
  let l_iu002ezerobased_1 := (S i_zb) in
  let l_iu002ecircular_2 := (if (Nat.eqb (S i_c) i_max) then 0%nat else (S i_c)) in
  (l_iu002ezerobased_1, l_iu002ecircular_2, i_max).

(* unit cit_decr *)
(* CircularIndexIterator::operator-- *)
Definition g_cit_decr {T : Type} {HN : Num T} {St : Type} (O : qr_ops T St) (fuelS fuelN : nat) (it : nat * nat * nat) : (nat * nat * nat)%type :=
  let '(i_zb, i_c, i_max) := it in
  let l_iu002ezerobased_1 := (Nat.pred i_zb) in
  let l_iu002ecircular_2 := (if (Nat.eqb i_c 0%nat) then (Nat.pred i_max) else (Nat.pred i_c)) in
  (l_iu002ezerobased_1, l_iu002ecircular_2, i_max).
(* ReverseCircularIndexIterator::operator* : *(--copy of forwardit) *)
Definition g_rit_deref {T : Type} {HN : Num T} {St : Type} (O : qr_ops T St) (fuelS fuelN : nat) (it : nat * nat * nat) : (nat * nat * nat)%type :=
  (g_cit_decr O fuelS fuelN it).
(* ReverseCircularIndexIterator::operator++ : --forwardit *)
Definition g_rit_incr {T : Type} {HN : Num T} {St : Type} (O : qr_ops T St) (fuelS fuelN : nat) (it : nat * nat * nat) : (nat * nat * nat)%type :=
  (g_cit_decr O fuelS fuelN it).

(* unit range *)
(* CircularRange::begin *)
Definition g_range_begin {T : Type} {HN : Num T} {St : Type} (O : qr_ops T St) (fuelS fuelN : nat) (rg : nat * nat * nat * nat) : (nat * nat * nat)%type :=
  let '(r_size, r_idx1, r_idx2, r_max) := rg in
  (0%nat, r_idx1, r_max).
(* CircularRange::end *)
Definition g_range_end {T : Type} {HN : Num T} {St : Type} (O : qr_ops T St) (fuelS fuelN : nat) (rg : nat * nat * nat * nat) : (nat * nat * nat)%type :=
  let '(r_size, r_idx1, r_idx2, r_max) := rg in
  (r_size, r_idx2, r_max).
(* ReverseCircularRange::begin = reverse_iterator{forward end()} *)
Definition g_rrange_begin {T : Type} {HN : Num T} {St : Type} (O : qr_ops T St) (fuelS fuelN : nat) (rg : nat * nat * nat * nat) : (nat * nat * nat)%type :=
  (g_range_end O fuelS fuelN rg).
(* ReverseCircularRange::end = reverse_iterator{forward begin()} *)
Definition g_rrange_end {T : Type} {HN : Num T} {St : Type} (O : qr_ops T St) (fuelS fuelN : nat) (rg : nat * nat * nat * nat) : (nat * nat * nat)%type :=
  (g_range_begin O fuelS fuelN rg).

(* unit n *)
(* LimitedMemoryQR::n *)
Definition g_n {T : Type} {HN : Num T} {St : Type} (O : qr_ops T St) (fuelS fuelN : nat) (st : St) : nat :=
  (qo_rows O st).

(* unit m *)
(* LimitedMemoryQR::m *)
Definition g_m {T : Type} {HN : Num T} {St : Type} (O : qr_ops T St) (fuelS fuelN : nat) (st : St) : nat :=
  (qo_cols O st).

(* unit r_succ *)
(* LimitedMemoryQR::r_succ *)
Definition g_r_succ {T : Type} {HN : Num T} {St : Type} (O : qr_ops T St) (fuelS fuelN : nat) (st : St) (i : nat) : nat :=
  (if (Nat.ltb (S i) (g_m O fuelS fuelN st)) then (S i) else 0%nat).

(* unit r_pred *)
(* LimitedMemoryQR::r_pred *)
Definition g_r_pred {T : Type} {HN : Num T} {St : Type} (O : qr_ops T St) (fuelS fuelN : nat) (st : St) (i : nat) : nat :=
  (if (Nat.eqb i 0%nat) then (Nat.pred (g_m O fuelS fuelN st)) else (Nat.pred i)).

(* unit num_columns *)
(* LimitedMemoryQR::num_columns *)
Definition g_num_columns {T : Type} {HN : Num T} {St : Type} (O : qr_ops T St) (fuelS fuelN : nat) (st : St) : nat :=
  (qo_q_idx O st).

(* unit ring_head *)
(* LimitedMemoryQR::ring_head *)
Definition g_ring_head {T : Type} {HN : Num T} {St : Type} (O : qr_ops T St) (fuelS fuelN : nat) (st : St) : nat :=
  (qo_r_idx_start O st).

(* unit ring_tail *)
(* LimitedMemoryQR::ring_tail *)
Definition g_ring_tail {T : Type} {HN : Num T} {St : Type} (O : qr_ops T St) (fuelS fuelN : nat) (st : St) : nat :=
  (qo_r_idx_end O st).

(* unit ring_next *)
(* LimitedMemoryQR::ring_next *)
Definition g_ring_next {T : Type} {HN : Num T} {St : Type} (O : qr_ops T St) (fuelS fuelN : nat) (st : St) (i : nat) : nat :=
  (g_r_succ O fuelS fuelN st i).

(* unit ring_prev *)
(* LimitedMemoryQR::ring_prev *)
Definition g_ring_prev {T : Type} {HN : Num T} {St : Type} (O : qr_ops T St) (fuelS fuelN : nat) (st : St) (i : nat) : nat :=
  (g_r_pred O fuelS fuelN st i).

(* unit current_history *)
(* LimitedMemoryQR::current_history *)
Definition g_current_history {T : Type} {HN : Num T} {St : Type} (O : qr_ops T St) (fuelS fuelN : nat) (st : St) : nat :=
  (qo_q_idx O st).

(* unit get_min_eig *)
(* LimitedMemoryQR::get_min_eig *)
Definition g_get_min_eig {T : Type} {HN : Num T} {St : Type} (O : qr_ops T St) (fuelS fuelN : nat) (st : St) : option T :=
  (qo_min_eig O st).

(* unit get_max_eig *)
(* LimitedMemoryQR::get_max_eig *)
Definition g_get_max_eig {T : Type} {HN : Num T} {St : Type} (O : qr_ops T St) (fuelS fuelN : nat) (st : St) : option T :=
  (qo_max_eig O st).

(* unit ring_iter *)
(* LimitedMemoryQR::ring_iter *)
Definition g_ring_iter {T : Type} {HN : Num T} {St : Type} (O : qr_ops T St) (fuelS fuelN : nat) (st : St) : (nat * nat * nat * nat)%type :=
  ((qo_q_idx O st), (qo_r_idx_start O st), (qo_r_idx_end O st), (g_m O fuelS fuelN st)).

(* unit reset *)
(* LimitedMemoryQR::reset *)
Definition g_reset {T : Type} {HN : Num T} {St : Type} (O : qr_ops T St) (fuelS fuelN : nat) (st : St) : St :=
  let st_1 := (qo_set_q_idx O st 0%nat) in
  let st_2 := (qo_set_r_idx_start O st_1 0%nat) in
  let st_3 := (qo_set_r_idx_end O st_2 0%nat) in
  let st_4 := (qo_set_reorth_count O st_3 0%nat) in
  let st_5 := (qo_set_min_eig O st_4 None) in
  let st_6 := (qo_set_max_eig O st_5 None) in
  st_6.

(* unit resize *)
(* LimitedMemoryQR::resize *)
Definition g_resize {T : Type} {HN : Num T} {St : Type} (O : qr_ops T St) (fuelS fuelN : nat) (st : St) (n : nat) (m : nat) : St :=
  let st_1 := (qo_resize_Q O st n m) in
  let st_2 := (qo_resize_R O st_1 m m) in
  let st_3 := (g_reset O fuelS fuelN st_2) in
  st_3.

(* unit add_column *)
(* body of the for loop *)
Definition g_add_column_for1_step {T : Type} {HN : Num T} {St : Type} (O : qr_ops T St) (fuelS fuelN : nat) (l_q_1 : nat) (l_r_2 : nat) (st_in : St) (i_i : nat) : St :=
  let l_s_4 := (vdot (qo_Qcol O st_in i_i) (qo_Qcol O st_in l_q_1)) in
  let st_5 := (qset_R O st_in i_i l_r_2 l_s_4) in
  let st_6 := (qo_set_Qcol O st_5 l_q_1 (vsub (qo_Qcol O st_5 l_q_1) (vscale l_s_4 (qo_Qcol O st_5 i_i)))) in
  st_6.
(* body of the for loop *)
Definition g_add_column_for2_step {T : Type} {HN : Num T} {St : Type} (O : qr_ops T St) (fuelS fuelN : nat) (l_q_1 : nat) (l_r_2 : nat) (st_in : St) (i_i : nat) : St :=
  let l_s_12 := (vdot (qo_Qcol O st_in i_i) (qo_Qcol O st_in l_q_1)) in
  let st_13 := (qset_R O st_in i_i l_r_2 ((qR O st_in i_i l_r_2) + l_s_12)) in
  let st_14 := (qo_set_Qcol O st_13 l_q_1 (vsub (qo_Qcol O st_13 l_q_1) (vscale l_s_12 (qo_Qcol O st_13 i_i)))) in
  st_14.
(* condition of the while loop *)
Definition g_add_column_while1_cond {T : Type} {HN : Num T} {St : Type} (O : qr_ops T St) (fuelS fuelN : nat) (l_q_1 : nat) (l_r_2 : nat) (l_eta_10 : T) (st_in : St) (s_norm_q_in : T) (s_norm_v_in : T) : bool :=
  (s_norm_q_in <? (l_eta_10 * s_norm_v_in)).
(* body of the while loop *)
Definition g_add_column_while1_step {T : Type} {HN : Num T} {St : Type} (O : qr_ops T St) (fuelS fuelN : nat) (l_q_1 : nat) (l_r_2 : nat) (l_eta_10 : T) (st_in : St) (s_norm_q_in : T) (s_norm_v_in : T) : (St * T * T)%type :=
  let st_11 := (qo_set_reorth_count O st_in (S (qo_reorth_count O st_in))) in
  let st_15 := fold_left (g_add_column_for2_step O fuelS fuelN l_q_1 l_r_2) (seq 0 (qo_q_idx O st_11)) st_11 in
  let l_norm_v_16 := s_norm_q_in in
  let l_norm_q_17 := (vnorm2 (qo_Qcol O st_15 l_q_1)) in
  (st_15, l_norm_q_17, l_norm_v_16).
(* LimitedMemoryQR::add_column *)
Definition g_add_column {T : Type} {HN : Num T} {St : Type} (O : qr_ops T St) (fuelS fuelN : nat) (st : St) (v : list T) : St :=
  let l_q_1 := (qo_q_idx O st) in
  let l_r_2 := (qo_r_idx_end O st) in
  let st_3 := (qo_set_Qcol O st l_q_1 v) in
  let st_7 := fold_left (g_add_column_for1_step O fuelS fuelN l_q_1 l_r_2) (seq 0 (qo_q_idx O st_3)) st_3 in
  let l_norm_q_8 := (vnorm2 (qo_Qcol O st_7 l_q_1)) in
  let l_norm_v_9 := (vnorm2 v) in
  let l_eta_10 := ((nofZ 7%Z) / (nofZ 10%Z)) in
  let '(st_18, l_norm_q_19, l_norm_v_20) := while_c fuelS (fun '(st_in, s_norm_q_in, s_norm_v_in) => g_add_column_while1_cond O fuelS fuelN l_q_1 l_r_2 l_eta_10 st_in s_norm_q_in s_norm_v_in) (fun '(st_in, s_norm_q_in, s_norm_v_in) => g_add_column_while1_step O fuelS fuelN l_q_1 l_r_2 l_eta_10 st_in s_norm_q_in s_norm_v_in) (st_7, l_norm_q_8, l_norm_v_9) in
  let st_21 := (qset_R O st_18 (qo_q_idx O st_18) l_r_2 l_norm_q_19) in
  let st_22 := (qo_set_Qcol O st_21 l_q_1 (map (fun x_ => x_ / l_norm_q_19) (qo_Qcol O st_21 l_q_1))) in
  let st_23 := (qo_set_min_eig O st_22 (xmin_pinf (qo_min_eig O st_22) l_norm_q_19)) in
  let st_24 := (qo_set_max_eig O st_23 (xmax_ninf (qo_max_eig O st_23) l_norm_q_19)) in
  let st_25 := (qo_set_q_idx O st_24 (S (qo_q_idx O st_24))) in
  let st_26 := (qo_set_r_idx_end O st_25 (g_r_succ O fuelS fuelN st_25 (qo_r_idx_end O st_25))) in
  st_26.

(* unit remove_column *)
(* condition of the forc loop *)
Definition g_remove_column_forc1_cond {T : Type} {HN : Num T} {St : Type} (O : qr_ops T St) (fuelS fuelN : nat) (l_G_7 : (T * T)%type) (s_r_in : nat) (st_in : St) (s_cc_in : nat) : bool :=
  (negb (Nat.eqb s_cc_in (qo_r_idx_end O st_in))).
(* body of the forc loop (followed by its increment) *)
Definition g_remove_column_forc1_step {T : Type} {HN : Num T} {St : Type} (O : qr_ops T St) (fuelS fuelN : nat) (l_G_7 : (T * T)%type) (s_r_in : nat) (st_in : St) (s_cc_in : nat) : (St * nat)%type :=
  let st_10 := (qo_set_Rcol O st_in s_cc_in (jr_apply_rows (jr_adjoint l_G_7) s_r_in (S s_r_in) (qo_Rcol O st_in s_cc_in))) in
  let l_cc_11 := (g_r_succ O fuelS fuelN st_10 s_cc_in) in
  (st_10, l_cc_11).
(* condition of the while loop *)
Definition g_remove_column_while1_cond {T : Type} {HN : Num T} {St : Type} (O : qr_ops T St) (fuelS fuelN : nat) (st_in : St) (s_G_in : (T * T)%type) (s_r_in : nat) (s_c_in : nat) : bool :=
  (Nat.ltb s_r_in (Nat.pred (qo_q_idx O st_in))).
(* body of the while loop *)
Definition g_remove_column_while1_step {T : Type} {HN : Num T} {St : Type} (O : qr_ops T St) (fuelS fuelN : nat) (st_in : St) (s_G_in : (T * T)%type) (s_r_in : nat) (s_c_in : nat) : (St * (T * T)%type * nat * nat)%type :=
  let '(l_c_4, l_s_5, l_r_6) := jr_make_givens (qR O st_in s_r_in s_c_in) (qR O st_in (S s_r_in) s_c_in) in
  let l_G_7 := (l_c_4, l_s_5) in
  let st_8 := (qset_R O st_in s_r_in s_c_in l_r_6) in
  let l_cc_9 := (g_r_succ O fuelS fuelN st_8 s_c_in) in
  let '(st_12, l_cc_13) := while_c fuelN (fun '(st_in, s_cc_in) => g_remove_column_forc1_cond O fuelS fuelN l_G_7 s_r_in st_in s_cc_in) (fun '(st_in, s_cc_in) => g_remove_column_forc1_step O fuelS fuelN l_G_7 s_r_in st_in s_cc_in) (st_8, l_cc_9) in
  let st_14 := (jr_apply_cols O st_12 s_r_in (S s_r_in) l_G_7) in
  let st_15 := (qo_set_min_eig O st_14 (xmin_pinf (qo_min_eig O st_14) (qR O st_14 s_r_in s_c_in))) in
  let st_16 := (qo_set_max_eig O st_15 (xmax_ninf (qo_max_eig O st_15) (qR O st_15 s_r_in s_c_in))) in
  let l_r_17 := (S s_r_in) in
  let l_c_18 := (g_r_succ O fuelS fuelN st_16 s_c_in) in
  (st_16, l_G_7, l_r_17, l_c_18).
(* LimitedMemoryQR::remove_column *)
Definition g_remove_column {T : Type} {HN : Num T} {St : Type} (O : qr_ops T St) (fuelS fuelN : nat) (st : St) : St :=
  let l_G_1 := (n1, n0) in
  let l_r_2 := 0%nat in
  let l_c_3 := (g_r_succ O fuelS fuelN st (qo_r_idx_start O st)) in
  let '(st_19, l_G_20, l_r_21, l_c_22) := while_c fuelN (fun '(st_in, s_G_in, s_r_in, s_c_in) => g_remove_column_while1_cond O fuelS fuelN st_in s_G_in s_r_in s_c_in) (fun '(st_in, s_G_in, s_r_in, s_c_in) => g_remove_column_while1_step O fuelS fuelN st_in s_G_in s_r_in s_c_in) (st, l_G_1, l_r_2, l_c_3) in
  let st_23 := (qo_set_q_idx O st_19 (Nat.pred (qo_q_idx O st_19))) in
  let st_24 := (qo_set_r_idx_start O st_23 (g_r_succ O fuelS fuelN st_23 (qo_r_idx_start O st_23))) in
  st_24.

(* unit solve_col *)
(* condition of the forc loop *)
Definition g_solve_col_forc1_cond {T : Type} {HN : Num T} {St : Type} (O : qr_ops T St) (fuelS fuelN : nat) (st : St) (l_fwd_end_3 : (nat * nat * nat)%type) (l_rR_5 : nat) (s_x_in : list T) (s_it_c_in : (nat * nat * nat)%type) : bool :=
  (negb (g_ci_eq O fuelS fuelN s_it_c_in l_fwd_end_3)).
(* body of the forc loop (followed by its increment) *)
Definition g_solve_col_forc1_step {T : Type} {HN : Num T} {St : Type} (O : qr_ops T St) (fuelS fuelN : nat) (st : St) (l_fwd_end_3 : (nat * nat * nat)%type) (l_rR_5 : nat) (s_x_in : list T) (s_it_c_in : (nat * nat * nat)%type) : (list T * (nat * nat * nat)%type)%type :=
  let '(l_rX2_11, l_cR2_12) := (ci_idx s_it_c_in) in
  let l_x_13 := (vupd s_x_in l_rR_5 ((nth l_rR_5 s_x_in n0) - ((qR O st l_rR_5 l_cR2_12) * (nth l_rX2_11 s_x_in n0)))) in
  let l_it_c_14 := (g_cit_incr O fuelS fuelN s_it_c_in) in
  (l_x_13, l_it_c_14).
(* condition of the forc loop *)
Definition g_solve_col_forc2_cond {T : Type} {HN : Num T} {St : Type} (O : qr_ops T St) (fuelS fuelN : nat) (st : St) (b : list T) (tol : T) (l_rev_end_2 : (nat * nat * nat)%type) (l_fwd_end_3 : (nat * nat * nat)%type) (s_x_in : list T) (s_it_d_in : (nat * nat * nat)%type) : bool :=
  (negb (g_ci_eq O fuelS fuelN s_it_d_in l_rev_end_2)).
(* body of the forc loop (followed by its increment) *)
Definition g_solve_col_forc2_step {T : Type} {HN : Num T} {St : Type} (O : qr_ops T St) (fuelS fuelN : nat) (st : St) (b : list T) (tol : T) (l_rev_end_2 : (nat * nat * nat)%type) (l_fwd_end_3 : (nat * nat * nat)%type) (s_x_in : list T) (s_it_d_in : (nat * nat * nat)%type) : (list T * (nat * nat * nat)%type)%type :=
  let '(l_rR_5, l_cR_6) := (ci_idx (g_rit_deref O fuelS fuelN s_it_d_in)) in
  if ((nabs (qR O st l_rR_5 l_cR_6)) <? tol) then
  let l_x_7 := (vupd s_x_in l_rR_5 n0) in
  let l_it_d_8 := (g_rit_incr O fuelS fuelN s_it_d_in) in
  (l_x_7, l_it_d_8)
  else
  let l_x_9 := (vupd s_x_in l_rR_5 (vdot (qo_Qcol O st l_rR_5) b)) in
  let l_it_c_10 := s_it_d_in in
  let '(l_x_15, l_it_c_16) := while_c fuelN (fun '(s_x_in, s_it_c_in) => g_solve_col_forc1_cond O fuelS fuelN st l_fwd_end_3 l_rR_5 s_x_in s_it_c_in) (fun '(s_x_in, s_it_c_in) => g_solve_col_forc1_step O fuelS fuelN st l_fwd_end_3 l_rR_5 s_x_in s_it_c_in) (l_x_9, l_it_c_10) in
  let l_x_17 := (vupd l_x_15 l_rR_5 ((nth l_rR_5 l_x_15 n0) / (qR O st l_rR_5 l_cR_6))) in
  let l_it_d_18 := (g_rit_incr O fuelS fuelN s_it_d_in) in
  (l_x_17, l_it_d_18).
(* LimitedMemoryQR::solve_col *)
Definition g_solve_col {T : Type} {HN : Num T} {St : Type} (O : qr_ops T St) (fuelS fuelN : nat) (st : St) (b : list T) (x : list T) (tol : T) : list T :=
  let l_rev_bgn_1 := (g_rrange_begin O fuelS fuelN (g_ring_iter O fuelS fuelN st)) in
  let l_rev_end_2 := (g_rrange_end O fuelS fuelN (g_ring_iter O fuelS fuelN st)) in
  let l_fwd_end_3 := (g_range_end O fuelS fuelN (g_ring_iter O fuelS fuelN st)) in
  let l_it_d_4 := l_rev_bgn_1 in
  let '(l_x_19, l_it_d_20) := while_c fuelN (fun '(s_x_in, s_it_d_in) => g_solve_col_forc2_cond O fuelS fuelN st b tol l_rev_end_2 l_fwd_end_3 s_x_in s_it_d_in) (fun '(s_x_in, s_it_d_in) => g_solve_col_forc2_step O fuelS fuelN st b tol l_rev_end_2 l_fwd_end_3 s_x_in s_it_d_in) (x, l_it_d_4) in
  l_x_19.

(* unit scale_R *)
(* condition of the forc loop *)
Definition g_scale_R_forc1_cond {T : Type} {HN : Num T} {St : Type} (O : qr_ops T St) (fuelS fuelN : nat) (scal : T) (l_range_end_1 : (nat * nat * nat)%type) (st_in : St) (s_range_it_in : (nat * nat * nat)%type) : bool :=
  (negb (g_ci_eq O fuelS fuelN s_range_it_in l_range_end_1)).
(* body of the forc loop (followed by its increment) *)
Definition g_scale_R_forc1_step {T : Type} {HN : Num T} {St : Type} (O : qr_ops T St) (fuelS fuelN : nat) (scal : T) (l_range_end_1 : (nat * nat * nat)%type) (st_in : St) (s_range_it_in : (nat * nat * nat)%type) : (St * (nat * nat * nat)%type)%type :=
  let '(l_i_3, l_r_idx_4) := (ci_idx s_range_it_in) in
  let st_5 := (qo_set_Rcol O st_in l_r_idx_4 (scale_top (S l_i_3) scal (qo_Rcol O st_in l_r_idx_4))) in
  let l_range_it_6 := (g_cit_incr O fuelS fuelN s_range_it_in) in
  (st_5, l_range_it_6).
(* LimitedMemoryQR::scale_R *)
Definition g_scale_R {T : Type} {HN : Num T} {St : Type} (O : qr_ops T St) (fuelS fuelN : nat) (st : St) (scal : T) : St :=
  let l_range_end_1 := (g_range_end O fuelS fuelN (g_ring_iter O fuelS fuelN st)) in
  let l_range_it_2 := (g_range_begin O fuelS fuelN (g_ring_iter O fuelS fuelN st)) in
  let '(st_7, l_range_it_8) := while_c fuelN (fun '(st_in, s_range_it_in) => g_scale_R_forc1_cond O fuelS fuelN scal l_range_end_1 st_in s_range_it_in) (fun '(st_in, s_range_it_in) => g_scale_R_forc1_step O fuelS fuelN scal l_range_end_1 st_in s_range_it_in) (st, l_range_it_2) in
  let st_9 := (qo_set_min_eig O st_7 (xscale (qo_min_eig O st_7) scal)) in
  let st_10 := (qo_set_max_eig O st_9 (xscale (qo_max_eig O st_9) scal)) in
  st_10.

(* unit get_Q *)
(* LimitedMemoryQR::get_Q *)
Definition g_get_Q {T : Type} {HN : Num T} {St : Type} (O : qr_ops T St) (fuelS fuelN : nat) (st : St) : list (list T) :=
  (qblock_Q O st (g_n O fuelS fuelN st) (qo_q_idx O st)).

(* unit minimize_update_anderson *)
(* condition of the while loop *)
Definition g_minimize_update_anderson_while1_cond {T : Type} {HN : Num T} {St : Type} (O : qr_ops T St) (fuelS fuelN : nat) (Gh : list (list T)) (l_gam_LS_4 : list T) (l_g_end_6 : (nat * nat * nat)%type) (s_xk_aa_in : list T) (s_g_it_in : (nat * nat * nat)%type) (s_alpha_in : T) : bool :=
  (negb (g_ci_eq O fuelS fuelN s_g_it_in l_g_end_6)).
(* body of the while loop *)
Definition g_minimize_update_anderson_while1_step {T : Type} {HN : Num T} {St : Type} (O : qr_ops T St) (fuelS fuelN : nat) (Gh : list (list T)) (l_gam_LS_4 : list T) (l_g_end_6 : (nat * nat * nat)%type) (s_xk_aa_in : list T) (s_g_it_in : (nat * nat * nat)%type) (s_alpha_in : T) : (list T * (nat * nat * nat)%type * T)%type :=
  let '(l_i_10, l_g_idx_11) := (ci_idx s_g_it_in) in
  let l_alpha_12 := ((nth l_i_10 l_gam_LS_4 n0) - (nth (Nat.pred l_i_10) l_gam_LS_4 n0)) in
  let l_xk_aa_13 := (vadd s_xk_aa_in (vscale l_alpha_12 (mcol Gh l_g_idx_11))) in
  let l_g_it_14 := (g_cit_incr O fuelS fuelN s_g_it_in) in
  (l_xk_aa_13, l_g_it_14, l_alpha_12).
(* minimize_update_anderson *)
Definition g_minimize_update_anderson {T : Type} {HN : Num T} {St : Type} (O : qr_ops T St) (fuelS fuelN : nat) (qr : St) (Gh : list (list T)) (rk : list T) (rlast : list T) (gk : list T) (min_div_fac : T) (gam_LS : list T) (xk_aa : list T) : (St * list (list T) * list T * list T)%type :=
  let st_2 := (if (Nat.eqb (g_num_columns O fuelS fuelN qr) (g_m O fuelS fuelN qr)) then let st_1 := (g_remove_column O fuelS fuelN qr) in
  st_1 else qr) in
  let st_3 := (g_add_column O fuelS fuelN st_2 (vsub rk rlast)) in
  let l_gam_LS_4 := (g_solve_col O fuelS fuelN st_3 rk gam_LS (xtimes_or0 (g_get_max_eig O fuelS fuelN st_3) min_div_fac)) in
  let l_g_it_5 := (g_range_begin O fuelS fuelN (g_ring_iter O fuelS fuelN st_3)) in
  let l_g_end_6 := (g_range_end O fuelS fuelN (g_ring_iter O fuelS fuelN st_3)) in
  let l_alpha_7 := (nth 0%nat l_gam_LS_4 n0) in
  let l_xk_aa_8 := (vscale l_alpha_7 (mcol Gh (snd (ci_idx l_g_it_5)))) in
  let l_g_it_9 := (g_cit_incr O fuelS fuelN l_g_it_5) in
  let '(l_xk_aa_15, l_g_it_16, l_alpha_17) := while_c fuelN (fun '(s_xk_aa_in, s_g_it_in, s_alpha_in) => g_minimize_update_anderson_while1_cond O fuelS fuelN Gh l_gam_LS_4 l_g_end_6 s_xk_aa_in s_g_it_in s_alpha_in) (fun '(s_xk_aa_in, s_g_it_in, s_alpha_in) => g_minimize_update_anderson_while1_step O fuelS fuelN Gh l_gam_LS_4 l_g_end_6 s_xk_aa_in s_g_it_in s_alpha_in) (l_xk_aa_8, l_g_it_9, l_alpha_7) in
  let l_alpha_18 := (n1 - (nth (Nat.pred (g_num_columns O fuelS fuelN st_3)) l_gam_LS_4 n0)) in
  let l_xk_aa_19 := (vadd l_xk_aa_15 (vscale l_alpha_18 gk)) in
  let l_Gh_20 := (mset_col Gh (g_ring_tail O fuelS fuelN st_3) gk) in
  (st_3, l_Gh_20, l_gam_LS_4, l_xk_aa_19).

(* unit aa_resize *)
(* AndersonAccel::resize *)
Definition g_aa_resize {T : Type} {HN : Num T} {St : Type} (O : qr_ops T St) (fuelS fuelN : nat) (p_memory : nat) (p_min_div_fac : T) (qr : St) (G : list (list T)) (rlast : list T) (gam_LS : list T) (initialized : bool) (n : nat) : (St * list (list T) * list T * list T * bool)%type :=
  let l_m_AA_1 := (Nat.min n p_memory) in
  let st_2 := (g_resize O fuelS fuelN qr n l_m_AA_1) in
  let l_G_3 := (mzeros n l_m_AA_1) in
  let l_rlast_4 := (vzeros n) in
  let l_gam_LS_5 := (vzeros l_m_AA_1) in
  let l_initialized_6 := false in
  (st_2, l_G_3, l_rlast_4, l_gam_LS_5, l_initialized_6).

(* unit aa_reset *)
(* AndersonAccel::reset *)
Definition g_aa_reset {T : Type} {HN : Num T} {St : Type} (O : qr_ops T St) (fuelS fuelN : nat) (p_memory : nat) (p_min_div_fac : T) (qr : St) (G : list (list T)) (rlast : list T) (gam_LS : list T) (initialized : bool) : (St * list (list T) * list T * list T * bool)%type :=
  let l_newest_g_idx_1 := (g_ring_tail O fuelS fuelN qr) in
  let l_G_3 := (if (negb (Nat.eqb l_newest_g_idx_1 0%nat)) then let l_G_2 := (mset_col G 0%nat (mcol G l_newest_g_idx_1)) in
  l_G_2 else G) in
  let st_4 := (g_reset O fuelS fuelN qr) in
  (st_4, l_G_3, rlast, gam_LS, initialized).

(* unit aa_scale_R *)
(* AndersonAccel::scale_R *)
Definition g_aa_scale_R {T : Type} {HN : Num T} {St : Type} (O : qr_ops T St) (fuelS fuelN : nat) (p_memory : nat) (p_min_div_fac : T) (qr : St) (G : list (list T)) (rlast : list T) (gam_LS : list T) (initialized : bool) (scal : T) : (St * list (list T) * list T * list T * bool)%type :=
  let st_1 := (g_scale_R O fuelS fuelN qr scal) in
  (st_1, G, rlast, gam_LS, initialized).

(* unit aa_initialize *)
(* AndersonAccel::initialize *)
Definition g_aa_initialize {T : Type} {HN : Num T} {St : Type} (O : qr_ops T St) (fuelS fuelN : nat) (p_memory : nat) (p_min_div_fac : T) (qr : St) (G : list (list T)) (rlast : list T) (gam_LS : list T) (initialized : bool) (a_g_0 : list T) (r_0 : list T) : (St * list (list T) * list T * list T * bool)%type :=
  let l_G_1 := (mset_col G 0%nat a_g_0) in
  let l_rlast_2 := r_0 in
  let st_3 := (g_reset O fuelS fuelN qr) in
  let l_initialized_4 := true in
  (st_3, l_G_1, l_rlast_2, gam_LS, l_initialized_4).

(* unit aa_compute *)
(* AndersonAccel::compute *)
Definition g_aa_compute {T : Type} {HN : Num T} {St : Type} (O : qr_ops T St) (fuelS fuelN : nat) (p_memory : nat) (p_min_div_fac : T) (qr : St) (G : list (list T)) (rlast : list T) (gam_LS : list T) (initialized : bool) (gk : list T) (rk : list T) (xk_aa : list T) : option ((St * list (list T) * list T * list T * bool * list T)%type) :=
  if (negb initialized) then
  None
  else
  let '(st_1, l_G_2, l_gam_LS_3, l_xk_aa_4) := g_minimize_update_anderson O fuelS fuelN qr G rk rlast gk p_min_div_fac gam_LS xk_aa in
  let l_rlast_5 := rk in
  (Some (st_1, l_G_2, l_rlast_5, l_gam_LS_3, initialized, l_xk_aa_4)).

(* end of LmqrGen *)
