(* SparsityGen.ref.v — reference text of the translator (the translation of the source tree the framework was built against).
   Used unit by unit ONLY when the current source leaves the translator's grammar. *)
From Coq Require Import ZArith List Bool Arith.
From Alpaqa Require Import Sparsity SparsityGenLib.
Import ListNotations.
Local Open Scope nat_scope.

(* unit macro *)
(* ALPAQA_HAVE_COO_CSC_CONVERSIONS — guard `__cpp_lib_ranges_zip >= 202110L && __cpp_lib_ranges_enumerate >= 202302L` with __cpp_lib_ranges_zip=undefined, __cpp_lib_ranges_enumerate=undefined *)
Definition g_have_coo_csc_conversions  : bool :=
  false.

(* unit specialisations *)
(* the (From, To) pairs with a SparsityConverter specialisation *)
Definition g_specialisations  : list (fmt * fmt) :=
  [(Fcoo, Fcoo); (Fcoo, Fcsc); (Fcoo, Fdense); (Fcsc, Fcoo); (Fcsc, Fcsc); (Fcsc, Fdense); (Fdense, Fcoo); (Fdense, Fcsc); (Fdense, Fdense)].

(* unit csc_nnz *)
(* SparseCSC::nnz *)
Definition g_csc_nnz  (s : csc) : nat :=
  (length (c_inner s)).

(* unit coo_nnz *)
(* SparseCOO::nnz *)
Definition g_coo_nnz  (s : coo) : nat :=
  (length (o_row s)).

(* unit dense_dense_ctor *)
(* SparsityConverter<D, D>: the constructor (member initialisers, then the body); result = sparsity *)
Definition g_dense_dense_ctor  (from : dense) : outcome dense :=
  let sparsity := from in
  if ((negb (g_sym_eqb (d_sym from) Unsym)) && (negb (Nat.eqb (d_rows from) (d_cols from)))) then
  ThrowInvalidArgument
  else
  (Ok sparsity).

(* unit dense_dense_convert_values *)
(* SparsityConverter<D, D>::convert_values; vals = what the value provider writes *)
Definition g_dense_dense_convert_values {T : Type} (zero : T) (sparsity : dense) (vals : list T) (to : list T) : list T :=
  let to := vals in
  to.

(* unit csc_dense_convert_sparsity *)
(* SparsityConverter<CSC, D>::convert_sparsity *)
Definition g_csc_dense_convert_sparsity  (from : csc) : outcome dense :=
  if ((negb (g_sym_eqb (c_sym from) Unsym)) && (negb (Nat.eqb (c_rows from) (c_cols from)))) then
  ThrowInvalidArgument
  else
  (Ok (mkDense (c_rows from) (c_cols from) (c_sym from))).

(* unit csc_dense_ctor *)
(* SparsityConverter<CSC, D>: the constructor (member initialisers, then the body); result = from_sparsity, sparsity *)
Definition g_csc_dense_ctor  (from : csc) : outcome (csc * dense)%type :=
  let from_sparsity := from in
  obind (g_csc_dense_convert_sparsity from) (fun sparsity =>
  (Ok (from_sparsity, sparsity))).

(* unit csc_dense_convert_values *)
(* body of for loop 2 (over i) *)
Definition g_csc_dense_convert_values_for2_step {T : Type} (zero : T) (from_sparsity : csc) (sparsity : dense) (work : (list T)) (c : nat) (to : (list T)) (l : nat) (i : nat) : outcome ((list T) * nat)%type :=
  let r := (nth i (c_inner from_sparsity) 0) in
  obind (match (c_sym from_sparsity) with
  | Unsym => let to := (upd (flat (d_rows sparsity) (Z.of_nat r) (Z.of_nat c)) (nth l work zero) to) in
  (Ok to)
  | Upper => if (Nat.ltb c r) then
  ThrowInvalidArgument
  else
  let to := (upd (flat (d_rows sparsity) (Z.of_nat r) (Z.of_nat c)) (nth l work zero) to) in
  let to := (upd (flat (d_rows sparsity) (Z.of_nat c) (Z.of_nat r)) (nth l work zero) to) in
  (Ok to)
  | Lower => if (Nat.ltb r c) then
  ThrowInvalidArgument
  else
  let to := (upd (flat (d_rows sparsity) (Z.of_nat r) (Z.of_nat c)) (nth l work zero) to) in
  let to := (upd (flat (d_rows sparsity) (Z.of_nat c) (Z.of_nat r)) (nth l work zero) to) in
  (Ok to)
  end) (fun to =>
  let l := (S l) in
  (Ok (to, l))).
(* body of for loop 1 (over c) *)
Definition g_csc_dense_convert_values_for1_step {T : Type} (zero : T) (from_sparsity : csc) (sparsity : dense) (work : (list T)) (to : (list T)) (l : nat) (c : nat) : outcome ((list T) * nat)%type :=
  let inner_start := (nth c (c_outer from_sparsity) 0) in
  let inner_end := (nth (S c) (c_outer from_sparsity) 0) in
  obind (ofold (fun '(to, l) i => (g_csc_dense_convert_values_for2_step zero) from_sparsity sparsity work c to l i) (seq inner_start (Nat.sub inner_end inner_start)) (to, l)) (fun '(to, l) =>
  (Ok (to, l))).
(* SparsityConverter<CSC, D>::convert_values; vals = what the value provider writes *)
Definition g_csc_dense_convert_values {T : Type} (zero : T) (from_sparsity : csc) (sparsity : dense) (vals : list T) (to : list T) : outcome (list T) :=
  let work := (@nil T) in
  let work := vals in
  let to := (map (fun _ => zero) to) in
  let l := 0 in
  obind (ofold (fun '(to, l) c => (g_csc_dense_convert_values_for1_step zero) from_sparsity sparsity work to l c) (seq 0 (c_cols from_sparsity)) (to, l)) (fun '(to, l) =>
  (Ok to)).

(* unit coo_dense_convert_sparsity *)
(* SparsityConverter<COO, D>::convert_sparsity *)
Definition g_coo_dense_convert_sparsity  (from : coo) : outcome dense :=
  if ((negb (g_sym_eqb (o_sym from) Unsym)) && (negb (Nat.eqb (o_rows from) (o_cols from)))) then
  ThrowInvalidArgument
  else
  (Ok (mkDense (o_rows from) (o_cols from) (o_sym from))).

(* unit coo_dense_ctor *)
(* SparsityConverter<COO, D>: the constructor (member initialisers, then the body); result = from_sparsity, sparsity *)
Definition g_coo_dense_ctor  (from : coo) : outcome (coo * dense)%type :=
  let from_sparsity := from in
  obind (g_coo_dense_convert_sparsity from) (fun sparsity =>
  (Ok (from_sparsity, sparsity))).

(* unit coo_dense_convert_values *)
(* body of for loop 1 (over l) *)
Definition g_coo_dense_convert_values_for1_step {T : Type} (zero : T) (from_sparsity : coo) (sparsity : dense) (work : (list T)) (to : (list T)) (l : nat) : outcome (list T) :=
  let r := (Z.sub (nth l (o_row from_sparsity) 0%Z) (o_first from_sparsity)) in
  let c := (Z.sub (nth l (o_col from_sparsity) 0%Z) (o_first from_sparsity)) in
  obind (match (o_sym from_sparsity) with
  | Unsym => let to := (upd (flat (d_rows sparsity) r c) (nth l work zero) to) in
  (Ok to)
  | Upper => if (Z.ltb c r) then
  ThrowInvalidArgument
  else
  let to := (upd (flat (d_rows sparsity) r c) (nth l work zero) to) in
  let to := (upd (flat (d_rows sparsity) c r) (nth l work zero) to) in
  (Ok to)
  | Lower => if (Z.ltb r c) then
  ThrowInvalidArgument
  else
  let to := (upd (flat (d_rows sparsity) r c) (nth l work zero) to) in
  let to := (upd (flat (d_rows sparsity) c r) (nth l work zero) to) in
  (Ok to)
  end) (fun to =>
  (Ok to)).
(* SparsityConverter<COO, D>::convert_values; vals = what the value provider writes *)
Definition g_coo_dense_convert_values {T : Type} (zero : T) (from_sparsity : coo) (sparsity : dense) (vals : list T) (to : list T) : outcome (list T) :=
  let work := (@nil T) in
  let work := vals in
  let to := (map (fun _ => zero) to) in
  obind (ofold ((g_coo_dense_convert_values_for1_step zero) from_sparsity sparsity work) (seq 0 (g_coo_nnz from_sparsity)) to) (fun to =>
  (Ok to)).

(* unit dense_coo_convert_sparsity *)
(* body of for loop 2 (over r) *)
Definition g_dense_coo_convert_sparsity_for2_step  (Del : Z) (c : nat) (row_indices : (list Z)) (col_indices : (list Z)) (l : nat) (r : nat) : ((list Z) * (list Z) * nat)%type :=
  let row_indices := (upd l (Z.add (Z.of_nat r) Del) row_indices) in
  let col_indices := (upd l (Z.add (Z.of_nat c) Del) col_indices) in
  let l := (S l) in
  (row_indices, col_indices, l).
(* body of for loop 1 (over c) *)
Definition g_dense_coo_convert_sparsity_for1_step  (from : dense) (Del : Z) (row_indices : (list Z)) (col_indices : (list Z)) (l : nat) (c : nat) : ((list Z) * (list Z) * nat)%type :=
  let '(row_indices, col_indices, l) := fold_left (fun '(row_indices, col_indices, l) r => g_dense_coo_convert_sparsity_for2_step Del c row_indices col_indices l r) (seq 0 (d_rows from)) (row_indices, col_indices, l) in
  (row_indices, col_indices, l).
(* body of for loop 4 (over r) *)
Definition g_dense_coo_convert_sparsity_for4_step  (Del : Z) (c : nat) (row_indices : (list Z)) (col_indices : (list Z)) (l : nat) (r : nat) : ((list Z) * (list Z) * nat)%type :=
  let row_indices := (upd l (Z.add (Z.of_nat r) Del) row_indices) in
  let col_indices := (upd l (Z.add (Z.of_nat c) Del) col_indices) in
  let l := (S l) in
  (row_indices, col_indices, l).
(* body of for loop 3 (over c) *)
Definition g_dense_coo_convert_sparsity_for3_step  (Del : Z) (row_indices : (list Z)) (col_indices : (list Z)) (l : nat) (c : nat) : ((list Z) * (list Z) * nat)%type :=
  let '(row_indices, col_indices, l) := fold_left (fun '(row_indices, col_indices, l) r => g_dense_coo_convert_sparsity_for4_step Del c row_indices col_indices l r) (seq 0 (S c)) (row_indices, col_indices, l) in
  (row_indices, col_indices, l).
(* SparsityConverter<D, COO>::convert_sparsity *)
Definition g_dense_coo_convert_sparsity  (from : dense) (t : ityp) (req_first_index : (option Z)) : outcome coo :=
  let row_indices := (@nil Z) in
  let col_indices := (@nil Z) in
  let Del := 0%Z in
  let Del := (if (is_some req_first_index) then
  let Del := (oget 0%Z req_first_index) in
  Del
  else
  Del) in
  obind (match (d_sym from) with
  | Unsym => let nnz := (Nat.mul (d_rows from) (d_cols from)) in
  let row_indices := (repeat 0%Z nnz) in
  let col_indices := (repeat 0%Z nnz) in
  let l := 0 in
  let '(row_indices, col_indices, l) := fold_left (fun '(row_indices, col_indices, l) c => g_dense_coo_convert_sparsity_for1_step from Del row_indices col_indices l c) (seq 0 (d_cols from)) (row_indices, col_indices, l) in
  (Ok (row_indices, col_indices))
  | Upper => if (negb (Nat.eqb (d_rows from) (d_cols from))) then
  ThrowInvalidArgument
  else
  let nnz := (Nat.div (Nat.mul (d_rows from) (S (d_rows from))) 2) in
  let row_indices := (repeat 0%Z nnz) in
  let col_indices := (repeat 0%Z nnz) in
  let l := 0 in
  let '(row_indices, col_indices, l) := fold_left (fun '(row_indices, col_indices, l) c => g_dense_coo_convert_sparsity_for3_step Del row_indices col_indices l c) (seq 0 (d_cols from)) (row_indices, col_indices, l) in
  (Ok (row_indices, col_indices))
  | Lower => ThrowInvalidArgument
  end) (fun '(row_indices, col_indices) =>
  (Ok (mkCOO t (d_rows from) (d_cols from) (d_sym from) row_indices col_indices CooSortedByColsAndRows (if (is_some req_first_index) then (oget 0%Z req_first_index) else 0%Z)))).

(* unit dense_coo_ctor *)
(* SparsityConverter<D, COO>: the constructor (member initialisers, then the body); result = sparsity *)
Definition g_dense_coo_ctor  (from : dense) (t : ityp) (req_first_index : (option Z)) : outcome coo :=
  let row_indices := (@nil Z) in
  let col_indices := (@nil Z) in
  obind (g_dense_coo_convert_sparsity from t req_first_index) (fun sparsity =>
  (Ok sparsity)).

(* unit dense_coo_convert_values *)
(* body of for loop 1 (over c) *)
Definition g_dense_coo_convert_values_for1_step {T : Type} (zero : T) (sparsity : coo) (work : (list T)) (to : (list T)) (t : nat) (c : nat) : ((list T) * nat)%type :=
  let t := (Nat.add t (S c)) in
  let to := (blit_back to t (mcol_top zero (o_rows sparsity) work c (S c))) in
  (to, t).
(* SparsityConverter<D, COO>::convert_values; vals = what the value provider writes *)
Definition g_dense_coo_convert_values {T : Type} (zero : T) (sparsity : coo) (vals : list T) (to : list T) : list T :=
  let work := (@nil T) in
  let '(to, work) := (if (g_sym_eqb (o_sym sparsity) Unsym) then
  let to := vals in
  (to, work)
  else
  let '(to, work) := (if (g_sym_eqb (o_sym sparsity) Upper) then
  let work := vals in
  let t := 0 in
  let '(to, t) := fold_left (fun '(to, t) c => (g_dense_coo_convert_values_for1_step zero) sparsity work to t c) (seq 0 (o_cols sparsity)) (to, t) in
  (to, work)
  else
  (to, work)) in
  (to, work)) in
  to.

(* unit csc_coo_convert_sparsity *)
(* body of for loop 2 (over i) *)
Definition g_csc_coo_convert_sparsity_for2_step  (from : csc) (Del : Z) (c : nat) (row_indices : (list Z)) (col_indices : (list Z)) (l : nat) (i : nat) : ((list Z) * (list Z) * nat)%type :=
  let r := (nth i (c_inner from) 0) in
  let row_indices := (upd l (Z.add (Z.of_nat r) Del) row_indices) in
  let col_indices := (upd l (Z.add (Z.of_nat c) Del) col_indices) in
  let l := (S l) in
  (row_indices, col_indices, l).
(* body of for loop 1 (over c) *)
Definition g_csc_coo_convert_sparsity_for1_step  (from : csc) (Del : Z) (row_indices : (list Z)) (col_indices : (list Z)) (l : nat) (c : nat) : ((list Z) * (list Z) * nat)%type :=
  let inner_start := (nth c (c_outer from) 0) in
  let inner_end := (nth (S c) (c_outer from) 0) in
  let '(row_indices, col_indices, l) := fold_left (fun '(row_indices, col_indices, l) i => g_csc_coo_convert_sparsity_for2_step from Del c row_indices col_indices l i) (seq inner_start (Nat.sub inner_end inner_start)) (row_indices, col_indices, l) in
  (row_indices, col_indices, l).
(* SparsityConverter<CSC, COO>::convert_sparsity *)
Definition g_csc_coo_convert_sparsity  (from : csc) (t : ityp) (req_first_index : (option Z)) : coo :=
  let row_indices := (@nil Z) in
  let col_indices := (@nil Z) in
  let Del := 0%Z in
  let Del := (if (is_some req_first_index) then
  let Del := (oget 0%Z req_first_index) in
  Del
  else
  Del) in
  let row_indices := (repeat 0%Z (g_csc_nnz from)) in
  let col_indices := (repeat 0%Z (g_csc_nnz from)) in
  let l := 0 in
  let '(row_indices, col_indices, l) := fold_left (fun '(row_indices, col_indices, l) c => g_csc_coo_convert_sparsity_for1_step from Del row_indices col_indices l c) (seq 0 (c_cols from)) (row_indices, col_indices, l) in
  (mkCOO t (c_rows from) (c_cols from) (c_sym from) row_indices col_indices (if (g_cscord_eqb (c_order from) CscSortedRows) then CooSortedByColsAndRows else CooSortedByColsOnly) (if (is_some req_first_index) then (oget 0%Z req_first_index) else 0%Z)).

(* unit csc_coo_ctor *)
(* SparsityConverter<CSC, COO>: the constructor (member initialisers, then the body); result = sparsity *)
Definition g_csc_coo_ctor  (from : csc) (t : ityp) (req_first_index : (option Z)) : coo :=
  let row_indices := (@nil Z) in
  let col_indices := (@nil Z) in
  let sparsity := (g_csc_coo_convert_sparsity from t req_first_index) in
  sparsity.

(* unit csc_coo_convert_values *)
(* SparsityConverter<CSC, COO>::convert_values; vals = what the value provider writes *)
Definition g_csc_coo_convert_values {T : Type} (zero : T) (sparsity : coo) (vals : list T) (to : list T) : list T :=
  let to := vals in
  to.

(* unit coo_coo_convert_sparsity *)
(* SparsityConverter<COO, COO>::convert_sparsity *)
Definition g_coo_coo_convert_sparsity  (from : coo) (t : ityp) (req_first_index : (option Z)) : coo :=
  let row_indices := (@nil Z) in
  let col_indices := (@nil Z) in
  let Del := 0%Z in
  let Del := (if (is_some req_first_index) then
  let Del := (Z.sub (oget 0%Z req_first_index) (o_first from)) in
  Del
  else
  Del) in
  if (ityp_eqb (o_ity from) t) then
  if (Z.eqb Del 0%Z) then
  from
  else
  let row_indices := (repeat 0%Z (g_coo_nnz from)) in
  let col_indices := (repeat 0%Z (g_coo_nnz from)) in
  let row_indices := (blit row_indices 0 (map (fun x_ => (Z.add x_ Del)) (o_row from))) in
  let col_indices := (blit col_indices 0 (map (fun x_ => (Z.add x_ Del)) (o_col from))) in
  (mkCOO t (o_rows from) (o_cols from) (o_sym from) row_indices col_indices (o_order from) (if (is_some req_first_index) then (oget 0%Z req_first_index) else (o_first from)))
  else
  let row_indices := (repeat 0%Z (g_coo_nnz from)) in
  let col_indices := (repeat 0%Z (g_coo_nnz from)) in
  let row_indices := (blit row_indices 0 (map (fun x_ => (Z.add x_ Del)) (o_row from))) in
  let col_indices := (blit col_indices 0 (map (fun x_ => (Z.add x_ Del)) (o_col from))) in
  (mkCOO t (o_rows from) (o_cols from) (o_sym from) row_indices col_indices (o_order from) (if (is_some req_first_index) then (oget 0%Z req_first_index) else (o_first from))).

(* unit coo_coo_ctor *)
(* SparsityConverter<COO, COO>: the constructor (member initialisers, then the body); result = sparsity *)
Definition g_coo_coo_ctor  (from : coo) (t : ityp) (req_first_index : (option Z)) : coo :=
  let row_indices := (@nil Z) in
  let col_indices := (@nil Z) in
  let sparsity := (g_coo_coo_convert_sparsity from t req_first_index) in
  sparsity.

(* unit coo_coo_convert_values *)
(* SparsityConverter<COO, COO>::convert_values; vals = what the value provider writes *)
Definition g_coo_coo_convert_values {T : Type} (zero : T) (sparsity : coo) (vals : list T) (to : list T) : list T :=
  let to := vals in
  to.

(* unit dense_csc_convert_sparsity *)
(* body of for loop 2 (over r) *)
Definition g_dense_csc_convert_sparsity_for2_step  (inner_idx : (list nat)) (l : nat) (r : nat) : ((list nat) * nat)%type :=
  let inner_idx := (upd l r inner_idx) in
  let l := (S l) in
  (inner_idx, l).
(* body of for loop 1 (over c) *)
Definition g_dense_csc_convert_sparsity_for1_step  (from : dense) (inner_idx : (list nat)) (outer_ptr : (list nat)) (l : nat) (c : nat) : ((list nat) * (list nat) * nat)%type :=
  let outer_ptr := (upd c l outer_ptr) in
  let '(inner_idx, l) := fold_left (fun '(inner_idx, l) r => g_dense_csc_convert_sparsity_for2_step inner_idx l r) (seq 0 (d_rows from)) (inner_idx, l) in
  (inner_idx, outer_ptr, l).
(* body of for loop 4 (over r) *)
Definition g_dense_csc_convert_sparsity_for4_step  (inner_idx : (list nat)) (l : nat) (r : nat) : ((list nat) * nat)%type :=
  let inner_idx := (upd l r inner_idx) in
  let l := (S l) in
  (inner_idx, l).
(* body of for loop 3 (over c) *)
Definition g_dense_csc_convert_sparsity_for3_step  (inner_idx : (list nat)) (outer_ptr : (list nat)) (l : nat) (c : nat) : ((list nat) * (list nat) * nat)%type :=
  let outer_ptr := (upd c l outer_ptr) in
  let '(inner_idx, l) := fold_left (fun '(inner_idx, l) r => g_dense_csc_convert_sparsity_for4_step inner_idx l r) (seq 0 (S c)) (inner_idx, l) in
  (inner_idx, outer_ptr, l).
(* SparsityConverter<D, CSC>::convert_sparsity *)
Definition g_dense_csc_convert_sparsity  (from : dense) (t : ityp) (req_order : (option csc_order)) : outcome csc :=
  let inner_idx := (@nil nat) in
  let outer_ptr := (@nil nat) in
  obind (match (d_sym from) with
  | Unsym => let inner_idx := (repeat 0 (Nat.mul (d_rows from) (d_cols from))) in
  let outer_ptr := (repeat 0 (S (d_cols from))) in
  let l := 0 in
  let '(inner_idx, outer_ptr, l) := fold_left (fun '(inner_idx, outer_ptr, l) c => g_dense_csc_convert_sparsity_for1_step from inner_idx outer_ptr l c) (seq 0 (d_cols from)) (inner_idx, outer_ptr, l) in
  let outer_ptr := (upd (d_cols from) l outer_ptr) in
  (Ok (inner_idx, outer_ptr))
  | Upper => if (negb (Nat.eqb (d_rows from) (d_cols from))) then
  ThrowInvalidArgument
  else
  let inner_idx := (repeat 0 (Nat.div (Nat.mul (d_rows from) (S (d_rows from))) 2)) in
  let outer_ptr := (repeat 0 (S (d_cols from))) in
  let l := 0 in
  let '(inner_idx, outer_ptr, l) := fold_left (fun '(inner_idx, outer_ptr, l) c => g_dense_csc_convert_sparsity_for3_step inner_idx outer_ptr l c) (seq 0 (d_cols from)) (inner_idx, outer_ptr, l) in
  let outer_ptr := (upd (d_cols from) l outer_ptr) in
  (Ok (inner_idx, outer_ptr))
  | Lower => ThrowInvalidArgument
  end) (fun '(inner_idx, outer_ptr) =>
  (Ok (mkCSC t (d_rows from) (d_cols from) (d_sym from) inner_idx outer_ptr CscSortedRows))).

(* unit dense_csc_ctor *)
(* SparsityConverter<D, CSC>: the constructor (member initialisers, then the body); result = sparsity *)
Definition g_dense_csc_ctor  (from : dense) (t : ityp) (req_order : (option csc_order)) : outcome csc :=
  let inner_idx := (@nil nat) in
  let outer_ptr := (@nil nat) in
  obind (g_dense_csc_convert_sparsity from t req_order) (fun sparsity =>
  (Ok sparsity)).

(* unit dense_csc_convert_values *)
(* body of for loop 1 (over c) *)
Definition g_dense_csc_convert_values_for1_step {T : Type} (zero : T) (sparsity : csc) (work : (list T)) (to : (list T)) (t : nat) (c : nat) : ((list T) * nat)%type :=
  let t := (Nat.add t (S c)) in
  let to := (blit_back to t (mcol_top zero (c_rows sparsity) work c (S c))) in
  (to, t).
(* SparsityConverter<D, CSC>::convert_values; vals = what the value provider writes *)
Definition g_dense_csc_convert_values {T : Type} (zero : T) (sparsity : csc) (vals : list T) (to : list T) : list T :=
  let work := (@nil T) in
  let '(to, work) := (if (g_sym_eqb (c_sym sparsity) Unsym) then
  let to := vals in
  (to, work)
  else
  let '(to, work) := (if (g_sym_eqb (c_sym sparsity) Upper) then
  let work := vals in
  let t := 0 in
  let '(to, t) := fold_left (fun '(to, t) c => (g_dense_csc_convert_values_for1_step zero) sparsity work to t c) (seq 0 (c_cols sparsity)) (to, t) in
  (to, work)
  else
  (to, work)) in
  (to, work)) in
  to.

(* unit csc_csc_convert_sparsity *)
(* SparsityConverter<CSC, CSC>::convert_sparsity *)
Definition g_csc_csc_convert_sparsity  (from : csc) (t : ityp) (req_order : (option csc_order)) : outcome (csc * (list nat))%type :=
  let inner_idx := (@nil nat) in
  let outer_ptr := (@nil nat) in
  let permutation := (@nil nat) in
  let need_sorting := false in
  let order := (c_order from) in
  let '(need_sorting, order) := (if ((is_some req_order) && (g_cscord_eqb (oget CscUnsorted req_order) CscSortedRows)) then
  let order := CscSortedRows in
  let need_sorting := (match (c_order from) with
  | CscUnsorted => let need_sorting := true in
  need_sorting
  | CscSortedRows => let need_sorting := false in
  need_sorting
  end) in
  (need_sorting, order)
  else
  (need_sorting, order)) in
  if need_sorting then
  ThrowRuntimeError
  else
  let '(inner_idx, outer_ptr) := (if (negb (ityp_eqb (c_ity from) t)) then
  let inner_idx := (repeat 0 (length (c_inner from))) in
  let inner_idx := (blit inner_idx 0 (map (fun x_ => x_) (c_inner from))) in
  let outer_ptr := (repeat 0 (length (c_outer from))) in
  let outer_ptr := (blit outer_ptr 0 (map (fun x_ => x_) (c_outer from))) in
  (inner_idx, outer_ptr)
  else
  (inner_idx, outer_ptr)) in
  let permutation := (if (nat_sortedb permutation) then
  let permutation := [] in
  permutation
  else
  permutation) in
  if (ityp_eqb (c_ity from) t) then
  (Ok ((mkCSC t (c_rows from) (c_cols from) (c_sym from) (if need_sorting then inner_idx else (c_inner from)) (if need_sorting then outer_ptr else (c_outer from)) order), permutation))
  else
  (Ok ((mkCSC t (c_rows from) (c_cols from) (c_sym from) inner_idx outer_ptr order), permutation)).

(* unit csc_csc_ctor *)
(* SparsityConverter<CSC, CSC>: the constructor (member initialisers, then the body); result = permutation, sparsity *)
Definition g_csc_csc_ctor  (from : csc) (t : ityp) (req_order : (option csc_order)) : outcome ((list nat) * csc)%type :=
  let inner_idx := (@nil nat) in
  let outer_ptr := (@nil nat) in
  let permutation := (@nil nat) in
  obind (g_csc_csc_convert_sparsity from t req_order) (fun '(sparsity, permutation) =>
  (Ok (permutation, sparsity))).

(* unit csc_csc_convert_values *)
(* SparsityConverter<CSC, CSC>::convert_values; vals = what the value provider writes *)
Definition g_csc_csc_convert_values {T : Type} (zero : T) (permutation : (list nat)) (sparsity : csc) (vals : list T) (to : list T) : list T :=
  let work := (@nil T) in
  let '(to, work) := (if (Nat.ltb 0 (length permutation)) then
  let work := vals in
  let to := (gather zero work permutation) in
  (to, work)
  else
  let to := vals in
  (to, work)) in
  to.

(* unit coo_csc_convert_sparsity *)
(* SparsityConverter<COO, CSC>::convert_sparsity *)
Definition g_coo_csc_convert_sparsity  (from : coo) (t : ityp) (req_order : (option csc_order)) : outcome (csc * (list nat))%type :=
  let inner_idx := (@nil nat) in
  let outer_ptr := (@nil nat) in
  let permutation := (@nil nat) in
  ThrowRuntimeError.

(* unit coo_csc_ctor *)
(* SparsityConverter<COO, CSC>: the constructor (member initialisers, then the body); result = permutation, sparsity *)
Definition g_coo_csc_ctor  (from : coo) (t : ityp) (req_order : (option csc_order)) : outcome ((list nat) * csc)%type :=
  let inner_idx := (@nil nat) in
  let outer_ptr := (@nil nat) in
  let permutation := (@nil nat) in
  obind (g_coo_csc_convert_sparsity from t req_order) (fun '(sparsity, permutation) =>
  (Ok (permutation, sparsity))).

(* unit coo_csc_convert_values *)
(* SparsityConverter<COO, CSC>::convert_values; vals = what the value provider writes *)
Definition g_coo_csc_convert_values {T : Type} (zero : T) (permutation : (list nat)) (sparsity : csc) (vals : list T) (to : list T) : list T :=
  let work := (@nil T) in
  let '(to, work) := (if (Nat.ltb 0 (length permutation)) then
  let work := vals in
  let to := (gather zero work permutation) in
  (to, work)
  else
  let to := vals in
  (to, work)) in
  to.

(* end of SparsityGen *)
