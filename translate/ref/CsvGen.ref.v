(* CsvGen.ref.v — reference text of the translator (the translation of the source tree the framework was built against).
   Used unit by unit ONLY when the current source leaves the translator's grammar. *)
From Coq Require Import List Ascii Bool Arith.
From Alpaqa Require Import Csv CsvGenLib.
Import ListNotations.
Local Open Scope nat_scope.

(* unit constants *)
(* CSVReader::bufmaxsize *)
Definition g_bufmaxsize  : nat :=
  64.
(* CSVReader::end *)
Definition g_end  : ascii :=
  (ascii_of_nat 10).

(* unit read_chunk *)
(* CSVReader::read_chunk *)
Definition g_read_chunk {V : Type} (fchars : list ascii -> fc_result V) (s : (list ascii)) (bufidx : nat) (keep_reading : bool) (is : stream) : cres ((list ascii) * nat * bool)%type :=
  if (negb (negb (failb is))) then
  (is, inl EInvalidStream)
  else
  if (Nat.eqb g_bufmaxsize bufidx) then
  (is, inr (s, bufidx, keep_reading))
  else
  let '(got3, is) := s_getn (Nat.pred (Nat.add (Nat.sub g_bufmaxsize bufidx) 1)) is in
  let s := cput s (Nat.add 0 bufidx) got3 in
  let gcount := length got3 in
  if (negb (negb (failb is))) then
  (is, inl EExtraction)
  else
  let bufidx := (Nat.add bufidx gcount) in
  let '(pk4, is) := s_peek is in
  let keep_reading := ((negb (oceq pk4 g_end)) && (negb (eofb is))) in
  (is, inr (s, bufidx, keep_reading)).

(* unit read_single *)
(* CSVReader::read_single *)
Definition g_read_single {V : Type} (fchars : list ascii -> fc_result V) (s : list ascii) (bufbegin : nat) (bufend : nat) (v : V) : (err + (nat * V)%type)%type :=
  let bufbegin := (if ((negb (Nat.eqb bufbegin bufend)) && (Ascii.eqb (cnth s bufbegin) (ascii_of_nat 43))) then
  let bufbegin := (S bufbegin) in
  bufbegin
  else
  bufbegin) in
  let fr1 := fchars (cslice s bufbegin bufend) in
  let ptr := (Nat.add bufbegin (fc_adv fr1)) in
  let ec := fc_ok fr1 in
  let v := fc_val fr1 v in
  if (negb (Bool.eqb ec true)) then
  (inl EConversion)
  else
  (inr (ptr, v)).

(* unit read *)
(* CSVReader::read *)
Definition g_read {V : Type} (fchars : list ascii -> fc_result V) (garbage : V) (s : (list ascii)) (bufidx : nat) (keep_reading : bool) (is : stream) (sep : ascii) : cres (V * (list ascii) * nat * bool)%type :=
  cbind (if keep_reading then
  cbind (g_read_chunk fchars s bufidx keep_reading is) (fun is '(s, bufidx, keep_reading) =>
  (is, inr (s, bufidx, keep_reading)))
  else
  (is, inr (s, bufidx, keep_reading))) (fun is '(s, bufidx, keep_reading) =>
  let v := garbage in
  let bufend := (Nat.add 0 bufidx) in
  clift is (g_read_single fchars s 0 bufend v) (fun '(ptr, v) =>
  if ((Nat.eqb ptr bufend) && keep_reading) then
  (is, inl ETooLong)
  else
  if ((negb (Nat.eqb ptr bufend)) && (negb (Ascii.eqb (cnth s ptr) sep))) then
  (is, inl EUnexpected)
  else
  let '(s, bufidx) := (if (negb (Nat.eqb ptr bufend)) then
  let s := (cmove s (Nat.add ptr 1) bufend) in
  let bufidx := (Nat.sub bufidx (Nat.sub (Nat.add ptr 1) 0)) in
  (s, bufidx)
  else
  let bufidx := 0 in
  (s, bufidx)) in
  (is, inr (v, s, bufidx, keep_reading)))).

(* unit next_line *)
(* CSVReader::next_line *)
Definition g_next_line {V : Type} (fchars : list ascii -> fc_result V) (s : (list ascii)) (bufidx : nat) (keep_reading : bool) (is : stream) : cres unit :=
  let '(sc3, is) := (if (Nat.ltb 0 bufidx) then (true, is) else
  let '(sc2, is) := (if (negb (eofb is)) then
  let '(gc1, is) := s_get1 is in
  ((negb (oceq gc1 g_end)), is)
  else (false, is)) in
  (sc2, is)) in
  if sc3 then
  (is, inl ENotConsumed)
  else
  (is, inr tt).

(* unit done *)
(* CSVReader::done *)
Definition g_done {V : Type} (fchars : list ascii -> fc_result V) (s : (list ascii)) (bufidx : nat) (keep_reading : bool) (is : stream) : (stream * bool)%type :=
  let '(pk1, is) := s_peek is in
  let keep_reading := ((negb (oceq pk1 g_end)) && (negb (eofb is))) in
  (is, ((Nat.eqb bufidx 0) && (negb keep_reading))).

(* unit print_elem *)
(* float_to_str_vw (std::to_chars branch): the sign rule *)
Definition g_print_elem  {V : Type} (to_chars : V -> list ascii) (signbit isnan : V -> bool) (v : V) : list ascii :=
  if ((negb (signbit v)) && (negb (isnan v))) then (ascii_of_nat 43) :: to_chars v else to_chars v.
(* the default precision is std::numeric_limits<F>::max_digits10, the value has type F *)
Definition g_print_precision_follows_value_type  : bool :=
  true.

(* end of CsvGen *)
