#!/usr/bin/env python3
"""translate/gen_C04_vtable.py — G6 (+ the CasADi part of G8): regenerates coq/gen/VtableGen.v from the CURRENT sources

  problem/type-erased-problem.hpp                 ProblemVTable fields (required_function_t / optional_function_t, the default_*
                                                  each optional entry starts with), the constructor's ALPAQA_TE_REQUIRED_METHOD /
                                                  ALPAQA_TE_OPTIONAL_METHOD lists, provides_* / supports_* expressions,
                                                  TypeErasedProblem forwarders `return call(vtable.X, args)`
  implementation/problem/type-erased-problem.tpp  bodies of default_* and calc_ŷ_dᵀŷ: statement by statement (restricted grammar)
  interop/casadi/.../CasADiProblem.tpp + python/alpaqa/casadi_generator/__init__.py
                                                  call sites `(*impl->F)({args}, {outs})`, load table `.F = try_load<..>(loader, "name", dims(..), dims(..))`
                                                  vs the generated functions' declared input names

Output:
  vtable_methods : list vmethod     (name, required?, default the field starts with, constructor macro, kind of the default, provides-expression)
  vtable_supports, vtable_forwarders, casadi_calls : finite tables
  gdef_X / gvt_X : for calc_ŷ_dᵀŷ, the seven combined evaluations and eval_hess_ψ_prod a Gallina term in the writer monad of
                   AugLag.v obtained by symbolic execution of the parsed statement sequence (buffers = variables of an environment,
                   a vtable call = a monadic bind of the callee's generated vtable entry).

Restricted statement grammar (anything else -> OutOfGrammar; the reference text translate/ref/VtableGen.ref.v is then written and
the status says so; never a violation by itself):
   if (V.size() == 0|1) S [else S] ; if (vtable.m ==|!= 0 [&& vtable.X != [ProblemVTable<Conf>::]default_X]) S
   for (index_t i = 0; i < V.size(); ++i) { acc += E(i); W(i) = E(i); }
   [real_t|auto] v = E;  auto &a = b;  V += E;  V *= E;  vtable.F(self, args[, vtable]);  (void)calc(...);  return [E];  throw not_implemented_error("name");
   E ::= number | real_t(number) | v | V(0) | V(i) | E op E | (E) | V.dot(W) | V.cwiseQuotient(W) | vtable.F(...) | calc_ŷ_dᵀŷ(self, ...)
Usable standalone (`python3 translate/gen_C04_vtable.py [repo]`) and from lib/vf/props/C04.py (`write(repo, verif)`).
"""
import os, re, sys, json, unicodedata
sys.path.insert(0, os.path.dirname(os.path.abspath(__file__)))
import strict

HERE = os.path.dirname(os.path.abspath(__file__))
VERIF = os.path.dirname(HERE)
HPP = "src/alpaqa/include/alpaqa/problem/type-erased-problem.hpp"
TPP = "src/alpaqa/include/alpaqa/implementation/problem/type-erased-problem.tpp"
CAS = "src/interop/casadi/include/alpaqa/implementation/casadi/CasADiProblem.tpp"
CASPY = "python/alpaqa/casadi_generator/__init__.py"
ID = "[\\w\u0300-\u036f]+"
CALC = "calc_ŷ_dᵀŷ"


class OutOfGrammar(Exception):
    pass


def balanced(s, i, op="{", cl="}"):
    if s[i] != op:
        raise OutOfGrammar("expected %s at %r" % (op, s[i:i + 30]))
    d = 0
    for j in range(i, len(s)):
        if s[j] == op:
            d += 1
        elif s[j] == cl:
            d -= 1
            if d == 0:
                return j + 1
    raise OutOfGrammar("unbalanced %s" % op)


def split_args(s):
    out, d, cur = [], 0, ""
    for ch in s:
        if ch in "([{":
            d += 1
        elif ch in ")]}":
            d -= 1
        if ch == "," and d == 0:
            out.append(cur.strip()); cur = ""
        else:
            cur += ch
    if cur.strip():
        out.append(cur.strip())
    return out


def strip_comments(s):
    s = re.sub(r"/\*.*?\*/", " ", s, flags=re.S)
    return re.sub(r"//[^\n]*", "", s)


# ----------------------------------------------------------------------------- header: fields, constructor, provides, supports, forwarders

def parse_params(ptxt):
    """'crvec x, rvec grad_fx' -> [(type, name)] ; unnamed parameters get name None"""
    out = []
    for p in split_args(ptxt):
        p = re.sub(r"///<[^\n]*", "", p).strip()
        toks = p.replace("&", " & ").replace("*", " * ").split()
        ptr = "*" in toks
        toks = [t for t in toks if t not in ("const", "&", "*")]
        if not toks:
            continue
        if ptr:
            out.append(("void *", toks[-1] if len(toks) > 1 else None))
            continue
        if len(toks) == 1:
            out.append((toks[0], None))
        else:
            out.append((" ".join(toks[:-1]), toks[-1]))
    return out


def account_vtable_struct(body, fields):
    """consume-everything: every member declaration of struct ProblemVTable is one of the forms below; the function-pointer fields are
    exactly the parsed ones (in order), the static declarations are calc_ŷ_dᵀŷ followed by the default of every optional field (in
    field order), the constructor consists of the REQUIRED / OPTIONAL macro lines between its three fixed statements"""
    K = strict.lit
    try:
        members = strict.split_statements(body[body.index("{") + 1:body.rindex("}")])
        seen_fields, seen_statics, ctor_body = [], [], None
        for m_ in members:
            fm = re.fullmatch(r"(?:required|optional)_function_t\s*<.*>\s*(%s)\s*(?:=\s*%s\s*)?;" % (ID, ID), m_, re.S)
            sm = re.fullmatch(r"ALPAQA_EXPORT\s+static\s+[^;()]*?\b(%s)\s*\([^;{}]*\)\s*;" % ID, m_, re.S)
            cm = re.fullmatch(r"template\s*<class P>\s*ProblemVTable\s*\(std::in_place_t, P &p\)\s*:\s*util::BasicVTable\{std::in_place, p\}\s*\{(.*)\}", m_, re.S)
            if fm:
                seen_fields.append(fm.group(1))
            elif sm:
                seen_statics.append(sm.group(1))
            elif cm:
                if ctor_body is not None:
                    raise OutOfGrammar("two constructors of ProblemVTable")
                ctor_body = cm.group(1)
            elif not any(re.fullmatch(K(k), m_) for k in (
                    "USING_ALPAQA_CONFIG(Conf);", "using Sparsity = alpaqa::Sparsity<config_t>;", "using Box = alpaqa::Box<config_t>;",
                    "template <class F> using optional_function_t = util::BasicVTable::optional_function_t<F, ProblemVTable>;",
                    "length_t n, m;", "ProblemVTable() = default;")):
                raise OutOfGrammar("member of ProblemVTable outside the grammar: %r" % m_[:80])
        # the members come in this order: config macro, the two aliases, the optional_function_t alias, the function-pointer fields, the
        # static declarations, the dimensions, the constructor, the defaulted constructor — each fixed member exactly once
        kind = lambda m_: ("field" if re.match(r"(required|optional)_function_t\s*<", m_) else "static" if m_.startswith("ALPAQA_EXPORT") else
                           "ctor" if m_.startswith("template <class P>") or m_.startswith("template<class P>") else m_)
        shape, prev = [], None
        for m_ in members:
            k_ = kind(m_)
            if k_ != prev or k_ not in ("field", "static"):
                shape.append(k_)
            prev = k_
        want_shape = ["USING_ALPAQA_CONFIG(Conf);", "using Sparsity = alpaqa::Sparsity<config_t>;", "using Box = alpaqa::Box<config_t>;",
                      "template <class F> using optional_function_t = util::BasicVTable::optional_function_t<F, ProblemVTable>;",
                      "field", "static", "length_t n, m;", "ctor", "ProblemVTable() = default;"]
        if [" ".join(x.split()) for x in shape] != want_shape:
            raise OutOfGrammar("members of ProblemVTable are not in the known order: %s" % [x[:30] for x in shape])
        if seen_fields != [f_["name"] for f_ in fields]:
            raise OutOfGrammar("function-pointer members of ProblemVTable: %s parsed, %s declared" % ([f_["name"] for f_ in fields], seen_fields))
        want = [CALC] + [f_["default"] for f_ in fields if not f_["required"]]
        if seen_statics != want:
            raise OutOfGrammar("static declarations of ProblemVTable are %s, expected %s" % (seen_statics, want))
        for m_ in members:
            sm = re.fullmatch(r"ALPAQA_EXPORT\s+static\s+([^;()]*?)\s*\b(%s)\s*\((.*)\)\s*;" % ID, m_, re.S)
            if not sm:
                continue
            if sm.group(2) == CALC:
                wt, wr = ["void *", "rvec", "crvec", "crvec", "ProblemVTable"], "real_t"
            else:
                f_ = [x for x in fields if x["default"] == sm.group(2)][0]
                wt, wr = ["void *"] + [t for t, _ in f_["params"]] + ["ProblemVTable"], f_["ret"]
            if [t for t, _ in parse_params(sm.group(3))] != wt or " ".join(sm.group(1).split()) != " ".join(wr.split()):
                raise OutOfGrammar("static declaration of %s does not have the signature of its vtable entry" % sm.group(2))
        if ctor_body is None:
            raise OutOfGrammar("constructor of ProblemVTable not found")
        strict.account(strict.split_statements(ctor_body),
                       [("vtable", K("auto &vtable = *this;"), "1"),
                        ("macros", r"ALPAQA_TE_(REQUIRED|OPTIONAL)_METHOD\s*\(\s*vtable\s*,\s*P\s*,\s*%s\s*(,\s*p\s*)?\)\s*;" % ID, "*"),
                        ("n", K("vtable.n = p.get_n();"), "1"), ("m", K("vtable.m = p.get_m();"), "1")], "constructor of ProblemVTable")
    except strict.Unaccounted as ex:
        raise OutOfGrammar(str(ex))


def parse_header(src):
    src_nc = strip_comments(src)
    m = re.search(r"struct\s+ProblemVTable\s*:[^{]*\{", src_nc)
    if not m:
        raise OutOfGrammar("struct ProblemVTable not found")
    body = src_nc[m.end() - 1:balanced(src_nc, m.end() - 1)]
    fields = []
    for fm in re.finditer(r"\b(required_function_t|optional_function_t)\s*<", body):
        if body[:fm.start()].rstrip().endswith("using") or body[:fm.start()].rstrip().endswith("::"):
            continue
        if re.search(r"using\s+%s\s*=\s*$" % ID, body[:fm.start()]):
            continue
        j = balanced(body, fm.end() - 1, "<", ">") if "(" not in body[fm.end():fm.end() + 3] else None
        # the signature contains parentheses and no nested '<': find the closing '>' after the matching ')'
        k = body.index("(", fm.end())
        k2 = balanced(body, k, "(", ")")
        gt = body.index(">", k2)
        sig = body[fm.end():gt].strip()
        rest = body[gt + 1:]
        mm = re.match(r"\s*(%s)\s*(?:=\s*(%s)\s*)?;" % (ID, ID), rest)
        if not mm:
            if re.match(r"\s*;", rest) or "F" in sig[:2]:
                continue
            raise OutOfGrammar("vtable field after signature %r" % sig[:40])
        sm = re.match(r"(.*?)\((.*)\)\s*(const)?\s*$", sig, re.S)
        if not sm:
            raise OutOfGrammar("signature %r" % sig)
        fields.append(dict(name=mm.group(1), required=fm.group(1) == "required_function_t", default=mm.group(2),
                           ret=sm.group(1).strip(), params=parse_params(sm.group(2))))
    if not fields:
        raise OutOfGrammar("no vtable fields parsed")
    account_vtable_struct(body, fields)
    ctor = {}
    for cm in re.finditer(r"ALPAQA_TE_(REQUIRED|OPTIONAL)_METHOD\s*\(\s*vtable\s*,\s*P\s*,\s*(%s)\s*(?:,\s*p\s*)?\)" % ID, body):
        ctor.setdefault(cm.group(2), []).append(cm.group(1).lower())
    # static declarations (parameter names of calc and the defaults)
    statics = {}
    for sm in re.finditer(r"static\s+([^;()]*?)\s*\b(%s)\s*\(" % ID, body):
        j = balanced(body, sm.end() - 1, "(", ")")
        statics[sm.group(2)] = dict(ret=re.sub(r"ALPAQA_EXPORT", "", sm.group(1)).strip(), params=parse_params(body[sm.end():j - 1]))
    provides, supports = {}, {}
    for pm in re.finditer(r"bool\s+(provides_%s)\s*\(\s*\)\s*const\s*\{" % ID, src_nc):
        b = src_nc[pm.end():balanced(src_nc, pm.end() - 1) - 1]
        b = re.sub(r"\s+", " ", b).strip()
        mm = re.fullmatch(r"return vtable\.(%s) != vtable\.(%s);" % (ID, ID), b)
        provides[pm.group(1)[len("provides_"):]] = (mm.group(1), mm.group(2)) if mm else ("<out-of-grammar>", b[:60])
    for pm in re.finditer(r"bool\s+(supports_%s)\s*\(\s*\)\s*const\s*\{" % ID, src_nc):
        b = re.sub(r"\s+", " ", src_nc[pm.end():balanced(src_nc, pm.end() - 1) - 1]).strip()
        mm = re.fullmatch(r"return provides_(%s)\(\) \|\| \(vtable\.m == 0 && provides_(%s)\(\)\);" % (ID, ID), b)
        supports[pm.group(1)[len("supports_"):]] = (mm.group(1), mm.group(2)) if mm else ("<out-of-grammar>", b[:60])
    # forwarders of TypeErasedProblem
    fwd = []
    for fm in re.finditer(r"TypeErasedProblem<Conf, Allocator>::(%s)\s*\(" % ID, src_nc):
        j = balanced(src_nc, fm.end() - 1, "(", ")")
        k = src_nc.find("{", j)
        semi = src_nc.find(";", j)
        if k < 0 or 0 <= semi < k:
            continue
        b = re.sub(r"\s+", " ", src_nc[k + 1:balanced(src_nc, k) - 1]).strip()
        params = [n for _, n in parse_params(src_nc[fm.end():j - 1])]
        mm = re.fullmatch(r"return call\(vtable\.(%s)(?:, (.*))?\);" % ID, b)
        if mm:
            fwd.append((fm.group(1), params, mm.group(1), split_args(mm.group(2) or "")))
        elif fm.group(1) not in ("get_n", "get_m"):
            fwd.append((fm.group(1), params, "<out-of-grammar>", [b[:60]]))
    return dict(fields=fields, ctor=ctor, statics=statics, provides=provides, supports=supports, forwarders=fwd)


# ----------------------------------------------------------------------------- .tpp: function bodies -> statements

def tpp_functions(src):
    src = strip_comments(src)
    out = {}
    for m in re.finditer(r"ProblemVTable<Conf>::(%s)\s*\(" % ID, src):
        name = m.group(1)
        j = balanced(src, m.end() - 1, "(", ")")
        k = src.find("{", j)
        semi = src.find(";", j)
        if k < 0 or 0 <= semi < k:
            continue          # a use (e.g. `!= ProblemVTable<Conf>::default_x`), not a definition
        head = src[max(0, m.start() - 200):m.start()]
        if not re.search(r"(auto|void|std::string)\s*$", head):
            continue
        out[name] = dict(params=parse_params(src[m.end():j - 1]), body=src[k + 1:balanced(src, k) - 1])
    return out


TOK = re.compile(r"\s*(?:(\d+\.\d+|\d+)|(%s)|(\+=|-=|\*=|/=|==|!=|<=|>=|&&|\|\||->|::|\+\+|--|[-+*/=(){}\[\],.;<>!&]))" % ID)


def tokenize(s):
    toks, i = [], 0
    s = s.rstrip()
    while i < len(s):
        m = TOK.match(s, i)
        if not m or m.end() == i:
            if s[i:].strip() == "":
                break
            raise OutOfGrammar("cannot tokenize %r" % s[i:i + 30])
        if m.group(1) is not None:
            toks.append(("num", m.group(1)))
        elif m.group(2) is not None:
            toks.append(("id", m.group(2)))
        else:
            toks.append(("op", m.group(3)))
        i = m.end()
    return toks


class P:
    """recursive descent over the token list"""
    def __init__(self, toks):
        self.t, self.i = toks, 0

    def peek(self, k=0):
        return self.t[self.i + k] if self.i + k < len(self.t) else ("eof", "")

    def eat(self, val=None, kind=None):
        tk = self.peek()
        if (val is not None and tk[1] != val) or (kind is not None and tk[0] != kind):
            raise OutOfGrammar("expected %s, found %r (token %d)" % (val or kind, tk[1], self.i))
        self.i += 1
        return tk

    def at(self, val):
        return self.peek()[1] == val and self.peek()[0] != "num"

    # ---- statements
    def block(self):
        self.eat("{")
        out = []
        while not self.at("}"):
            out.append(self.stmt())
        self.eat("}")
        return out

    def stmt_or_block(self):
        return self.block() if self.at("{") else [self.stmt()]

    def stmt(self):
        tk = self.peek()
        if tk == ("id", "if"):
            self.eat(); self.eat("(")
            c = self.cond()
            self.eat(")")
            th = self.stmt_or_block()
            el = None
            if self.peek() == ("id", "else"):
                self.eat(); el = self.stmt_or_block()
            return ("if", c, th, el)
        if tk == ("id", "for"):
            self.eat(); self.eat("(")
            self.eat("index_t"); iv = self.eat(kind="id")[1]; self.eat("="); z = self.eat(kind="num")[1]; self.eat(";")
            iv2 = self.eat(kind="id")[1]; self.eat("<"); bound = self.eat(kind="id")[1]; self.eat("."); self.eat("size"); self.eat("("); self.eat(")"); self.eat(";")
            self.eat("++"); iv3 = self.eat(kind="id")[1]; self.eat(")")
            if z != "0" or iv2 != iv or iv3 != iv:
                raise OutOfGrammar("for-loop header is not `index_t i = 0; i < V.size(); ++i`")
            return ("for", iv, bound, self.stmt_or_block())
        if tk == ("id", "throw"):
            self.eat(); e = self.expr(); self.eat(";")
            return ("throw", e)
        if tk == ("id", "return"):
            self.eat()
            if self.at(";"):
                self.eat(); return ("return", None)
            e = self.expr(); self.eat(";")
            return ("return", e)
        if tk in (("id", "auto"), ("id", "real_t")) and not (self.peek(1) == ("op", "(")):
            self.eat()
            ref = False
            if self.at("&"):
                self.eat(); ref = True
            name = self.eat(kind="id")[1]
            self.eat("=")
            e = self.expr(); self.eat(";")
            return ("alias", name, e) if ref else ("let", name, e)
        if tk == ("op", "(") and self.peek(1) == ("id", "void") and self.peek(2) == ("op", ")"):
            self.eat(); self.eat(); self.eat()
            e = self.expr(); self.eat(";")
            return ("do", e)
        e = self.expr()
        if self.peek()[1] in ("+=", "-=", "*=", "=") and self.peek()[0] == "op":
            op = self.eat()[1]
            r = self.expr(); self.eat(";")
            return ("assign", op, e, r)
        self.eat(";")
        return ("do", e)

    def cond(self):
        c = self.expr()
        return c

    # ---- expressions:  || < && < ==,!= < +,- < *,/ < unary < postfix
    def expr(self):
        return self.bin(0)

    LEVELS = [("||",), ("&&",), ("==", "!="), ("+", "-"), ("*", "/")]

    def bin(self, lvl):
        if lvl == len(self.LEVELS):
            return self.postfix()
        e = self.bin(lvl + 1)
        while self.peek()[0] == "op" and self.peek()[1] in self.LEVELS[lvl]:
            op = self.eat()[1]
            e = ("bin", op, e, self.bin(lvl + 1))
        return e

    def args(self):
        self.eat("(")
        a = []
        while not self.at(")"):
            a.append(self.expr())
            if self.at(","):
                self.eat()
        self.eat(")")
        return a

    def qualified(self):
        name = self.eat(kind="id")[1]
        while self.at("<") and name in ("ProblemVTable", "sparsity::Dense", "Dense"):
            # template argument list of a qualified name: skip
            d = 0
            while True:
                tk = self.eat()
                if tk[1] == "<": d += 1
                if tk[1] == ">":
                    d -= 1
                    if d == 0: break
        while self.at("::"):
            self.eat(); name += "::" + self.eat(kind="id")[1]
            if self.at("<") and name.endswith("Dense"):
                d = 0
                while True:
                    tk = self.eat()
                    if tk[1] == "<": d += 1
                    if tk[1] == ">":
                        d -= 1
                        if d == 0: break
        return name

    def postfix(self):
        tk = self.peek()
        if tk[0] == "num":
            self.eat(); return ("num", tk[1])
        if tk == ("op", "("):
            self.eat(); e = self.expr(); self.eat(")")
        elif tk == ("op", "-"):
            self.eat(); return ("neg", self.postfix())
        elif tk[0] == "id":
            name = self.qualified()
            if name == "real_t" and self.at("("):
                a = self.args()
                if len(a) != 1 or a[0][0] != "num":
                    raise OutOfGrammar("real_t(...) of a non-literal")
                return ("num", a[0][1])
            if self.at("{"):      # braced construction (sparsity::Dense<config_t>{...}): opaque, its tokens kept as text
                d, txt = 0, []
                while True:
                    t2 = self.eat()
                    txt.append(t2[1])
                    if t2[1] == "{": d += 1
                    if t2[1] == "}":
                        d -= 1
                        if d == 0: break
                return ("opaque", name, " ".join(txt))
            e = ("var", name)
            if self.at("("):
                e = ("call", name, self.args())
        else:
            raise OutOfGrammar("unexpected token %r" % (tk[1],))
        while True:
            if self.at("."):
                self.eat(); mname = self.eat(kind="id")[1]
                if self.at("("):
                    e = ("method", e, mname, self.args())
                else:
                    e = ("field", e, mname)
            elif self.at("(") and e[0] in ("var",):
                e = ("call", e[1], self.args())
            else:
                return e


def always_leaves(stmts):
    """does the statement list always end in return / throw?  A statement after a point that always leaves is out of grammar"""
    for k, st in enumerate(stmts):
        leaves = st[0] in ("return", "throw") or (st[0] == "if" and st[3] is not None and always_leaves(st[2]) and always_leaves(st[3]))
        if st[0] == "if":
            always_leaves(st[2]); always_leaves(st[3] or [])
        if st[0] == "for":
            always_leaves(st[3])
        if leaves:
            if k + 1 < len(stmts):
                raise OutOfGrammar("statement after a return / throw (unreachable)")
            return True
    return False


def parse_body(text):
    p = P(tokenize("{" + text + "}"))
    stmts = p.block()
    if p.peek()[0] != "eof":
        raise OutOfGrammar("trailing tokens after body")
    always_leaves(stmts)
    return stmts


# ----------------------------------------------------------------------------- classification of the defaults (table)

def calls_in(node, acc):
    """vtable.F(...) / calc(...) calls (and references vtable.F) in an AST"""
    if isinstance(node, (list, tuple)):
        if node and node[0] == "method" and node[1] == ("var", "vtable"):
            acc.append(("call", node[2], node[3]))
        if node and node[0] == "call" and node[1] == CALC:
            acc.append(("call", CALC, node[2]))
        for ch in node:
            calls_in(ch, acc)
    return acc


def throws_in(node, acc):
    if isinstance(node, (list, tuple)):
        if node and node[0] == "throw":
            e = node[1]
            if e[0] == "call" and e[1] == "not_implemented_error" and len(e[2]) == 1 and e[2][0][0] == "var":
                acc.append(e[2][0][1])
            else:
                acc.append("<other>")
        for ch in node:
            throws_in(ch, acc)
    return acc


STR = re.compile(r'"([^"\\]*)"')


M_IS_0 = ("bin", "==", ("field", ("var", "vtable"), "m"), ("num", "0"))
M_NOT_0 = ("bin", "!=", ("field", ("var", "vtable"), "m"), ("num", "0"))
DENSE_HESS = "{ vtable . n , vtable . n , sparsity :: Symmetry :: Upper }"
DENSE_RETURNS = {"default_get_jac_g_sparsity": "{ vtable . m , vtable . n }", "default_get_hess_L_sparsity": "{ vtable . n , vtable . n , sparsity :: Symmetry :: Upper }"}


def is_throw(st, name, strs):
    e = st[1] if st[0] == "throw" else None
    return bool(e) and e[0] == "call" and e[1] == "not_implemented_error" and len(e[2]) == 1 and e[2][0][0] == "var" \
        and e[2][0][1].startswith("STR_") and strs[int(e[2][0][1][4:])] == name[len("default_"):]


def pin_default(name, stmts, strs, params):
    """consume-everything for the defaults that are classified, not translated: the parsed body is exactly one of the known shapes
         (empty) | throw not_implemented_error("X"); | if (vtable.m != 0) throw ..;
         | if (vtable.m == 0 && vtable.F != default_F) return vtable.F(self, <named parameters>, vtable);  throw ..; | return Dense{n, n, Upper};
         | return <known literal / dense sparsity>;"""
    named = [nm for _, nm in params if nm is not None]
    if not stmts or (len(stmts) == 1 and is_throw(stmts[0], name, strs)):
        return
    if len(stmts) == 1 and stmts[0][0] == "if" and stmts[0][1] == M_NOT_0 and stmts[0][3] is None and len(stmts[0][2]) == 1 and is_throw(stmts[0][2][0], name, strs):
        return
    if len(stmts) == 2 and stmts[0][0] == "if" and stmts[0][3] is None and len(stmts[0][2]) == 1 and stmts[0][2][0][0] == "return":
        c, ret = stmts[0][1], stmts[0][2][0][1]
        if c[0] == "bin" and c[1] == "&&" and c[2] == M_IS_0 and c[3][0] == "bin" and c[3][1] == "!=" and c[3][2][0] == "field" \
                and c[3][2][1] == ("var", "vtable") and c[3][3][0] == "var" and c[3][3][1].split("::")[-1] == "default_" + c[3][2][2] \
                and ret and ret[0] == "method" and ret[1] == ("var", "vtable") and ret[2] == c[3][2][2] \
                and ret[3] == [("var", a) for a in named] and named[:1] == ["self"] and named[-1:] == ["vtable"]:
            tail = stmts[1]
            if is_throw(tail, name, strs) or (tail[0] == "return" and tail[1] and tail[1][0] == "opaque" and tail[1][1].startswith("sparsity::Dense") and tail[1][2] == DENSE_HESS):
                return
    if len(stmts) == 1 and stmts[0][0] == "return" and stmts[0][1]:
        r = stmts[0][1]
        if r[0] == "opaque" and r[1].startswith("sparsity::Dense") and DENSE_RETURNS.get(name) == r[2]:
            return
        if r[0] == "var" and r[1].startswith("STR_") and name == "default_get_name":
            return
    raise OutOfGrammar("%s: body is not one of the known shapes of a classified default" % name)


def protect_strings(text):
    """string literals -> identifiers STR_<k> so that the tokenizer stays simple"""
    strs = []
    def rep(m):
        strs.append(m.group(1)); return " STR_%d " % (len(strs) - 1)
    return STR.sub(rep, text), strs


def classify(name, stmts, strs):
    """-> (kind, callees, thrown name)"""
    thr = [strs[int(t[4:])] if t.startswith("STR_") else t for t in throws_in(stmts, [])]
    callees = [c[1] for c in calls_in(stmts, [])]
    if not stmts:
        return ("DNoOp", [], None)
    if thr and stmts[0][0] == "throw" and len(stmts) == 1:
        return ("DThrows", [], thr[0])
    if thr:
        return ("DConditional", callees, thr[0])
    if callees:
        return ("DComposes", callees, None)
    return ("DOther", [], None)


# ----------------------------------------------------------------------------- symbolic execution -> Gallina

# binding of vtable entry names to the model: (fn constructor, record field / expression applied to the input arguments)
BIND = {
    "eval_f": ("Ff", "pf P"), "eval_grad_f": ("Fgrad_f", "pgrad_f P"), "eval_g": ("Fg", "pg P"),
    "eval_grad_g_prod": ("Fgrad_g_prod", "pgrad_g_prod P"), "eval_proj_diff_g": ("Fproj_diff_g", "projdiff (plb P) (pub P)"),
    "eval_f_grad_f": ("Ff_grad_f", "uf_grad_f P"), "eval_f_g": ("Ff_g", "uf_g P"),
    "eval_grad_f_grad_g_prod": ("Fgrad_f_grad_g_prod", "ugrad_f_grad_g_prod P"), "eval_grad_L": ("Fgrad_L", "ugrad_L P"),
    "eval_ψ": ("Fpsi", "upsi P"), "eval_grad_ψ": ("Fgrad_psi", "ugrad_psi P"), "eval_ψ_grad_ψ": ("Fpsi_grad_psi", "upsi_grad_psi P"),
    "eval_hess_L_prod": ("Fhess_L_prod", "uhess_L_prod P"), "eval_hess_ψ_prod": ("Fhess_psi_prod", "uhess_psi_prod P"),
}
GENERATED = ["eval_f_grad_f", "eval_f_g", "eval_grad_f_grad_g_prod", "eval_grad_L", "eval_ψ", "eval_grad_ψ", "eval_ψ_grad_ψ"]
IN_TYPES = ("crvec", "real_t", "index_t")
OUT_TYPES = ("rvec",)
ASCII = {"ψ": "psi", "ŷ": "yh", "Σ": "Sg", "ᵀ": "T", "γ": "gam", "ζ": "zeta"}


def gid(name):
    out = ""
    for ch in unicodedata.normalize("NFC", name):
        if ch.isascii() and (ch.isalnum() or ch == "_"):
            out += ch
        elif ch in ASCII:
            out += ASCII[ch]
        else:
            out += "u%04x" % ord(ch)
    return out


def vtype(t):
    return "vec" if t in ("crvec", "rvec") else "scal"


class Sig:
    """calling convention of a generated function: inputs (in parameter order, inout buffers as <name>_in), result components"""
    def __init__(self, name, ret, params):
        self.name, self.ret = name, ret
        self.params = [(t, n) for t, n in params if t not in ("void *", "void*", "ProblemVTable", "void") and n not in ("self", "vtable")]
        for t, n in self.params:
            if t not in IN_TYPES + OUT_TYPES:
                raise OutOfGrammar("%s: parameter type %r" % (name, t))
        self.inout = set()       # output parameters whose initial contents are read
    def is_scratch(self, n):
        return n is not None and n.startswith("work_")
    def result_comps(self):
        """[(kind, param name)]: the scalar return value first, then the non-scratch output buffers"""
        comps = [("ret", None)] if self.ret == "real_t" else []
        comps += [("out", n) for t, n in self.params if t in OUT_TYPES and not self.is_scratch(n)]
        return comps
    def input_params(self):
        return [(t, n) for t, n in self.params if t in IN_TYPES or n in self.inout]


def proj(var, k, n):
    """k-th of n components of a left-nested tuple held by var"""
    if n == 1:
        return var
    if n == 2:
        return "%s %s" % (("fst", "snd")[k], var)
    if k == n - 1:
        return "snd %s" % var
    return proj("(fst %s)" % var, k, n - 1)


def tuple_of(parts):
    if len(parts) == 1:
        return parts[0]
    e = "(%s, %s)" % (parts[0], parts[1])
    for p_ in parts[2:]:
        e = "(%s, %s)" % (e, p_)
    return e


class Exec:
    def __init__(self, sigs, sig, strs):
        self.sigs, self.sig, self.strs = sigs, sig, strs
        self.counter = 0

    def fresh(self, base="r"):
        self.counter += 1
        return "%s%d" % (base, self.counter)

    def run(self, stmts):
        env = {}
        for t, n in self.sig.params:
            if n is None:
                continue
            if t in IN_TYPES:
                env[n] = (vtype(t), gid(n))
            else:
                env[n] = (vtype(t), None)     # uninitialised output buffer
        return self.seq(stmts, env, {}, {})

    def resolve(self, name, alias):
        while name in alias:
            name = alias[name]
        return name

    def read(self, name, env, alias):
        name = self.resolve(name, alias)
        if name not in env:
            raise OutOfGrammar("%s: unknown variable %s" % (self.sig.name, name))
        ty, g = env[name]
        if g is None:
            if any(n == name for _, n in self.sig.params):
                if self.sig.is_scratch(name):
                    raise OutOfGrammar("%s: reads scratch buffer %s before writing it" % (self.sig.name, name))
                self.sig.inout.add(name)
                g = gid(name) + "_in"
                env[name] = (ty, g)
            else:
                raise OutOfGrammar("%s: reads %s before it is written" % (self.sig.name, name))
        if g == "<scratch>":
            raise OutOfGrammar("%s: reads %s after it was used as scratch space by a callee" % (self.sig.name, name))
        return ty, g

    def finish(self, env, alias, retexpr, sz0):
        """result tuple of the function from the environment"""
        parts = []
        for kind, n in self.sig.result_comps():
            if kind == "ret":
                if retexpr is None:
                    raise OutOfGrammar("%s: missing return value" % self.sig.name)
                ty, g = retexpr
                if ty != "scal":
                    raise OutOfGrammar("%s: returns a non-scalar" % self.sig.name)
                parts.append(g)
            else:
                parts.append(self.read(n, env, alias)[1])
        return parts

    def seq(self, stmts, env, alias, sz, binds=None):
        """returns Gallina text of the monadic computation of `stmts` (to the end of the function)"""
        binds = [] if binds is None else binds
        def wrap(term):
            out = term
            for v, call in reversed(binds):
                out = "%s <- %s ;;\n      %s" % (v, call, out)
            return out
        for k, st in enumerate(stmts):
            rest = stmts[k + 1:]
            kind = st[0]
            if kind == "if":
                _, c, th, el = st
                pat = self.cond_pattern(c, env, alias)
                if pat is None:
                    raise OutOfGrammar("%s: condition not in grammar" % self.sig.name)
                var, pattern, sz_then = pat
                t1 = Exec.seq(self, th + rest, dict(env), dict(alias), dict(sz, **sz_then))
                t2 = Exec.seq(self, (el or []) + rest, dict(env), dict(alias), dict(sz))
                return wrap("match %s with\n      | %s => %s\n      | _ => %s\n      end" % (var, pattern, t1, t2))
            if kind == "return":
                if st[1] is not None and self.sig.ret != "real_t":
                    self.expr(st[1], env, alias, sz, binds, discard=True)      # `return f(...)` of a void call
                    retexpr = None
                else:
                    retexpr = self.expr(st[1], env, alias, sz, binds) if st[1] is not None else None
                parts = self.finish(env, alias, retexpr, sz)
                return wrap_tail(binds, parts, wrap)
            if kind == "throw":
                raise OutOfGrammar("%s: throw inside a composing default" % self.sig.name)
            if kind == "alias":
                if st[2][0] != "var":
                    raise OutOfGrammar("%s: reference to a non-variable" % self.sig.name)
                alias[st[1]] = st[2][1]
                continue
            if kind == "let":
                env[st[1]] = self.expr(st[2], env, alias, sz, binds)
                continue
            if kind == "do":
                self.expr(st[1], env, alias, sz, binds, discard=True)
                continue
            if kind == "assign":
                self.assign(st, env, alias, sz, binds)
                continue
            if kind == "for":
                self.loop(st, env, alias, sz, binds)
                continue
            raise OutOfGrammar("%s: statement %s" % (self.sig.name, kind))
        # fell off the end: void function
        if self.sig.ret == "real_t":
            raise OutOfGrammar("%s: control reaches the end of a non-void function" % self.sig.name)
        parts = self.finish(env, alias, None, sz)
        return wrap_tail(binds, parts, wrap)

    def cond_pattern(self, c, env, alias):
        """V.size() == 0 -> (V, '[]', {}) ; V.size() == 1 -> (V, '[V_0]', {V: V_0})"""
        if c[0] == "bin" and c[1] == "==" and c[3][0] == "num" and c[2][0] == "method" and c[2][2] == "size" and c[2][1][0] == "var":
            v = self.resolve(c[2][1][1], alias)
            ty, g = self.read(v, env, alias)
            if ty != "vec":
                return None
            if c[3][1] == "0":
                return (g, "[]", {})
            if c[3][1] == "1":
                e0 = gid(v) + "_0"
                return (g, "[%s]" % e0, {v: e0})
        return None

    def assign(self, st, env, alias, sz, binds):
        _, op, lhs, rhs = st
        if lhs[0] != "var":
            raise OutOfGrammar("%s: assignment target" % self.sig.name)
        name = self.resolve(lhs[1], alias)
        if any(n == name and t in IN_TYPES for t, n in self.sig.params):
            raise OutOfGrammar("%s: assignment to the input parameter %s" % (self.sig.name, name))
        if op == "=":
            env[name] = self.expr(rhs, env, alias, sz, binds)
            return
        lt, lg = self.read(name, env, alias)
        rt, rg = self.expr(rhs, env, alias, sz, binds)
        if op == "+=" and lt == "vec" and rt == "vec":
            env[name] = ("vec", "vadd %s %s" % (par(lg), par(rg)))
        elif op == "+=" and lt == "scal" and rt == "scal":
            env[name] = ("scal", "(%s + %s)" % (lg, rg))
        elif op == "-=" and lt == "vec" and rt == "vec":
            env[name] = ("vec", "vsub %s %s" % (par(lg), par(rg)))
        elif op == "-=" and lt == "scal" and rt == "scal":
            env[name] = ("scal", "(%s - %s)" % (lg, rg))
        elif op == "*=" and lt == "vec" and rt == "scal":
            env[name] = ("vec", "map (fun e => e * %s) %s" % (rg, par(lg)))
        else:
            raise OutOfGrammar("%s: %s %s %s" % (self.sig.name, lt, op, rt))

    def loop(self, st, env, alias, sz, binds):
        _, iv, bound, body = st
        # vectors indexed by the loop variable, in order of first appearance
        vecs = []
        def scan(n):
            if isinstance(n, (list, tuple)):
                if n and n[0] == "call" and len(n[2]) == 1 and n[2][0] == ("var", iv):
                    v = self.resolve(n[1], alias)
                    if v not in vecs:
                        vecs.append(v)
                for ch in n:
                    scan(ch)
        scan(body)
        # canonical order: the buffers written by the loop first, then the others (each group in order of appearance),
        # so that a re-association inside the loop body does not change the shape of the generated term
        written = [self.resolve(s_[2][1], alias) for s_ in body if s_[0] == "assign" and s_[2][0] == "call"]
        vecs = [v for v in vecs if v in written] + [v for v in vecs if v not in written]
        if not vecs or len(vecs) > 3:
            raise OutOfGrammar("%s: loop over %d vectors" % (self.sig.name, len(vecs)))
        if self.resolve(bound, alias) not in env:
            raise OutOfGrammar("%s: loop bound %s" % (self.sig.name, bound))
        start = {v: self.read(v, env, alias)[1] for v in vecs}
        lam = {v: "e%d" % (k + 1) for k, v in enumerate(vecs)}
        elem = dict(lam)                       # current value of V(i) inside the iteration
        mapf = {1: "map", 2: "map2", 3: "map3"}[len(vecs)]
        head = "fun %s =>" % " ".join(lam[v] for v in vecs)
        lists = " ".join(par(start[v]) for v in vecs)
        acc_terms, stores = {}, {}
        for s in body:
            if s[0] != "assign":
                raise OutOfGrammar("%s: loop body statement %s" % (self.sig.name, s[0]))
            _, op, lhs, rhs = s
            rt, rg = self.expr(rhs, env, alias, sz, binds, elem=(iv, elem))
            if rt != "scal":
                raise OutOfGrammar("%s: non-scalar in loop body" % self.sig.name)
            if lhs[0] == "var" and op == "+=":
                a = self.resolve(lhs[1], alias)
                if a in acc_terms or self.read(a, env, alias)[0] != "scal":
                    raise OutOfGrammar("%s: accumulator %s" % (self.sig.name, a))
                acc_terms[a] = rg
            elif lhs[0] == "call" and len(lhs[2]) == 1 and lhs[2][0] == ("var", iv) and op == "=":
                v = self.resolve(lhs[1], alias)
                elem[v] = rg
                stores[v] = rg
            else:
                raise OutOfGrammar("%s: loop body assignment" % self.sig.name)
        for a, term in acc_terms.items():
            env[a] = ("scal", "fold_left nadd (%s (%s %s) %s) %s" % (mapf, head, term, lists, par(env[a][1])))
        for v, term in stores.items():
            env[v] = ("vec", "%s (%s %s) %s" % (mapf, head, term, lists))

    def expr(self, e, env, alias, sz, binds, discard=False, elem=None):
        k = e[0]
        if k == "num":
            if e[1] in ("0", "0.0"): return ("scal", "n0")
            if e[1] in ("1", "1.0"): return ("scal", "n1")
            if e[1] == "2": return ("scal", "n2")
            if e[1] == "0.5": return ("scal", "half")
            raise OutOfGrammar("%s: literal %s" % (self.sig.name, e[1]))
        if k == "var":
            return self.read(e[1], env, alias)
        if k == "neg":
            t, g = self.expr(e[1], env, alias, sz, binds, elem=elem)
            if t != "scal": raise OutOfGrammar("negated vector")
            return ("scal", "(- %s)" % g)
        if k == "bin":
            op = e[1]
            lt, lg = self.expr(e[2], env, alias, sz, binds, elem=elem)
            rt, rg = self.expr(e[3], env, alias, sz, binds, elem=elem)
            if op in "+-*/" and lt == rt == "scal":
                return ("scal", "(%s %s %s)" % (lg, op, rg))
            if op == "*" and lt == "scal" and rt == "vec":
                return ("vec", "vscale %s %s" % (par(lg), par(rg)))
            if op == "*" and lt == "vec" and rt == "scal":
                return ("vec", "map (fun e => e * %s) %s" % (rg, par(lg)))
            if op == "/" and lt == "vec" and rt == "scal":
                return ("vec", "map (fun e => e / %s) %s" % (rg, par(lg)))
            if op == "+" and lt == rt == "vec":
                return ("vec", "vadd %s %s" % (par(lg), par(rg)))
            if op == "-" and lt == rt == "vec":
                return ("vec", "vsub %s %s" % (par(lg), par(rg)))
            raise OutOfGrammar("%s: %s %s %s" % (self.sig.name, lt, op, rt))
        if k == "call":
            name, args = e[1], e[2]
            if name == CALC:
                return self.vcall(CALC, args, env, alias, sz, binds, discard)
            v = self.resolve(name, alias)
            if len(args) == 1 and args[0][0] == "num" and args[0][1] == "0":      # V(0)
                if v in sz:
                    return ("scal", sz[v])
                vt, vg = self.read(v, env, alias)
                if vt != "vec":
                    raise OutOfGrammar("%s: %s(0) of a scalar" % (self.sig.name, v))
                return ("scal", "(nth 0 %s n0)" % par(vg))
            if elem and len(args) == 1 and args[0] == ("var", elem[0]):              # V(i)
                return ("scal", elem[1][v])
            raise OutOfGrammar("%s: call %s" % (self.sig.name, name))
        if k == "method":
            obj, mname, args = e[1], e[2], e[3]
            if obj == ("var", "vtable"):
                return self.vcall(mname, args, env, alias, sz, binds, discard)
            ot, og = self.expr(obj, env, alias, sz, binds, elem=elem)
            if mname == "dot" and len(args) == 1 and ot == "vec":
                at, ag = self.expr(args[0], env, alias, sz, binds, elem=elem)
                return ("scal", "vdot %s %s" % (par(og), par(ag)))
            if mname == "cwiseQuotient" and len(args) == 1 and ot == "vec":
                at, ag = self.expr(args[0], env, alias, sz, binds, elem=elem)
                return ("vec", "vdiv %s %s" % (par(og), par(ag)))
            raise OutOfGrammar("%s: method .%s" % (self.sig.name, mname))
        raise OutOfGrammar("%s: expression %s" % (self.sig.name, k))

    def vcall(self, callee, args, env, alias, sz, binds, discard):
        if callee not in self.sigs:
            raise OutOfGrammar("%s: call of unknown entry %s" % (self.sig.name, callee))
        cs = self.sigs[callee]
        args = list(args)
        if not args or args[0] != ("var", "self"):
            raise OutOfGrammar("%s: call of %s does not pass self first" % (self.sig.name, callee))
        args = args[1:]
        if args and args[-1] == ("var", "vtable"):
            args = args[:-1]
        if len(args) != len(cs.params):
            raise OutOfGrammar("%s: call of %s with %d arguments" % (self.sig.name, callee, len(args)))
        ins, outs = [], []
        for (t, n), a in zip(cs.params, args):
            if t in IN_TYPES or n in cs.inout:
                at, ag = self.expr(a, env, alias, sz, binds)
                if at != vtype(t):
                    raise OutOfGrammar("%s: argument kind for %s of %s" % (self.sig.name, n, callee))
                ins.append(par(ag))
            if t in OUT_TYPES:
                if a[0] != "var":
                    raise OutOfGrammar("%s: output argument of %s is not a variable" % (self.sig.name, callee))
                if self.resolve(a[1], alias) not in env:
                    raise OutOfGrammar("%s: output argument %s of %s is not a declared buffer" % (self.sig.name, a[1], callee))
                outs.append((n, self.resolve(a[1], alias)))
        r = self.fresh()
        fname = "gcalc" if callee == CALC else "gvt_" + gid(callee)
        binds.append((r, "%s %s" % (fname, " ".join(ins))))
        comps = cs.result_comps()
        res = None
        for k_, (kind, n) in enumerate(comps):
            g = proj(r, k_, len(comps))
            if kind == "ret":
                res = ("scal", g)
            else:
                target = [tv for (pn, tv) in outs if pn == n][0]
                env[target] = ("vec", g)
        for pn, tv in outs:
            if cs.is_scratch(pn):
                env[tv] = ("vec", "<scratch>")
        if res is None:
            if not discard:
                raise OutOfGrammar("%s: value of void call %s used" % (self.sig.name, callee))
            return ("scal", "tt")
        return res


def par(g):
    return g if re.fullmatch(r"[\w']+", g) else "(%s)" % g


def wrap_tail(binds, parts, wrap):
    """ret (tuple) — or, when the tuple is exactly the result of the last call, that call itself (tail call)"""
    if binds:
        v, call = binds[-1]
        n = len(parts)
        if parts == [proj(v, k, n) for k in range(n)] and not any(re.search(r"\b%s\b" % v, c) for _, c in binds[:-1]):
            out = call
            for v2, c2 in reversed(binds[:-1]):
                out = "%s <- %s ;;\n      %s" % (v2, c2, out)
            return out
    return wrap("ret %s" % par(tuple_of(parts)))


def gallina_type(sig):
    comps = sig.result_comps()
    ts = ["T" if k == "ret" else "list T" for k, _ in comps]
    return " * ".join(ts) if ts else "unit"


def gen_functions(hdr, funs):
    """Gallina text of calc, the seven combined defaults (+ vtable entries), eval_hess_ψ_prod; and the call graph"""
    fields = {f["name"]: f for f in hdr["fields"]}
    sigs = {}
    for n, f in fields.items():
        if n in BIND:
            sigs[n] = Sig(n, f["ret"], f["params"])
    if CALC not in hdr["statics"]:
        raise OutOfGrammar("static declaration of %s not found" % CALC)
    sigs[CALC] = Sig(CALC, hdr["statics"][CALC]["ret"], hdr["statics"][CALC]["params"])
    parsed = {}
    for n in [CALC] + ["default_" + g for g in GENERATED]:
        if n not in funs:
            raise OutOfGrammar("definition of %s not found in the .tpp" % n)
        txt, strs = protect_strings(funs[n]["body"])
        parsed[n] = (parse_body(txt), strs)
        # parameter names of the definition replace those of the declaration (the body refers to them)
        key = CALC if n == CALC else n[len("default_"):]
        dparams = [(t, nm) for t, nm in funs[n]["params"]]
        decl = sigs[key]
        dfilt = [(t, nm) for t, nm in dparams if nm not in ("self", "vtable") and t not in ("void *", "ProblemVTable")]
        if [t for t, _ in dfilt] != [t for t, _ in decl.params]:
            raise OutOfGrammar("%s: parameter types of the definition differ from the vtable signature" % n)
        if key != CALC:
            # scratch-ness is a property of the DECLARED interface names (work_n / work_m)
            for (t, dn), (_, vn) in zip(dfilt, decl.params):
                if decl.is_scratch(vn) and dn is not None and not dn.startswith("work_"):
                    raise OutOfGrammar("%s: scratch parameter renamed" % n)
    # order: callees first
    graph = {}
    for n, (stmts, strs) in parsed.items():
        key = CALC if n == CALC else n[len("default_"):]
        graph[key] = [c[1] for c in calls_in(stmts, [])]
    order, state = [], {}
    def visit(k, stack):
        if state.get(k) == 2 or k not in graph:
            return
        if state.get(k) == 1:
            raise OutOfGrammar("cyclic default composition through %s" % " -> ".join(stack + [k]))
        state[k] = 1
        for c in graph[k]:
            visit(c, stack + [k])
        state[k] = 2
        order.append(k)
    for k in graph:
        visit(k, [])
    out = []
    # required entries and user-provided optional entries that are only CALLED
    req = [n for n in ("eval_f", "eval_grad_f", "eval_g", "eval_grad_g_prod", "eval_proj_diff_g")]
    for n in req:
        if n not in fields or not fields[n]["required"]:
            raise OutOfGrammar("%s is no longer a required vtable entry" % n)
        s = sigs[n]
        ins = " ".join("(%s : %s)" % (gid(p), "list T" if vtype(t) == "vec" else "T") for t, p in s.input_params())
        out.append("  Definition gvt_%s %s : M (%s) := call %s (%s %s)." % (gid(n), ins, gallina_type(s), BIND[n][0], BIND[n][1],
                                                                          " ".join(gid(p) for _, p in s.input_params())))
    texts = {}
    for key in order:
        if key in req or (key != CALC and key not in GENERATED):
            continue
        n = CALC if key == CALC else "default_" + key
        stmts, strs = parsed[n]
        s = sigs[key]
        # use the DEFINITION's parameter names
        dfilt = [(t, nm) for t, nm in funs[n]["params"] if nm not in ("self", "vtable") and t not in ("void *", "ProblemVTable")]
        declnames = [nm for _, nm in s.params]
        s.params = [(t, dn if dn is not None else "unused_%d" % i) for i, (t, dn) in enumerate(dfilt)]
        scratch = set(dn for (t, dn), vn in zip(s.params, declnames) if vn is not None and vn.startswith("work_"))
        s.is_scratch = (lambda sc: (lambda nm: nm in sc))(scratch)
        ex = Exec(sigs, s, strs)
        body = ex.run(stmts)
        ins = " ".join("(%s : %s)" % (gid(p) + ("_in" if p in s.inout else ""), "list T" if vtype(t) == "vec" else "T") for t, p in s.input_params())
        argnames = " ".join(gid(p) + ("_in" if p in s.inout else "") for t, p in s.input_params())
        if key == CALC:
            out.append("  Definition gcalc %s : M (%s) :=\n      %s." % (ins, gallina_type(s), body))
        else:
            out.append("  Definition gdef_%s %s : M (%s) :=\n      %s." % (gid(key), ins, gallina_type(s), body))
            uins = " ".join(gid(p) for t, p in s.params if t in IN_TYPES)
            out.append("  Definition gvt_%s %s : M (%s) :=\n      if prov %s then call %s (%s %s) else gdef_%s %s." % (
                gid(key), ins, gallina_type(s), BIND[key][0], BIND[key][0], BIND[key][1], uins, gid(key), argnames))
        texts[key] = body
    return "\n".join(out), graph, {k: sorted(sigs[k].inout) for k in sigs}


def gen_hess(hdr, funs):
    """eval_hess_ψ_prod: Conditional default `if (vtable.m == 0 && vtable.F != [..]default_F) return vtable.F(self, args, vtable); throw ...`"""
    n = "default_eval_hess_ψ_prod"
    if n not in funs:
        raise OutOfGrammar("%s not found" % n)
    txt, strs = protect_strings(funs[n]["body"])
    st = parse_body(txt)
    if len(st) != 2 or st[0][0] != "if" or st[1][0] != "throw" or st[0][3] is not None or len(st[0][2]) != 1 or st[0][2][0][0] != "return":
        raise OutOfGrammar("%s: not `if (...) return ...; throw ...;`" % n)
    c = st[0][1]
    conj = []
    def flat(e):
        if e[0] == "bin" and e[1] == "&&":
            flat(e[2]); flat(e[3])
        else:
            conj.append(e)
    flat(c)
    m0 = ("bin", "==", ("field", ("var", "vtable"), "m"), ("num", "0"))
    has_m0 = m0 in conj
    others = [e for e in conj if e != m0]
    if len(others) != 1 or not (others[0][0] == "bin" and others[0][1] == "!=" and others[0][2][0] == "field" and
                                others[0][2][1] == ("var", "vtable") and others[0][3][0] == "var"):
        raise OutOfGrammar("%s: guard is not `[vtable.m == 0 &&] vtable.F != default_F`" % n)
    tested = others[0][2][2]
    dflt = others[0][3][1].split("::")[-1]
    ret = st[0][2][0][1]
    if not (ret and ret[0] == "method" and ret[1] == ("var", "vtable")):
        raise OutOfGrammar("%s: guarded statement is not a vtable call" % n)
    callee, args = ret[2], ret[3]
    if dflt != "default_" + tested or callee != tested or tested != "eval_hess_L_prod":
        raise OutOfGrammar("%s: tests %s against %s but calls %s" % (n, tested, dflt, callee))
    dparams = [nm for t, nm in funs[n]["params"] if nm not in ("self", "vtable", None)]
    anames = [a[1] if a[0] == "var" else "<expr>" for a in args]
    if anames[:1] != ["self"] or anames[-1:] != ["vtable"]:
        raise OutOfGrammar("%s: call does not pass self ... vtable" % n)
    anames = anames[1:-1]
    csig = {f["name"]: f for f in hdr["fields"]}[callee]
    cins = [(t, nm) for t, nm in csig["params"] if t in IN_TYPES]
    couts = [(t, nm) for t, nm in csig["params"] if t in OUT_TYPES]
    if len(anames) != len(csig["params"]):
        raise OutOfGrammar("%s: argument count of %s" % (n, callee))
    in_args = [gid(a) for (t, nm), a in zip(csig["params"], anames) if t in IN_TYPES]
    thrown = strs[int(st[1][1][2][0][1][4:])] if st[1][1][0] == "call" and st[1][1][2] and st[1][1][2][0][0] == "var" and st[1][1][2][0][1].startswith("STR_") else "<other>"
    me = {f["name"]: f for f in hdr["fields"]}["eval_hess_ψ_prod"]
    my_in = [(t, nm) for t, nm in funs[n]["params"] if t in IN_TYPES]
    # unnamed parameters of the definition (e.g. the unused Σ) get the vtable signature's name
    names = []
    sigin = [(t, nm) for t, nm in me["params"]]
    k = 0
    allp = [(t, nm) for t, nm in funs[n]["params"] if nm not in ("self", "vtable") and t not in ("void *", "ProblemVTable")]
    for (t, nm), (_, vn) in zip(allp, sigin):
        if t in IN_TYPES:
            names.append((t, nm if nm is not None else vn))
    ins = " ".join("(%s : %s)" % (gid(nm), "list T" if vtype(t) == "vec" else "T") for t, nm in names)
    text = ("  Definition gvt_eval_hess_psi_prod (m : nat) %s : M (option (list T)) :=\n"
            "      if prov %s then call %s (Some (%s %s))\n"
            "      else if %s prov %s then call %s (Some (%s %s)) else ret None." % (
                ins, BIND["eval_hess_ψ_prod"][0], BIND["eval_hess_ψ_prod"][0], BIND["eval_hess_ψ_prod"][1], " ".join(gid(nm) for _, nm in names),
                "Nat.eqb m 0 &&" if has_m0 else "", BIND[callee][0], BIND[callee][0], BIND[callee][1], " ".join(in_args)))
    return text, thrown


# ----------------------------------------------------------------------------- CasADi loader call sites

ROLE = {"x.data()": "x", "param.data()": "p", "y.data()": "y", "Σ.data()": "Σ", "&scale": "s", "v.data()": "v",
        "this->D.lowerbound.data()": "zl", "this->D.upperbound.data()": "zu"}
ROLE_DIM = {"x": "n", "p": "p", "y": "m", "Σ": "m", "s": "1", "v": "n", "zl": "m", "zu": "m"}


def account_casadi(tpp, loads, calls):
    """consume-everything for the CasADi part: (1) every entry of the CasADiFunctionsWithParam{...} initialiser is a dimension, the
    moved `g`, or one of the parsed loads (with its output dimensions: fixed text per function); (2) every member function that
    evaluates a loaded function has one of the known bodies around its call site"""
    K = strict.lit
    try:
        m = re.search(r"CasADiFunctionsWithParam\s*\{", tpp[tpp.index("std::make_unique<CasADiFunctionsWithParam>"):])
        i = tpp.index("std::make_unique<CasADiFunctionsWithParam>") + m.end() - 1
        ents, cur, dep = [], "", 0
        for ch in tpp[i + 1:balanced(tpp, i) - 1]:            # top-level commas (template argument lists count as brackets here)
            dep += ch in "([{<"
            dep -= ch in ")]}>"
            if ch == "," and dep == 0:
                ents.append(cur); cur = ""
            else:
                cur += ch
        ents = [e for e in ents + [cur] if e.strip()]
        seen, order = [], []
        for e in ents:
            e = " ".join(e.split())
            order.append(re.match(r"\.(%s) =" % ID, e).group(1) if re.match(r"\.(%s) =" % ID, e) else e)
            lm = re.fullmatch(r"\.(%s) = (?:wrapped_load|try_load)<CasADiFunctionEvaluator<Conf, ?\d+, ?\d+>>\( ?loader, ?\"\w+\", ?dims\(.*\), ?dims\((.*)\)\)" % ID, e)
            if lm:
                seen.append(lm.group(1))
                if "".join(lm.group(2).split()) != CASADI_OUT_DIMS.get(lm.group(1)):
                    raise OutOfGrammar("casadi load of %s: output dimensions %r" % (lm.group(1), lm.group(2)))
            elif e not in (".n = n", ".m = m", ".p = p", ".g = std::move(g)"):
                raise OutOfGrammar("casadi: entry %r of the function table initialiser" % e[:60])
        if order != CASADI_TABLE_ORDER:
            raise OutOfGrammar("casadi: members initialised %s, known %s" % (order, CASADI_TABLE_ORDER))
        if seen != list(loads) or seen != list(CASADI_OUT_DIMS):
            raise OutOfGrammar("casadi: loads in the initialiser %s, parsed %s, known %s" % (seen, list(loads), list(CASADI_OUT_DIMS)))
        # a required function (wrapped_load) is called directly, an optional one (try_load) through the pointer after a guard
        CALL = r"(\(\*impl->(?:%s)\)|impl->(?:%s))\s*\(\{[^{}]*\},\s*\{([^{}]*)\}\);" % (ID, ID)
        fun_of = lambda c: re.sub(r"[()*]|impl->", "", c.group(1))
        direct = lambda c: not c.group(1).startswith("(")
        n_sites = 0
        for fm in re.finditer(r"CasADiProblem<Conf>::(%s)\s*\(" % ID, tpp):
            j = balanced(tpp, fm.end() - 1, "(", ")")
            k = tpp.find("{", j)
            semi = tpp.find(";", j)
            if k < 0 or 0 <= semi < k:
                continue
            body = tpp[k + 1:balanced(tpp, k) - 1]
            if not re.search(r"impl->%s\)?\s*\(\s*\{" % ID, body):
                continue
            st = strict.split_statements(body)
            n_sites += len(re.findall(r"impl->%s\)?\s*\(\s*\{" % ID, body))
            returns_value = re.search(r"->\s*real_t\s*$", tpp[j:k]) is not None or re.search(r"\breal_t\s*$", tpp[max(0, fm.start() - 80):fm.start()]) is not None
            ok = False
            d = re.fullmatch(r"real_t (%s);" % ID, st[0]) if st else None
            g = re.fullmatch(r"if \(!impl->(%s)\) throw std::logic_error\(\"[^\"]*\"\);" % ID, st[0]) if st else None
            if d and len(st) == (3 if returns_value else 2):             # real_t v; impl->F({..}, {&v ..}); [return v;  iff the function returns a value]
                c = re.fullmatch(CALL, st[1])
                ok = bool(c) and direct(c) and re.match(r"&%s\b" % re.escape(d.group(1)), c.group(2).strip()) is not None and \
                    (len(st) == 2 or st[2] == "return %s;" % d.group(1))
            elif g and len(st) == 2 and not returns_value:                # if (!impl->F) throw ..; (*impl->F)({..}, {..});
                c = re.fullmatch(CALL, st[1])
                ok = bool(c) and not direct(c) and fun_of(c) == g.group(1) and "&" not in c.group(2)
            elif g and len(st) == 4 and returns_value:                    # if (!impl->F) throw ..; real_t v; (*impl->F)({..}, {&v, ..}); return v;
                d2 = re.fullmatch(r"real_t (%s);" % ID, st[1])
                c = re.fullmatch(CALL, st[2])
                ok = bool(d2) and bool(c) and not direct(c) and fun_of(c) == g.group(1) and re.match(r"&%s\b" % re.escape(d2.group(1)), c.group(2).strip()) is not None \
                    and st[3] == "return %s;" % d2.group(1)
            elif len(st) == 2 and (re.fullmatch(K("if (impl->m == 0) return;"), st[0]) or
                                   re.fullmatch(r"if \(impl->m == 0\) \{ %s\.setZero\(\); return; \}" % ID, st[0])):
                c = re.fullmatch(r"if \(impl->(%s)\) %s else throw not_implemented_error\(\"[^\"]*\"\);" % (ID, CALL), st[1])
                ok = bool(c) and not returns_value and c.group(2) == "(*impl->%s)" % c.group(1) and "&" not in c.group(3)
            if not ok:
                raise OutOfGrammar("casadi: body of CasADiProblem::%s is not one of the known shapes around its call site" % fm.group(1))
        if n_sites != len(calls):
            raise OutOfGrammar("casadi: %d call sites parsed, %d inside accounted member functions" % (len(calls), n_sites))
    except (strict.Unaccounted, ValueError, IndexError) as ex:
        raise OutOfGrammar("casadi: %s" % ex)


# output dimensions of the loaded functions (not part of casadi_calls; fixed text, checked)
CASADI_OUT_DIMS = {"f": "1", "f_grad_f": "1,n", "grad_g_prod": "n", "jac_g": "dim(m,n)", "grad_L": "n", "hess_L_prod": "n", "hess_L": "dim(n,n)",
                   "ψ": "1,m", "ψ_grad_ψ": "1,n", "hess_ψ_prod": "n", "hess_ψ": "dim(n,n)"}


CASADI_TABLE_ORDER = ["n", "m", "p", "f", "f_grad_f", "g", "grad_g_prod", "jac_g", "grad_L", "hess_L_prod", "hess_L", "ψ", "ψ_grad_ψ", "hess_ψ_prod", "hess_ψ"]


def parse_casadi(tpp, py):
    tpp = re.sub(r"#if 0.*?#else", "", strip_comments(tpp), flags=re.S)
    loads = {}
    for m in re.finditer(r"\.(%s)\s*=\s*(?:wrapped_load|try_load)<CasADiFunctionEvaluator<Conf,\s*(\d+),\s*(\d+)>>\(\s*loader,\s*\"(\w+)\",\s*dims\(" % ID, tpp):
        j = balanced(tpp, m.end() - 1, "(", ")")
        loads[m.group(1)] = dict(nin=int(m.group(2)), nout=int(m.group(3)), loaded=m.group(4), dims=split_args(tpp[m.end():j - 1]))
    calls = []
    for m in re.finditer(r"\(?\*?\s*impl->(%s)\)?\s*\(\s*\{" % ID, tpp):
        if m.group(1) in ("n", "m", "p"):
            continue
        j = balanced(tpp, m.end() - 1)
        args = [re.sub(r"\s+", "", a) for a in split_args(tpp[m.end():j - 1])]
        # enclosing member function
        hm = list(re.finditer(r"CasADiProblem<Conf>::(%s)\s*\(" % ID, tpp[:m.start()]))
        calls.append(dict(member=hm[-1].group(1) if hm else "?", fun=m.group(1), roles=[ROLE.get(a, "<%s>" % a) for a in args]))
    account_casadi(tpp, loads, calls)
    decl = {}
    for m in re.finditer(r"cs\.Function\(\s*\"(\w+)\"\s*,", py):
        j = balanced(py, py.rfind("(", 0, m.end()), "(", ")")
        parts = split_args(py[m.end():j - 1])
        if len(parts) >= 3:
            names = re.findall(r"\"([^\"]+)\"|\*xp_names", parts[2])
            lst = []
            for nm in re.finditer(r"\*xp_names|\"([^\"]+)\"", parts[2]):
                lst += ["x", "p"] if nm.group(0) == "*xp_names" else [nm.group(1)]
            decl.setdefault(m.group(1), lst)      # first declaration = the NLP generator (the OCP generator comes later)
    return loads, calls, decl


# ----------------------------------------------------------------------------- Coq output

def cs_(s):
    return '"' + s.replace('"', '""') + '"'

def co(s):
    return "None" if s is None else "(Some %s)" % cs_(s)

def cl(items):
    return "[" + "; ".join(items) + "]"


def generate(repo):
    rd = lambda rel: open(os.path.join(repo, rel), encoding="utf-8").read()
    hdr = parse_header(rd(HPP))
    funs = tpp_functions(rd(TPP))
    # table of defaults
    kinds = {}
    for n, f in funs.items():
        if not n.startswith("default_"):
            continue
        txt, strs = protect_strings(f["body"])
        kinds[n[len("default_"):]] = classify(n, parse_body(txt), strs)
        if n[len("default_"):] not in GENERATED and n != "default_eval_hess_ψ_prod":        # those are translated statement by statement
            pin_default(n, parse_body(txt), strs, f["params"])
    gtext, graph, inout = gen_functions(hdr, funs)
    htext, hthrown = gen_hess(hdr, funs)
    status = dict(out_of_grammar=[], fields=len(hdr["fields"]), defaults=len(kinds), graph=graph, inout={k: v for k, v in inout.items() if v})
    try:
        loads, calls, decl = parse_casadi(rd(CAS), rd(CASPY))
        status["casadi_calls"] = len(calls)
    except (OSError, OutOfGrammar, ValueError) as ex:
        loads, calls, decl = {}, [], {}
        status["out_of_grammar"].append("casadi: %s" % ex)
    L = []
    L.append("(* GENERATED by translate/gen_C04_vtable.py from %s — do not edit. *)" % repo.replace("*)", "* )"))
    L.append("From Coq Require Import String List ZArith Bool.\nFrom Alpaqa Require Import Num Vec Prox AugLag Vtable.\nImport ListNotations.\n")
    L.append("Local Open Scope string_scope.")
    rows = []
    for f in hdr["fields"]:
        n = f["name"]
        k = kinds.get(n)
        if k is None:
            kt = "None"
        elif k[0] == "DThrows":
            kt = "(Some (DThrows %s))" % cs_(k[2])
        elif k[0] == "DConditional":
            kt = "(Some (DConditional %s %s))" % (cl([cs_(c) for c in k[1]]), cs_(k[2]))
        elif k[0] == "DComposes":
            kt = "(Some (DComposes %s))" % cl([cs_(c) for c in k[1]])
        else:
            kt = "(Some %s)" % k[0]
        pv = hdr["provides"].get(n)
        rows.append("\n   mkVM %s %s %s %s %s %s" % (cs_(n), "true" if f["required"] else "false", co(f["default"]),
                                                   cl([cs_(c) for c in hdr["ctor"].get(n, [])]), kt,
                                                   "None" if pv is None else "(Some (%s, %s))" % (cs_(pv[0]), cs_(pv[1]))))
    L.append("Definition vtable_methods : list vmethod :=\n  %s.\n" % cl(rows))
    L.append("Definition vtable_ctor_names : list string := %s.\n" % cl([cs_(n) for n in hdr["ctor"]]))
    L.append("Definition vtable_provides_names : list string := %s.\n" % cl([cs_(n) for n in hdr["provides"]]))
    L.append("Definition vtable_supports : list (string * (string * string)) :=\n  %s.\n" %
             cl(["(%s, (%s, %s))" % (cs_(n), cs_(a), cs_(b)) for n, (a, b) in hdr["supports"].items()]))
    L.append("Definition vtable_forwarders : list (string * list string * string * list string) :=\n  %s.\n" %
             cl(["\n   (%s, %s, %s, %s)" % (cs_(n), cl([cs_(p or "") for p in ps]), cs_(c), cl([cs_(a) for a in as_])) for n, ps, c, as_ in hdr["forwarders"]]))
    # call sites of the composing defaults: (default, callee, passes-vtable?, argument names)
    sites = []
    for n, f in funs.items():
        if not n.startswith("default_") and n != CALC:
            continue
        txt, strs = protect_strings(f["body"])
        for _, callee, args in calls_in(parse_body(txt), []):
            an = [a[1] if a[0] == "var" else "<expr>" for a in args]
            sites.append("\n   (%s, %s, %s, %s)" % (cs_(n), cs_(callee), "true" if an[-1:] == ["vtable"] else "false", cl([cs_(a) for a in an])))
    L.append("Definition vtable_call_sites : list (string * string * bool * list string) :=\n  %s.\n" % cl(sites))
    L.append("Definition hess_psi_prod_thrown : string := %s.\n" % cs_(hthrown))
    crow = []
    for c in calls:
        ld = loads.get(c["fun"], dict(nin=-1, nout=-1, loaded="<not loaded>", dims=[]))
        crow.append("\n   mkCas %s %s %s (%d)%%Z %s %s %s" % (cs_(c["member"]), cs_(c["fun"]), cs_(ld["loaded"]), ld["nin"], cl([cs_(r) for r in c["roles"]]),
                                                       cl([cs_(d) for d in ld["dims"]]), cl([cs_(d) for d in decl.get(ld["loaded"], ["<no declaration>"])])))
    L.append("Definition casadi_calls : list cascall :=\n  %s.\n" % cl(crow))
    L.append("Local Close Scope string_scope.\n")
    L.append("Section Gen.\n  Context {T : Type} `{Num T}.\n  Local Open Scope num_scope.\n  Variable P : problem (T:=T).\n  Variable prov : fn -> bool.\n")
    L.append(gtext)
    L.append(htext)
    L.append("End Gen.")
    return "\n".join(L) + "\n", status


def write(repo=None, verif=None):
    """returns status dict; status['status'] = 'ok' | 'translator-out-of-grammar' (reference text written)"""
    repo = repo or os.environ.get("VERIF_REPO", "/repo")
    verif = verif or VERIF
    outfile = os.path.join(os.environ.get("VERIF_GEN_OUT") or os.path.join(verif, "coq", "gen"), "VtableGen.v")
    try:
        txt, st = generate(repo)
        st["status"] = "ok"
    except (OutOfGrammar, OSError, UnicodeDecodeError, KeyError, IndexError, ValueError) as ex:
        ref = os.path.join(verif, "translate", "ref", "VtableGen.ref.v")
        txt = open(ref, encoding="utf-8").read()
        txt = txt.replace("(* GENERATED", "(* REFERENCE text (source out of grammar: %s)\n   GENERATED" % str(ex).replace("*)", "* )").replace("(*", "( *"), 1)
        st = dict(status="translator-out-of-grammar", out_of_grammar=[str(ex)])
    os.makedirs(os.path.dirname(outfile), exist_ok=True)
    old = open(outfile, encoding="utf-8").read() if os.path.exists(outfile) else None
    if old != txt:
        open(outfile, "w", encoding="utf-8").write(txt)
    return st


if __name__ == "__main__":
    repo = sys.argv[1] if len(sys.argv) > 1 else os.environ.get("VERIF_REPO", "/repo")
    if "--ref" in sys.argv:
        txt, st = generate(repo)
        os.makedirs(os.path.join(VERIF, "translate", "ref"), exist_ok=True)
        open(os.path.join(VERIF, "translate", "ref", "VtableGen.ref.v"), "w", encoding="utf-8").write(txt)
    st = write(repo)
    print(json.dumps(st, ensure_ascii=False)[:1500])
