#!/usr/bin/env python3
"""run every translator (translate/gen_*.py); prints one status line each; never fails the caller"""
import glob, os, subprocess, sys
here = os.path.dirname(os.path.abspath(__file__))
for f in sorted(glob.glob(os.path.join(here, "gen_*.py"))):
    p = subprocess.run([sys.executable, f], capture_output=True, text=True)
    print("%s rc=%d %s" % (os.path.basename(f), p.returncode, (p.stdout + p.stderr).strip()[-300:]))
