#!/usr/bin/env python3
"""gen_csv.py — translator G14b: alpaqa's CSV row reader regenerated as Gallina from the C++ on every run.

Reads   <repo>/src/alpaqa/include/alpaqa/implementation/util/io/csv.tpp
            struct CSVReader: the constants bufmaxsize and end, and the member functions of the reader state machine
            read_chunk, read_single (the std::from_chars branch), read, next_line, done
        <repo>/src/alpaqa/include/alpaqa/implementation/util/print.tpp
            float_to_str_vw (the std::to_chars branch): the sign rule and WHICH type's max_digits10 is the default precision
writes  coq/gen/CsvGen.v over the stream model of coq/theories/Csv.v and the helpers of coq/theories/CsvGenLib.v.
coq/theories/CsvGenEq.v proves every generated piece equal to the corresponding piece of the hand model Csv.v.

Engine and grammar: translate/impexec.py.  Conventions of this client:
  * the reader object stays as in the C++: the array `s` (a list; stale beyond bufidx), `bufidx`, `keep_reading`; a `char *` is an
    offset from s.data(); `*p` is `cnth s p`; std::copy(a, b, s.data()) is `cmove s a b`;
  * the stream `is` is a value of Csv.stream: `!is` is failbit, is.eof() eofbit; is.peek() / is.get() / is.get(p, n, end) are
    s_peek / s_get1 / s_getn and REBIND `is` (effects are emitted in evaluation order; the right operand of && / || is only
    evaluated — and its effects only happen — when the left one does not decide); is.gcount() is the length of the last get;
  * std::from_chars is the parameter `fchars : list ascii -> fc_result V` (ok / invalid_argument / result_out_of_range with the
    characters consumed); `F v;` is the parameter `garbage`;
  * `throw read_error("csv::read_row <what> ..")` is the error constructor of Csv.err named by <what>; a member function that can
    throw returns (stream at that moment, error or result): `cres`.
A unit that leaves the grammar is replaced by its block of the committed reference text translate/ref/CsvGen.ref.v and reported as
`translator-out-of-grammar` (never a violation by itself).

Usage: gen_csv.py [repo] [outfile] [--write-ref]      Prints one JSON status line."""
import json, os, re, sys
sys.path.insert(0, os.path.dirname(os.path.abspath(__file__)))
import symexec as sx
import impexec as ix
import gen_sparsity as gs
from symexec import OutOfGrammar
from impexec import Var, Ctx, gname, split_top, toks_text

HERE = os.path.dirname(os.path.abspath(__file__))
VERIF = os.path.dirname(HERE)
TPP = "src/alpaqa/include/alpaqa/implementation/util/io/csv.tpp"
PRINT = "src/alpaqa/include/alpaqa/implementation/util/print.tpp"
REF = os.path.join(HERE, "ref", "CsvGen.ref.v")

ERRORS = [("invalid stream", "EInvalidStream"), ("extraction failed", "EExtraction"), ("conversion failed", "EConversion"),
          ("unexpected character", "EUnexpected"), ("line not fully consumed", "ENotConsumed"), ("number longer than", "ETooLong")]
MEMBERS = [("s", "BUF"), ("bufidx", "N"), ("keep_reading", "B")]


def protect_literals(src):
    """string literals -> "S<k>" (texts kept), character literals -> CH__<code>"""
    strings = []

    def st(m):
        strings.append(m.group(0)[1:-1])
        return '"S%d"' % (len(strings) - 1)
    src = re.sub(r'"(?:[^"\\\n]|\\.)*"', st, src)

    def ch(m):
        body = m.group(1)
        code = {"\\n": 10, "\\0": 0, "\\t": 9, "\\\\": 92, "\\'": 39}.get(body)
        if code is None:
            if len(body) != 1:
                raise OutOfGrammar("character literal %r" % body)
            code = ord(body)
        return " CH__%d " % code
    src = re.sub(r"'((?:\\.|[^'\\]))'", ch, src)
    return src, strings


class Lang:
    GTYPE = {"N": "nat", "B": "bool", "P": "nat", "C": "ascii", "OC": "(option ascii)", "BUF": "(list ascii)", "STREAM": "stream", "V": "V",
             "EC": "bool"}
    INDEXABLE = ()
    INCR_TYPES = ("N", "P")
    MONAD_VARS = ("is",)

    def __init__(self, strings, consts, units, static, const_fn):
        self.strings, self.consts, self.units, self.static, self.const_fn = strings, consts, units, static, const_fn
        self.tmp = 0
        self.names = set(consts) | {"is", "s", "bufidx", "keep_reading"}       # names that may occur in a read_error message

    def fresh(self, base):
        self.tmp += 1
        return "%s%d" % (base, self.tmp)

    # ---- monad
    def m_ok(self, X, tup):
        return "(inr %s)" % tup if self.static else "(is, inr %s)" % tup

    def m_bind(self, X, expr, names, rest):
        if self.static:
            return "ebind (%s) (fun %s =>\n    %s)" % (expr, X.pat(names), rest)
        return "cbind (%s) (fun is %s =>\n    %s)" % (expr, X.pat(names), rest)

    # ---- types
    def literal_default(self, v, what):
        return ("N", self.coerce(v, "N", what))

    def coerce(self, e, want, what=""):
        t, s = e[0], e[1]
        if t == want:
            return s
        if t == "L" and want in ("N", "P") and e[2].denominator == 1 and e[2] >= 0:
            return "%d" % e[2].numerator
        if t == "STREAM" and want == "B":          # operator bool: !fail()
            return "(negb (failb %s))" % s
        if t == "N" and want == "P":
            return s
        raise OutOfGrammar("%s: type %s where %s expected (%s)" % (what, t, want, s))

    def unify(self, a, b, what):
        if a[0] == "L" and b[0] == "L":
            raise OutOfGrammar("%s: operation between two literals" % what)
        t = b[0] if a[0] == "L" else a[0]
        if b[0] not in ("L", t):
            raise OutOfGrammar("%s: operands of types %s and %s" % (what, a[0], b[0]))
        return t, self.coerce(a, t, what), self.coerce(b, t, what)

    def compare(self, op, a, b, what):
        if a[0] == "OC" and b[0] == "C" and op in ("==", "!="):
            e = "(oceq %s %s)" % (a[1], b[1])
            return ("B", e if op == "==" else "(negb %s)" % e)
        if {a[0], b[0]} <= {"N", "P", "L"} and a[0] != b[0] and "L" not in (a[0], b[0]):
            raise OutOfGrammar("%s: comparison of a pointer with a number" % what)
        t, x, y = self.unify(a, b, what)
        if t in ("N", "P"):
            return ("B", {"<": "(Nat.ltb %s %s)" % (x, y), ">": "(Nat.ltb %s %s)" % (y, x), "<=": "(Nat.leb %s %s)" % (x, y),
                          ">=": "(Nat.leb %s %s)" % (y, x), "==": "(Nat.eqb %s %s)" % (x, y), "!=": "(negb (Nat.eqb %s %s))" % (x, y)}[op])
        if t == "C" and op in ("==", "!="):
            e = "(Ascii.eqb %s %s)" % (x, y)
            return ("B", e if op == "==" else "(negb %s)" % e)
        if t in ("B", "EC") and op in ("==", "!="):
            e = "(Bool.eqb %s %s)" % (x, y)
            return ("B", e if op == "==" else "(negb %s)" % e)
        raise OutOfGrammar("%s: comparison %s on type %s" % (what, op, t))

    def arith(self, op, a, b, what):
        ta, tb = a[0], b[0]
        if ta == "P" and tb in ("N", "L") and op in "+-":
            return ("P", "(%s %s %s)" % ("Nat.add" if op == "+" else "Nat.sub", a[1], self.coerce(b, "N", what)))
        if ta == "P" and tb == "P" and op == "-":
            return ("N", "(Nat.sub %s %s)" % (a[1], b[1]))
        if ta in ("N", "L") and tb in ("N", "L") and op in "+-*":
            t, x, y = self.unify(a, b, what)
            return ("N", "(%s %s %s)" % ({"+": "Nat.add", "-": "Nat.sub", "*": "Nat.mul"}[op], x, y))
        raise OutOfGrammar("%s: operator %s on types %s, %s" % (what, op, ta, tb))

    def deref(self, e, what):
        if e[0] == "P":
            return ("C", "(cnth s %s)" % e[1])
        raise OutOfGrammar("%s: * on type %s" % (what, e[0]))

    def neg(self, e, what):
        raise OutOfGrammar("%s: unary minus" % what)

    def string(self, ex, v):
        raise OutOfGrammar("%s: string literal in an expression" % ex.what)

    # ---- names
    def atom(self, ex, name):
        m = re.fullmatch(r"CH__(\d+)", name)
        if m:
            return ("C", "(ascii_of_nat %s)" % m.group(1))
        if name in self.consts:
            return self.consts[name]
        return None

    def member(self, ex, e, m):
        raise OutOfGrammar("%s: member %s of type %s" % (ex.what, m, e[0]))

    def effect(self, X, line, writes, types=None):
        X.pending.append(line)
        for w in writes:
            if w not in X.pending_w:
                X.pending_w.append(w)
        if types:
            X.pending_t = dict(X.pending_t, **types)

    def method(self, ex, e, m, argt):
        X = ex.X
        if e[0] == "BUF":
            if m == "data" and not argt:
                return ("P", "0")
            if m == "front" and not argt:
                X.note("s")
                return ("C", "(cnth s 0)")
        if e[0] == "STREAM":
            X.note("is")
            if m == "eof" and not argt:
                return ("B", "(eofb is)")
            if m == "gcount" and not argt:
                if "gcount" not in ex.env.vars and "gcount" not in X.pending_w:
                    raise OutOfGrammar("%s: gcount() without a preceding get" % ex.what)
                X.note("gcount")
                return ("N", "gcount")
            if m == "peek" and not argt:
                t = self.fresh("pk")
                self.effect(X, "let '(%s, is) := s_peek is in" % t, ["is"])
                return ("OC", t)
            if m == "get" and not argt:
                t = self.fresh("gc")
                self.effect(X, "let '(%s, is) := s_get1 is in" % t, ["is"])
                return ("OC", t)
            if m == "get" and len(argt) == 3:
                p = self.coerce(ex.sub(argt[0]), "P", ex.what)
                n = self.coerce(ex.sub(argt[1]), "N", ex.what)
                d = ex.sub(argt[2])
                if d != self.consts.get("end"):
                    raise OutOfGrammar("%s: get() with a delimiter other than the newline constant `end`" % ex.what)
                X.note("s")
                t = self.fresh("got")
                self.effect(X, "let '(%s, is) := s_getn (Nat.pred %s) is in" % (t, n), ["is"])
                self.effect(X, "let s := cput s %s %s in" % (p, t), ["s"])
                self.effect(X, "let gcount := length %s in" % t, ["gcount"], {"gcount": "N"})
                return ("STREAM", "is")
        raise OutOfGrammar("%s: method %s on type %s" % (ex.what, m, e[0]))

    def index(self, ex, e, argt):
        raise OutOfGrammar("%s: index" % ex.what)

    def brace_init(self, ex, name, toks):
        if name == "std::errc" and not toks:
            return ("EC", "true")
        if name == "std::string" and toks:
            return ("STR", "")
        raise OutOfGrammar("%s: %s{...}" % (ex.what, name))

    def call(self, ex, name):
        if name == "static_cast__":
            a = ex.arg_tokens()
            if len(a) == 2 and a[0][0][1] in ("T__constchar_ptr", "T__char_ptr"):
                v = ex.sub(a[1])
                if v[0] == "P":
                    return v
            raise OutOfGrammar("%s: static_cast" % ex.what)
        return None

    def special_var(self, ex, name, var):
        return None

    # ---- effects in short-circuit operators: handled by wrapping Expr.land / lor (see CExpr below)

    # ---- statements
    def throw(self, X, toks):
        if not toks or toks[0] != ("id", "read_error"):
            raise OutOfGrammar("%s: throw of %r" % (X.what, toks_text(toks)[:40]))
        first = next((t[1] for t in toks if t[0] == "str"), None)
        if first is None:
            raise OutOfGrammar("%s: read_error without a message" % X.what)
        # the message expression is not translated, but every token of it is accounted for: a concatenation of literals and of
        # conversions of declared names
        for k_, v_ in toks[1:]:
            if k_ == "str" or (k_ == "op" and v_ in ("+", "(", ")", ".", ",", "{", "}", "*")):        # `std::string{*ptr}`
                continue
            if k_ == "id" and (v_ in ("std::string", "std::to_string", "std::make_error_code", "bad", "fail", "eof", "message") or v_ in self.names):
                continue
            raise OutOfGrammar("%s: %r in the message of a read_error" % (X.what, v_))
        msg = self.strings[int(first[2:-1])]
        for key, ctor in ERRORS:
            if key in msg:
                return "(inl %s)" % ctor if self.static else "(is, inl %s)" % ctor
        raise OutOfGrammar("%s: unknown read_error message %r" % (X.what, msg[:50]))

    def switch_arms(self, X, s, env, scrut=None):
        raise OutOfGrammar("%s: switch" % X.what)

    def stmt_kinds(self, X, s, env, lams):
        toks = s[1] if s[0] == "expr" else (s[3] if s[0] == "assign" else (s[3] or []))
        for t in toks:
            if t[0] == "id" and t[1] in self.units and self.units[t[1]]["throws"]:
                return {"fall", "throw"}
        return {"fall"}

    def decl(self, X, env, s, rest, ctx):
        _, ty, name, init, ref = s
        tname = ty[0][1]
        is_ptr = ("op", "*") in ty
        if name in env.vars and not (self.const_fn and name in dict(MEMBERS)):
            raise OutOfGrammar("%s: redeclaration of %s" % (X.what, name))
        self.names.add(name)
        if init is None:
            if tname == "F" and not is_ptr:
                X.note("garbage")
                return X.let(env, name, "V", "garbage", rest)
            raise OutOfGrammar("%s: declaration of %s without initialiser" % (X.what, name))
        if init and init[0] == ("id", "std::string_view"):
            # a view used in error messages only: exactly `std::string_view(bufbegin, bufend)`; its name may then occur in a throw
            if toks_text(init).replace(" ", "") != "std::string_view(bufbegin,bufend)" or tname != "auto":
                raise OutOfGrammar("%s: string view %r" % (X.what, toks_text(init)[:60]))
            self.names.add(name)
            return rest(env)
        if init and init[0][0] == "id" and init[0][1] in self.units:
            return self.unit_call(X, env, init, name, rest, ctx)
        e = X.ex(init, env)
        want = {"char": "P" if is_ptr else "C", "bool": "B", "auto": None, "std::streamsize": "N", "size_t": "N", "std::size_t": "N"}.get(tname, "?")
        if want == "?":
            raise OutOfGrammar("%s: declaration type %r" % (X.what, tname))
        if want is None:
            if e[0] == "L":
                raise OutOfGrammar("%s: auto %s = literal" % (X.what, name))
            want = e[0]
        return X.let(env, name, want, self.coerce(e, want, X.what), rest)

    def decl_tuple(self, X, env, s, rest, ctx):
        _, names, init = s
        if len(names) != 2 or not init or init[0] != ("id", "std::from_chars"):
            raise OutOfGrammar("%s: structured binding other than [ptr, ec] = std::from_chars(..)" % X.what)
        p = ix.Expr(init[1:], env, X)
        a = p.arg_tokens(); p.end()
        if len(a) != 3 or len(a[2]) != 1 or a[2][0][1] not in env.vars or env.vars[a[2][0][1]].ty != "V":
            raise OutOfGrammar("%s: from_chars arguments" % X.what)
        first = X.ex(a[0], env, "P")[1]
        last = X.ex(a[1], env, "P")[1]
        out = a[2][0][1]
        X.note("s"); X.note("fchars"); X.note(out)
        fr = self.fresh("fr")
        self.names.update(names)
        e1 = env.declare(names[0], Var("P")).declare(names[1], Var("EC")).wrote(out)
        return ("let %s := fchars (cslice s %s %s) in\n    let %s := (Nat.add %s (fc_adv %s)) in\n    let %s := fc_ok %s in\n    let %s := fc_val %s %s in\n    %s"
                % (fr, first, last, gname(names[0]), first, fr, gname(names[1]), fr, gname(out), fr, gname(out), rest(e1)))

    def unit_call(self, X, env, toks, result_name, rest, ctx):
        """call of another member function: `read_chunk(is);` / `T x = read_single(a, b, v);`"""
        name = toks[0][1]
        U = self.units[name]
        p = ix.Expr(toks[1:], env, X)
        argt = p.arg_tokens(); p.end()
        if len(argt) != len(U["params"]):
            raise OutOfGrammar("%s: arity of %s" % (X.what, name))
        args, outs = [], []
        for t, (pn, pty, byref) in zip(argt, U["params"]):
            if pty == "STREAM":
                if toks_text(t) != "is":
                    raise OutOfGrammar("%s: %s called on another stream" % (X.what, name))
                continue
            if byref:
                if len(t) != 1 or t[0][1] not in env.vars:
                    raise OutOfGrammar("%s: by-reference argument of %s" % (X.what, name))
                outs.append(t[0][1])
            args.append(self.coerce(X.ex(t, env), pty, X.what))
        pre, env = X.flush(env)
        for n in U["reads"]:
            X.note(n)
        res = ([result_name] if result_name else []) + outs + (U["writes"] if not U["static"] else [])
        e2 = env
        for n in res:
            e2 = e2.wrote(n) if n in e2.vars else e2.declare(n, Var(U["ret"])).wrote(n)
        call = "(%s)" % " ".join([U["gname"], "fchars"] + (["s"] if U["static"] else ["s", "bufidx", "keep_reading", "is"]) + args)
        if U["static"]:
            if not U["throws"]:
                return pre + "let %s := %s in\n    %s" % (X.pat(res), call, rest(e2))
            if self.static:
                return pre + "ebind %s (fun %s =>\n    %s)" % (call, X.pat(res), rest(e2))
            return pre + "clift is %s (fun %s =>\n    %s)" % (call, X.pat(res), rest(e2))
        e2 = e2.wrote("is")
        if U["throws"]:
            return pre + "cbind %s (fun is %s =>\n    %s)" % (call, X.pat(res), rest(e2))
        return pre + "let '(is, %s) := %s in\n    %s" % (X.tup(e2, res), call, rest(e2))

    def target(self, X, env, lhs):
        if len(lhs) == 1 and lhs[0][0] == "id" and lhs[0][1] in env.vars and env.vars[lhs[0][1]].kind == "val":
            return lhs[0][1], env.vars[lhs[0][1]].ty
        raise OutOfGrammar("%s: assignment to %r" % (X.what, toks_text(lhs)[:50]))

    def assign(self, X, env, lhs, op, rhs, rest, ctx):
        n, ty = self.target(X, env, lhs)
        e = X.ex(rhs, env)
        if op == "=":
            val = self.coerce(e, ty, X.what)
        elif op in ("+=", "-=") and ty == "N":
            X.note(n)
            val = self.arith(op[0], ("N", gname(n)), e, X.what)[1]
        else:
            raise OutOfGrammar("%s: assignment operator %s on type %s" % (X.what, op, ty))
        return X.let(env, n, ty, val, rest)

    def call_stmt(self, X, env, toks, rest, ctx):
        if toks and toks[0][0] == "id" and toks[0][1] in self.units:
            return self.unit_call(X, env, toks, None, rest, ctx)
        if toks and toks[0] == ("id", "std::copy"):
            a = split_top(toks[2:-1])
            if len(a) != 3 or toks_text(a[2]) != "s . data ( )":
                raise OutOfGrammar("%s: std::copy to another destination than s.data()" % X.what)
            first, last = X.ex(a[0], env, "P")[1], X.ex(a[1], env, "P")[1]
            X.note("s")
            return X.let(env, "s", "BUF", "(cmove s %s %s)" % (first, last), rest)
        raise OutOfGrammar("%s: call statement %r" % (X.what, toks_text(toks)[:60]))

    def while_(self, X, env, s, rest, ctx):
        raise OutOfGrammar("%s: while loop" % X.what)

    def for_range(self, X, env, s, rest, ctx):
        raise OutOfGrammar("%s: range-for" % X.what)


class CExpr(ix.Expr):
    """&& / || whose right operand has stream effects: those effects happen only when the left operand does not decide"""

    def shortcut(self, sub, op):
        a = sub()
        while self.at("op", op):
            self.eat()
            X = self.X
            n0 = len(X.pending)
            b = sub()
            at = self.L.coerce(a, "B", self.what)
            bt = self.L.coerce(b, "B", self.what)
            new = X.pending[n0:]
            if not new:
                a = ("B", "(%s %s %s)" % (at, op, bt))
                continue
            if any(not re.match(r"let '\(\w+, is\) := ", l) for l in new):
                raise OutOfGrammar("%s: effects other than on the stream in the right operand of %s" % (self.what, op))
            del X.pending[n0:]
            t = self.L.fresh("sc")
            inner = "\n    ".join(new) + "\n    (%s, is)" % bt
            if op == "&&":
                line = "let '(%s, is) := (if %s then\n    %s\n    else (false, is)) in" % (t, at, inner)
            else:
                line = "let '(%s, is) := (if %s then (true, is) else\n    %s) in" % (t, at, inner)
            self.L.effect(X, line, ["is"])
            a = ("B", t)
        return a

    def lor(self):
        return self.shortcut(self.land, "||")

    def land(self):
        return self.shortcut(self.equality, "&&")

    def sub(self, toks, env=None):
        p = CExpr(toks, env or self.env, self.X)
        e = p.expr()
        p.end()
        return e


class CExec(ix.Exec):
    def ex(self, toks, env, want=None):
        p = CExpr(toks, env, self)
        e = p.expr()
        p.end()
        if want:
            return (want, self.u.lang.coerce(e, want, self.what))
        return e


# ----------------------------------------------------------------------------- units

def load(repo):
    src = sx.strip_comments(open(os.path.join(repo, TPP), encoding="utf-8").read())
    src = ix.preprocess(src, {"__cpp_lib_to_chars": True, "ALPAQA_WITH_QUAD_PRECISION": False})
    src, strings = protect_literals(src)
    m = re.search(r"struct\s+CSVReader\s*\{", src)
    if not m:
        raise OutOfGrammar("struct CSVReader not found")
    e = sx.balanced(src, m.end() - 1, "CSVReader")
    body = src[m.end():e]
    consts = {}
    mm = re.search(r"static\s+constexpr\s+std::streamsize\s+bufmaxsize\s*=\s*(\d+)\s*;", body)
    if not mm:
        raise OutOfGrammar("bufmaxsize")
    consts["bufmaxsize"] = ("N", "g_bufmaxsize")
    bufmax = int(mm.group(1))
    mm = re.search(r"static\s+constexpr\s+char\s+end\s*=\s*CH__(\d+)\s*;", body)
    if not mm:
        raise OutOfGrammar("end")
    endc = int(mm.group(1))
    consts["end"] = ("C", "g_end")
    if endc != 10:
        raise OutOfGrammar("CSVReader::end is not the newline (the stream model's get / line structure is newline based)")
    return body, strings, consts, bufmax, endc


SIGS = {
    "read_chunk": dict(pattern=r"\bvoid\s+read_chunk\s*\(", params=[("is", "STREAM", True)], static=False, const=False, ret=None),
    "read_single": dict(pattern=r"static\s+const\s+char\s*\*\s*read_single\s*\(", params=[("bufbegin", "P", False), ("bufend", "P", False), ("v", "V", True)],
                        static=True, const=False, ret="P"),
    "read": dict(pattern=r"\bF\s+read\s*\(", params=[("is", "STREAM", True), ("sep", "C", False)], static=False, const=False, ret="V"),
    "next_line": dict(pattern=r"\bvoid\s+next_line\s*\(", params=[("is", "STREAM", True)], static=False, const=True, ret=None),
    "done": dict(pattern=r"\bbool\s+done\s*\(", params=[("is", "STREAM", True)], static=False, const=True, ret="B"),
}
PARAM_TEXT = {"read_chunk": "std::istream &is", "read_single": "const char *bufbegin, const char *bufend, F &v", "read": "std::istream &is, char sep",
              "next_line": "std::istream &is", "done": "std::istream &is"}


def unit_member(state, name):
    body, strings, consts, _, _ = state["src"]
    sig = SIGS[name]
    gn = "g_" + name
    ms = list(re.finditer(sig["pattern"], body))
    if len(ms) != 1:
        raise OutOfGrammar("%s: expected one definition, found %d" % (gn, len(ms)))
    k = sx.balanced(body, ms[0].end() - 1, gn)
    ptext = flat(body[ms[0].end():k])
    if ptext != flat(PARAM_TEXT[name]):
        raise OutOfGrammar("%s: parameters %r" % (gn, ptext))
    b = body.find("{", k)
    between = body[k + 1:b].strip()
    if between != ("const" if sig["const"] else ""):
        raise OutOfGrammar("%s: qualifiers %r" % (gn, between))
    e = sx.balanced(body, b, gn)
    ast = ix.parse_body(body[b + 1:e], gn)
    L = Lang(strings, consts, state["units"], sig["static"], sig["const"])
    u = ix.Unit(gn, L)
    X = CExec(u, gn)
    env = ix.Env()
    sigtxt = ["(fchars : list ascii -> fc_result V)"]
    env = env.declare("fchars", Var("FC"))
    env = env.declare("garbage", Var("V"))
    if sig["static"]:
        env = env.declare("s", Var("BUF"))
        sigtxt.append("(s : list ascii)")
    else:
        for n, t in MEMBERS:
            env = env.declare(n, Var(t))
            sigtxt.append("(%s : %s)" % (n, Lang.GTYPE[t]))
    for pn, pty, byref in sig["params"]:
        L.names.add(pn)
        env = env.declare(pn, Var(pty))
        sigtxt.append("(%s : %s)" % (gname(pn), Lang.GTYPE[pty]))
    throws = X.may_throw(ast, env)
    writes = []
    if not sig["static"] and not sig["const"]:
        writes = [n for n in X.writes(ast, env) if n in dict(MEMBERS)]
        writes = [n for n, _ in MEMBERS if n in writes]
    outs = [pn for pn, pty, byref in sig["params"] if byref and pty != "STREAM"]

    def shape(e2, r):
        comps = ([r] if r is not None else []) + [gname(o) for o in outs] + [gname(w) for w in writes]
        for c in outs + writes:
            X.note(c)
        t = "tt" if not comps else comps[0] if len(comps) == 1 else "(%s)" % ", ".join(comps)
        if sig["static"]:
            return "(inr %s)" % t if throws else t
        X.note("is")
        return "(is, inr %s)" % t if throws else "(is, %s)" % t

    def ret(e2, toks):
        if toks is None:
            if sig["ret"] is not None:
                raise OutOfGrammar("%s: bare return" % gn)
            pre, e2 = X.flush(e2)
            return pre + shape(e2, None)
        if sig["ret"] is None:
            raise OutOfGrammar("%s: value returned from a void function" % gn)
        v = L.coerce(X.ex(toks, e2), sig["ret"], gn)
        pre, e2 = X.flush(e2)
        return pre + shape(e2, v)

    def k_(e2):
        if sig["ret"] is not None:
            raise OutOfGrammar("%s: control reaches the end without return" % gn)
        return shape(e2, None)
    X.reads = set()
    body_g = X.block(ast, 0, env, k_, Ctx("O" if throws else "P", ret=ret))
    reads = X.reads
    G = Lang.GTYPE
    comps = ([G[sig["ret"]]] if sig["ret"] else []) + [G[dict((p[0], p[1]) for p in sig["params"])[o]] for o in outs] + [G[dict(MEMBERS)[w]] for w in writes]
    rt = "unit" if not comps else comps[0] if len(comps) == 1 else "(%s)%%type" % " * ".join(comps)
    if sig["static"]:
        rt = "(err + %s)%%type" % rt if throws else rt
    else:
        rt = "cres %s" % rt if throws else "(stream * %s)%%type" % rt
    if "garbage" in reads:
        sigtxt.insert(1, "(garbage : V)")
    u.defs.append((gn, "%s : %s" % (" ".join(sigtxt), rt), body_g, "CSVReader::%s" % name))
    state["units"][name] = {"gname": gn, "throws": throws, "static": sig["static"], "writes": writes, "params": sig["params"], "ret": sig["ret"],
                            "reads": ["fchars", "s"] + ([] if sig["static"] else ["bufidx", "keep_reading", "is"]), "garbage": "garbage" in reads}
    if "garbage" in reads and name != "read":
        raise OutOfGrammar("%s: uninitialised value outside read()" % gn)
    return u.defs


def unit_print(repo):
    src = sx.strip_comments(open(os.path.join(repo, PRINT), encoding="utf-8").read())
    src = ix.preprocess(src, {"__cpp_lib_to_chars": True, "ALPAQA_WITH_QUAD_PRECISION": False})
    src, strings = protect_literals(src)
    ms = list(re.finditer(r"\bfloat_to_str_vw\s*\(\s*auto\s*&\s*buf\s*,", src))
    if len(ms) != 1:
        raise OutOfGrammar("g_print_elem: expected one float_to_str_vw(auto &buf, ..), found %d" % len(ms))
    m = ms[0]
    k = sx.balanced(src, src.index("(", m.start()), "float_to_str_vw")
    ptext = flat(src[m.end():k])
    head = flat(src[max(0, m.start() - 200):m.start()])
    pm = re.fullmatch(r"(\w+|std::floating_point auto) value ?, ?int precision ?= ?std::numeric_limits<(\w+(?: \w+)?)>::max_digits10", ptext)
    if not pm:
        raise OutOfGrammar("g_print_elem: parameters %r" % ptext)
    vty, pty = pm.group(1), pm.group(2)          # `std::floating_point auto`: the value's type has no name the default argument could use
    tm = re.search(r"template ?< ?std::floating_point (\w+) ?>\s*std::string_view$", head)
    follows = bool(tm) and tm.group(1) == vty and pty == vty
    b = src.find("{", k)
    e = sx.balanced(src, b, "float_to_str_vw")
    body = flat(src[b + 1:e])
    bm = re.fullmatch(r"auto begin ?= ?buf\.data\(\); if \((.*?)\) \*begin\+\+ ?= ?CH__(\d+) ?; auto \[end, ?_\] ?= ?std::to_chars\(begin, ?buf\.data\(\) ?\+ ?buf\.size\(\), ?"
                      r"value, ?std::chars_format::scientific, ?precision\); return std::string_view\{buf\.data\(\), ?end\};", body)
    if not bm:
        raise OutOfGrammar("g_print_elem: body %r" % body[:80])
    cond, ch = bm.group(1), int(bm.group(2))
    toks = ix.tokenize(cond)
    # the condition: a conjunction / disjunction of [!]std::signbit(value) and [!]std::isnan(value)
    def conv(ts):
        parts = split_top_op(ts, "||")
        if len(parts) > 1:
            return "(%s)" % " || ".join(conv(p) for p in parts)
        parts = split_top_op(ts, "&&")
        if len(parts) > 1:
            return "(%s)" % " && ".join(conv(p) for p in parts)
        if ts and ts[0] == ("op", "!"):
            return "(negb %s)" % conv(ts[1:])
        if ts and ts[0] == ("op", "(") and ts[-1] == ("op", ")"):
            return conv(ts[1:-1])
        t = toks_text(ts)
        if t == "std::signbit ( value )":
            return "(signbit v)"
        if t == "std::isnan ( value )":
            return "(isnan v)"
        raise OutOfGrammar("g_print_elem: condition %r" % t)
    c = conv(toks)
    return [("g_print_elem", "{V : Type} (to_chars : V -> list ascii) (signbit isnan : V -> bool) (v : V) : list ascii",
             "if %s then (ascii_of_nat %d) :: to_chars v else to_chars v" % (c, ch), "float_to_str_vw (std::to_chars branch): the sign rule"),
            ("g_print_precision_follows_value_type", ": bool", "true" if follows else "false",
             "the default precision is std::numeric_limits<%s>::max_digits10, the value has type %s%s" % (pty, vty, "" if tm else " (no floating_point template parameter)"))]


def split_top_op(ts, op):
    out, cur, depth = [], [], 0
    for k, v in ts:
        if k == "op" and v in ("(", "[", "{"):
            depth += 1
        elif k == "op" and v in (")", "]", "}"):
            depth -= 1
        if (k, v) == ("op", op) and depth == 0:
            out.append(cur); cur = []
        else:
            cur.append((k, v))
    out.append(cur)
    return out


def flat(s):
    return " ".join(s.split())


BINDERS = "{V : Type}"


def units(repo, cache=None):
    state = {"units": {}}

    def src():
        if "src" not in state:
            try:
                state["src"] = load(repo)
            except (OutOfGrammar, OSError) as ex:
                state["src"] = ex
        if isinstance(state["src"], Exception):
            raise OutOfGrammar(str(state["src"]))
        return state["src"]

    def member(name, needs=()):
        def f(r):
            src()
            for n in needs:
                if n not in state["units"]:
                    unit_member(state, n)
            return unit_member(state, name)
        return f
    return [("constants", "", lambda r: [("g_bufmaxsize", ": nat", "%d" % src()[3], "CSVReader::bufmaxsize"),
                                        ("g_end", ": ascii", "(ascii_of_nat %d)" % src()[4], "CSVReader::end")]),
            ("read_chunk", BINDERS, member("read_chunk")),
            ("read_single", BINDERS, member("read_single")),
            ("read", BINDERS, member("read", ("read_chunk", "read_single"))),
            ("next_line", BINDERS, member("next_line")),
            ("done", BINDERS, member("done")),
            ("print_elem", "", unit_print)]


HEADER = ["From Coq Require Import List Ascii Bool Arith.",
          "From Alpaqa Require Import Csv CsvGenLib.",
          "Import ListNotations.",
          "Local Open Scope nat_scope.",
          ""]
END = "(* end of CsvGen *)"


def generate(repo):
    import gen_lbfgs as gl
    ref = gl.parse_ref(REF)
    lines, oog, names, ntr = [], {}, [], 0
    ulist = units(repo)
    for uname, binders, fn in ulist:
        lines.append("(* unit %s *)" % uname)
        try:
            defs = fn(repo)
            lines += ix.render_defs(defs, binders, "", None)
            names += [d[0] for d in defs]
            ntr += len(defs)
        except (OutOfGrammar, OSError, UnicodeDecodeError, IndexError, KeyError, ValueError, RecursionError, AttributeError, TypeError) as ex:
            if os.environ.get("GEN_DEBUG"):
                import traceback
                sys.stderr.write("---- %s\n%s\n" % (uname, traceback.format_exc()[-1500:]))
                lines.append("(* FAILED %s *)" % sx.com(str(ex)))
                continue
            if uname not in ref:
                raise OutOfGrammar("unit %s out of grammar (%s) and no reference text" % (uname, ex))
            oog[uname] = "%s: %s" % (type(ex).__name__, str(ex)[:300]) if not isinstance(ex, OutOfGrammar) else str(ex)[:300]
            lines.append("(* OUT OF GRAMMAR: %s — REFERENCE TEXT (translate/ref/CsvGen.ref.v) *)" % sx.com(str(ex)[:300]))
            lines += ref[uname]
            names += re.findall(r"^Definition (\S+)", "\n".join(ref[uname]), re.M)
        lines.append("")
    status = {"status": "translator-out-of-grammar" if oog else "ok", "definitions": len(names), "translated": ntr,
              "units": len(ulist), "out_of_grammar": oog, "names": names}
    return "\n".join(HEADER + lines + [END]) + "\n", status


def write(repo=None, outfile=None, write_ref=False):
    repo = repo or os.environ.get("VERIF_REPO", "/repo")
    outfile = outfile or os.path.join(os.environ.get("VERIF_GEN_OUT") or os.path.join(VERIF, "coq", "gen"), "CsvGen.v")
    body, status = generate(repo)
    if write_ref:
        if status["out_of_grammar"]:
            raise SystemExit("refusing to write a reference text from an out-of-grammar source: %s" % status["out_of_grammar"])
        os.makedirs(os.path.dirname(REF), exist_ok=True)
        open(REF, "w", encoding="utf-8").write(
            "(* CsvGen.ref.v — reference text of the translator (the translation of the source tree the framework was built against).\n"
            "   Used unit by unit ONLY when the current source leaves the translator's grammar. *)\n" + body)
    st = dict(status)
    st.pop("names")
    txt = ("(* CsvGen.v — by translate/gen_csv.py — GENERATED on every run; do not edit.\n   origin: %s , %s\n   status: %s *)\n"
           % (os.path.join(repo, TPP), os.path.join(repo, PRINT), sx.com(json.dumps(st, ensure_ascii=False, sort_keys=True)))) + body
    os.makedirs(os.path.dirname(outfile), exist_ok=True)
    old = open(outfile, encoding="utf-8").read() if os.path.exists(outfile) else None
    if old != txt:
        open(outfile, "w", encoding="utf-8").write(txt)
    return status


if __name__ == "__main__":
    argv = [a for a in sys.argv[1:] if not a.startswith("--")]
    try:
        st = write(*(argv[:2]), write_ref="--write-ref" in sys.argv)
    except OutOfGrammar as ex:
        print(json.dumps({"status": "translator-failed", "detail": str(ex)}, ensure_ascii=False))
        sys.exit(3)
    print(json.dumps(st, ensure_ascii=False, sort_keys=True))
