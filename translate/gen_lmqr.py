#!/usr/bin/env python3
"""gen_lmqr.py — translator G12: alpaqa::LimitedMemoryQR, the ring iterators and Anderson acceleration regenerated as Gallina
from the C++ on every run.

Reads   <repo>/src/alpaqa/include/alpaqa/util/ringbuffer.hpp
            CircularIndices operator==, CircularIndexIterator operator++ / operator--, CircularRange begin / end
            (the reverse iterator / range and the iterator comparisons must be the plain delegations they are: checked, else out of grammar)
        <repo>/src/alpaqa/include/alpaqa/accelerators/internal/limited-memory-qr.hpp
            n, m, r_succ, r_pred, num_columns, ring_head, ring_tail, ring_next, ring_prev, current_history, get_min_eig, get_max_eig,
            ring_iter, add_column (Gram-Schmidt loop, re-orthogonalisation while loop), remove_column (Givens sweep and its inner loop),
            solve_col (reverse iteration, pivot threshold, row loop), scale_R, reset, resize, get_Q
        <repo>/src/alpaqa/include/alpaqa/accelerators/internal/anderson-helpers.hpp     minimize_update_anderson
        <repo>/src/alpaqa/include/alpaqa/accelerators/anderson.hpp                      resize, initialize, compute, reset, scale_R
writes  coq/gen/LmqrGen.v: per unit (= C++ function) the lambda-lifted step / condition functions of its loops and the function
        itself over the `Num` class and the abstract matrix store `qr_ops` of coq/theories/LmqrGenLib.v.
coq/theories/LmqrGenEq.v proves every generated piece equal to the corresponding piece of the hand model LMQR.v.

Engine: translate/symexec.py, extended here (subclasses) by
  views        `auto q = Q.col(e)` / `auto r = R.col(e)`: q, r are other names of that store column (index evaluated at the declaration)
  loops        `while (c) body` and `for (init; c; incr) body` (with `continue`) -> while_c <fuel> cond step init, the condition and the
               body lambda-lifted; fuelS for conditions comparing scalars, fuelN otherwise; `while (++it != e) body` is
               `++it; while (it != e) { body; ++it; }`; `for (auto [a, b] : range) body` is the iterator loop it abbreviates
  iterators    CircularIndexIterator = (zerobased, circular, max), `*it`, `++it`, `it.forwardit`, `a != b`, structured bindings
  rotations    JacobiRotation: makeGivens / applyOnTheLeft / applyOnTheRight / adjoint / transpose -> jr_* of LmqrGenLib.v
  extended scalars   min_eig / max_eig (option T, None = the initial infinity)
A unit that leaves the grammar is replaced by its block of the committed reference text translate/ref/LmqrGen.ref.v and reported as
`translator-out-of-grammar` (never a violation by itself).

Usage: gen_lmqr.py [repo] [outfile] [--write-ref]      Prints one JSON status line."""
import json, os, re, sys
from fractions import Fraction
sys.path.insert(0, os.path.dirname(os.path.abspath(__file__)))
import symexec as sx
from symexec import OutOfGrammar
import gen_lbfgs as gl

HERE = os.path.dirname(os.path.abspath(__file__))
VERIF = os.path.dirname(HERE)
RING = "src/alpaqa/include/alpaqa/util/ringbuffer.hpp"
QRH = "src/alpaqa/include/alpaqa/accelerators/internal/limited-memory-qr.hpp"
AAH = "src/alpaqa/include/alpaqa/accelerators/internal/anderson-helpers.hpp"
AND = "src/alpaqa/include/alpaqa/accelerators/anderson.hpp"
REF = os.path.join(HERE, "ref", "LmqrGen.ref.v")

# ----------------------------------------------------------------------------- engine extensions

sx.GTYPE.update({"CI": "(nat * nat * nat)%type", "RI": "(nat * nat * nat)%type", "IDX": "(nat * nat)%type", "J": "(T * T)%type",
                 "M": "list (list T)", "XP": "option T", "XN": "option T", "VQ": "nat", "VR": "nat", "RG": "(nat * nat * nat * nat)%type",
                 "RRG": "(nat * nat * nat * nat)%type"})
sx.ASCII.update({"η": "eta", "ₗ": "l", "ₐ": "a", "ₛ": "s", "γ": "gam"})
sx.TYPES.update({"jacobi_t": "J"})


def lit_S(q):
    """decimal literals: p / q with both exactly representable is correctly rounded = the literal's value"""
    def z(k):
        return "n0" if k == 0 else "n1" if k == 1 else "n2" if k == 2 else "(nofZ %d%%Z)" % k
    if q.denominator == 1:
        return z(q.numerator)
    if abs(q.numerator) >= 2 ** 53 or q.denominator >= 2 ** 53:
        raise OutOfGrammar("literal %s" % q)
    return "(%s / %s)" % (z(q.numerator), z(q.denominator))


sx.lit_S = lit_S

CTX = "O fuelS fuelN"
BINDERS = "{T : Type} {HN : Num T} {St : Type} (O : qr_ops T St) (fuelS fuelN : nat)"


def prep(src):
    """source text -> text in the engine's token language"""
    s = sx.strip_comments(src)
    s = s.replace("inf<config_t>", "inf_config_t")
    s = re.sub(r"\b(real_t|Index|index_t)\s*\{([^{}]*)\}", r"\1(\2)", s)
    s = re.sub(r"Eigen::JacobiRotation\s*<\s*real_t\s*>", "jacobi_t", s)
    # assert(...) ;
    out, i = [], 0
    for m in re.finditer(r"\bassert\s*\(", s):
        if m.start() < i:
            continue
        k = sx.balanced(s, m.end() - 1, "assert")
        j = k + 1
        while j < len(s) and s[j].isspace():
            j += 1
        if j < len(s) and s[j] == ";":
            out.append(s[i:m.start()]); i = j + 1
    out.append(s[i:])
    return "".join(out)


class LParser(sx.StmtParser):
    def sub(self, toks):
        p = LParser("", self.what, self.int_type)
        p.t = toks
        return p

    def dotted_at(self, k):
        """index after a dotted identifier starting at offset k, or None"""
        if self.peek(k)[0] != "id":
            return None
        k += 1
        while self.peek(k) == ("op", ".") and self.peek(k + 1)[0] == "id":
            k += 2
        return k

    def stmt(self):
        k, v = self.peek()
        if (k, v) == ("id", "continue") and self.at("op", ";", 1):
            self.eat(); self.eat()
            return ("continue",)
        if (k, v) == ("id", "while"):
            self.eat()
            c = self.group("(", ")")
            body = sx.as_block(self.stmt())
            if c == [("id", "true")]:
                return ("while_true", body)
            if len(c) >= 4 and c[0] == ("op", "++") and c[1][0] == "id" and c[2] == ("op", "!="):
                inc = ("assign", [c[1]], "+=", [("num", "1")])
                return ("block_flat", [inc, ("while_cond", c[1:], body + [inc])])
            return ("while_cond", c, body)
        if (k, v) in (("op", "++"), ("op", "--")):
            e = self.dotted_at(1)
            if e is not None and self.at("op", ";", e):
                self.eat()
                lhs = [self.eat() and self.t[self.i - 1] for _ in range(e - 1)]
                self.eat("op", ";")
                return ("assign", lhs, "+=" if v == "++" else "-=", [("num", "1")])
        if k == "id":
            e = self.dotted_at(0)
            if e is not None and self.peek(e) in (("op", "++"), ("op", "--")) and self.at("op", ";", e + 1):
                lhs = [self.eat() and self.t[self.i - 1] for _ in range(e)]
                op = self.eat()
                self.eat("op", ";")
                return ("assign", lhs, "+=" if op == "++" else "-=", [("num", "1")])
        if (k, v) == ("id", "jacobi_t") and self.peek(1)[0] == "id" and self.at("op", ";", 2):
            self.eat(); n = self.eat("id"); self.eat()
            return ("decl_rot", n)
        return sx.StmtParser.stmt(self)

    def for_(self, hdr):
        parts, cur, depth = [], [], 0
        for kk, vv in hdr:
            if kk == "op" and vv in "([{":
                depth += 1
            elif kk == "op" and vv in ")]}":
                depth -= 1
            if (kk, vv) == ("op", ";") and depth == 0:
                parts.append(cur); cur = []
            else:
                cur.append((kk, vv))
        parts.append(cur)
        if len(parts) == 1:
            p = parts[0]
            # for (auto [a, b] : range)
            if len(p) >= 7 and p[0] == ("id", "auto") and p[1] == ("op", "[") and p[3] == ("op", ",") and p[5] == ("op", "]") and p[6] == ("op", ":"):
                body = sx.as_block(self.stmt())
                rng = p[7:]
                it = "range_it"
                return ("block", [("decl", "auto", "range_end", rng + [("op", "."), ("id", "end"), ("op", "("), ("op", ")")]),
                                  ("for_gen", it, rng + [("op", "."), ("id", "begin"), ("op", "("), ("op", ")")],
                                   [("id", it), ("op", "!="), ("id", "range_end")], ("assign", [("id", it)], "+=", [("num", "1")]),
                                   [("decl_tuple", [p[2][1], p[4][1]], [("op", "*"), ("id", it)])] + body)])
        if len(parts) == 3:
            init, cond, inc = parts
            if len(init) >= 4 and init[0][1] in sx.TYPES and init[1][0] == "id" and init[2] == ("op", "="):
                var = init[1][1]
                up = len(cond) >= 3 and cond[0] == ("id", var) and cond[1] == ("op", "<") and inc in ([("op", "++"), ("id", var)], [("id", var), ("op", "++")])
                down = len(cond) >= 4 and cond[0] == ("id", var) and cond[1] == ("op", "--") and cond[2] == ("op", ">") and inc == []
                if not up and not down:
                    if inc in ([("op", "++"), ("id", var)], [("id", var), ("op", "++")]):
                        incs = ("assign", [("id", var)], "+=", [("num", "1")])
                    elif len(inc) >= 3 and inc[0] == ("id", var) and inc[1] == ("op", "="):
                        incs = ("assign", [inc[0]], "=", inc[2:])
                    else:
                        raise OutOfGrammar("%s: for increment" % self.what)
                    body = sx.as_block(self.stmt())
                    return ("block", [("for_gen", var, init[3:], cond, incs, body)])
        return sx.StmtParser.for_(self, hdr)


def parse_body(text, what):
    p = LParser(text, what)
    b = p.block()
    if p.peek()[0] is not None:
        raise OutOfGrammar("%s: trailing tokens from %r" % (what, p.peek()[1]))
    return b


NUMCMP = re.compile(r" (<\?|<=\?|=\?) ")


class LExpr(sx.Expr):
    """expressions: + views, store matrices, iterators, rotations, extended scalars"""

    def st(self):
        u = self.u
        if not self.env.has(u.store):
            raise OutOfGrammar("%s: store access outside a member function" % self.what)
        return u.val(self.env, u.store)[1]

    def conv(self, e):
        if e[0] == "VQ":
            return ("V", "(qo_Qcol O %s %s)" % (self.st(), e[1]))
        if e[0] == "VR":
            return ("V", "(qo_Rcol O %s %s)" % (self.st(), e[1]))
        return e

    def expr(self):
        return self.conv(sx.Expr.expr(self))

    def equality(self):
        a = self.rel()
        while self.peek() in (("op", "=="), ("op", "!=")):
            op = self.eat()
            b = self.rel()
            if a[0] in ("CI", "RI") and b[0] == a[0]:
                c = "(g_ci_eq %s %s)" % (a[1], b[1])
                a = ("B", c if op == "==" else "(negb %s)" % c)
            else:
                a = sx.compare(op, self.conv(a), self.conv(b))
        return a

    def prod(self):
        a = self.unary()
        while self.peek() in (("op", "*"), ("op", "/")):
            op = self.eat()
            b = self.unary()
            a, b = self.conv(a), self.conv(b)
            if op == "*" and a[0] == "VT" and b[0] == "V":
                a = ("S", "(vdot %s %s)" % (a[1], b[1]))
            elif op == "*" and a[0] in ("XP", "XN") and b[0] in ("S", "L"):
                a = ("S", "(xtimes_or0 %s %s)" % (a[1], sx.coerce(b, "S")))
            else:
                a = sx.arith(op, a, b)
        return a

    def unary(self):
        if self.at("op", "*"):                      # *it
            self.eat()
            e = self.unary()
            if e[0] == "CI":
                return ("IDX", "(ci_idx %s)" % e[1])
            if e[0] == "RI":
                return ("IDX", "(ci_idx (g_rit_deref %s))" % e[1])
            raise OutOfGrammar("%s: dereference of type %s" % (self.what, e[0]))
        return sx.Expr.unary(self)

    def postfix(self):
        e = self.atom()
        while self.at("op", ".") or self.at("op", "->"):
            self.eat()
            m = self.eat("id")
            e = self.method(self.conv(e), m)
        return e

    def method(self, e, m):
        e = self.conv(e)
        if e[0] == "IDX" and m in ("zerobased", "circular") and not self.at("op", "("):
            return ("N", "(%s %s)" % ("fst" if m == "zerobased" else "snd", e[1]))
        if e[0] == "RI" and m == "forwardit" and not self.at("op", "("):
            return ("CI", e[1])
        if e[0] in ("RG", "RRG") and m in ("begin", "end"):
            if self.args():
                raise OutOfGrammar("%s: %s takes no argument" % (self.what, m))
            if e[0] == "RG":
                return ("CI", "(g_range_%s %s)" % (m, e[1]))
            return ("RI", "(g_rrange_%s %s)" % (m, e[1]))
        if e[0] == "V" and m == "transpose":
            if self.args():
                raise OutOfGrammar("%s: transpose takes no argument" % self.what)
            return ("VT", e[1])
        if e[0] == "J" and m in ("adjoint", "transpose"):
            if self.args():
                raise OutOfGrammar("%s: %s takes no argument" % (self.what, m))
            return ("J", "(jr_adjoint %s)" % e[1])
        if e[0] == "M" and m == "col":
            a = self.args()
            if len(a) != 1:
                raise OutOfGrammar("%s: col arity" % self.what)
            return ("V", "(mcol %s %s)" % (e[1], sx.coerce(a[0], "N")))
        return sx.Expr.method(self, e, m)

    def resolve(self, name, call, has_rest):
        env, u = self.env, self.u
        if env.has(name):
            c = env.get(name)
            if call and c.ty == "VR":               # r(i)
                a = self.args()
                if len(a) != 1:
                    raise OutOfGrammar("%s: coefficient access arity" % self.what)
                u.note(c.val)
                return ("S", "(qR O %s %s %s)" % (self.st(), sx.coerce(a[0], "N"), c.val))
            if call and c.ty == "VQ":
                a = self.args()
                u.note(c.val)
                return ("S", "(nth %s (qo_Qcol O %s %s) n0)" % (sx.coerce(a[0], "N"), self.st(), c.val))
        if not call and "." in name:
            pre, mem = name.rsplit(".", 1)
            if env.has(pre) and env.get(pre).ty == "RI" and mem == "forwardit":
                return ("CI", u.val(env, pre)[1])
        if call and name in ("std::min", "std::max"):
            a = self.args()
            if len(a) != 2:
                raise OutOfGrammar("%s: arity of %s" % (self.what, name))
            a = [self.conv(x) for x in a]
            if a[0][0] in ("XP", "XN"):
                f = {"std::min": "xmin", "std::max": "xmax"}[name] + {"XP": "_pinf", "XN": "_ninf"}[a[0][0]]
                return (a[0][0], "(%s %s %s)" % (f, a[0][1], sx.coerce(a[1], "S")))
            if a[0][0] == "N" or a[1][0] == "N":
                return ("N", "(%s %s %s)" % ("Nat.min" if name == "std::min" else "Nat.max", sx.coerce(a[0], "N"), sx.coerce(a[1], "N")))
            return ("S", "(%s %s %s)" % ("cmin" if name == "std::min" else "cmax", sx.coerce(a[0], "S"), sx.coerce(a[1], "S")))
        if call and name == "Index":
            a = self.args()
            if len(a) != 1 or a[0][0] not in ("N", "L"):
                raise OutOfGrammar("%s: Index cast" % self.what)
            return a[0]
        r = sx.Expr.resolve(self, name, call, has_rest)
        return r


class LExec(sx.Exec):
    def __init__(self, unit, what):
        sx.Exec.__init__(self, unit, what)
        self.cont = []

    def ex(self, toks, env, want=None):
        p = LExpr(toks, env, self.u, self.what)
        e = p.expr()
        p.end()
        if want:
            return (want, sx.coerce(e, want, self.what))
        return e

    def base(self, n, ty):
        return "st" if ty == "ST" else "l_" + sx.ascii_name(n)

    def outcomes(self, stmts, env):
        kinds, changed, fall = set(), set(), set()
        base = dict((n, c.val) for n, c in env.cells.items())
        u = self.u
        save = (u.cnt, u.reads, list(u.defs), dict(u.types), dict(u.loops))
        u.reads = None
        self.dry += 1

        def diff(e2):
            for n, c in e2.cells.items():
                if n in base and base[n] != c.val:
                    changed.add(n)

        def k(e2):
            kinds.add("fall"); diff(e2)
            for n, c in e2.cells.items():
                if n in base and base[n] != c.val:
                    fall.add(n)
            return "_"

        def ret(e2, v):
            kinds.add("ret"); kinds.add("return"); diff(e2); return "_"

        def cont(e2):
            kinds.add("ret"); kinds.add("continue"); diff(e2); return "_"
        self.cont.append(cont)
        try:
            self.block(stmts, 0, env.copy(), k, ret)
        finally:
            self.cont.pop()
            self.dry -= 1
            u.cnt, u.reads, u.defs, u.types, u.loops = save
        self.changed_fall = fall
        self.kinds_full = set(kinds)
        kinds.discard("return"); kinds.discard("continue")
        return kinds, changed

    def block(self, stmts, i, env, k, ret):
        if i < len(stmts):
            s = stmts[i]
            rest = lambda e: self.block(stmts, i + 1, e, k, ret)
            tag = s[0]
            if tag == "continue":
                if not self.cont:
                    raise OutOfGrammar("%s: continue outside a loop" % self.what)
                return self.cont[-1](env)
            if tag == "while_cond":
                return self.while_c(env, None, s[1], None, s[2], rest, "while")
            if tag == "for_gen":
                _, var, init, cond, incs, body = s
                e = self.ex(init, env)
                if e[0] == "L":
                    e = (self.u.int_type, sx.coerce(e, self.u.int_type))
                env1 = env.copy()
                ident = self.u.fresh("l_" + sx.ascii_name(var), e[0])
                env1.cells[var] = sx.Cell(e[0], ident)

                def leave(e2, outer=env):
                    e3 = outer.copy()
                    for n in outer.cells:
                        e3.cells[n] = e2.cells[n]
                    return rest(e3)
                return self.let(ident, e[1], self.while_c(env1, var, cond, incs, body, leave, "forc"))
            if tag == "decl_rot":
                env = env.copy()
                ident = self.u.fresh("l_" + sx.ascii_name(s[1]), "J")
                env.cells[s[1]] = sx.Cell("J", ident)
                return self.let(ident, "(n1, n0)", rest(env))         # JacobiRotation's default constructor leaves it unset; never read before makeGivens
            if tag == "decl" and s[1] == "auto":
                # views
                toks = s[3]
                if len(toks) >= 6 and toks[0][0] == "id" and toks[0][1] in ("Q", "R") and toks[1] == ("op", ".") and toks[2] == ("id", "col") \
                        and toks[3] == ("op", "(") and toks[-1] == ("op", ")") and env.has(self.u.store):
                    j = self.ex(toks[4:-1], env, "N")[1]
                    ty = "VQ" if toks[0][1] == "Q" else "VR"
                    return self.bind(env, s[2], ty, j, rest)
                e = self.ex(toks, env)
                if e[0] in ("CI", "RI", "RG", "RRG", "IDX", "J", "M", "XP", "XN"):
                    return self.bind(env, s[2], e[0], e[1], rest)
            if tag == "decl_tuple":
                e = self.ex(s[2], env)
                if e[0] == "IDX" and len(s[1]) == 2:
                    env = env.copy()
                    a = self.u.fresh("l_" + sx.ascii_name(s[1][0]), "N")
                    b = self.u.fresh("l_" + sx.ascii_name(s[1][1]), "N")
                    env.cells[s[1][0]] = sx.Cell("N", a)
                    env.cells[s[1][1]] = sx.Cell("N", b)
                    return "let '(%s, %s) := %s in\n    %s" % (a, b, e[1], rest(env))
        return sx.Exec.block(self, stmts, i, env, k, ret)

    def while_c(self, env, var, cond, incs, body, rest, kind):
        """`while (cond) body` (var None) / `for (var = ..; cond; incs) body` (var already bound in env)"""
        u = self.u
        full = body + ([incs] if incs else [])
        kinds, changed = self.outcomes(full, env)
        if "return" in self.kinds_full:
            raise OutOfGrammar("%s: return inside a %s loop" % (self.what, kind))
        names = self.ordered(env, changed)
        if not names:
            raise OutOfGrammar("%s: %s loop without state" % (self.what, kind))
        inner = env.copy()
        sids = []
        for n in names:
            ty = env.get(n).ty
            ident = "st_in" if ty == "ST" else "s_%s_in" % sx.ascii_name(n)
            u.types[ident] = ty
            inner.set(n, ty, ident)
            sids.append(ident)

        def tup(e2):
            vs = [u.val(e2, n)[1] for n in names]
            return vs[0] if len(vs) == 1 else "(%s)" % ", ".join(vs)

        def lret(e2, v):
            raise OutOfGrammar("%s: return inside a %s loop" % (self.what, kind))

        def after_body(e2):
            # the declarations of the body end with it
            e3 = inner.copy()
            for n in inner.cells:
                e3.cells[n] = e2.cells[n]
            if incs:
                return self.block([incs], 0, e3, tup, lret)
            return tup(e3)
        save = u.reads
        u.reads = []
        condx = self.ex(cond, inner, "B")[1]
        creads = u.reads
        u.reads = []
        self.cont.append(after_body)
        try:
            bodyx = self.block(body, 0, inner, after_body, lret)
        finally:
            self.cont.pop()
        breads = u.reads
        u.reads = save
        if not u.h.loop_body_ok(bodyx):
            raise OutOfGrammar("%s: loop body not accepted" % self.what)
        caps = [n for n in env.cells if (env.cells[n].val in creads or env.cells[n].val in breads) and n not in names]
        u.loops[kind] = u.loops.get(kind, 0) + 1
        gbase = "%s_%s%d" % (u.scope, kind, u.loops[kind])
        tys = [sx.GTYPE[env.get(n).ty] for n in names]
        sig = " ".join(["(%s : %s)" % (env.get(c).val, sx.GTYPE[env.get(c).ty]) for c in caps] + ["(%s : %s)" % (i, t) for i, t in zip(sids, tys)])
        rt = tys[0] if len(names) == 1 else "(%s)%%type" % " * ".join(tys)
        u.defs.append((gbase + "_cond", "%s : bool" % sig, condx, "condition of the %s loop" % kind))
        u.defs.append((gbase + "_step", "%s : %s" % (sig, rt), bodyx, "body of the %s loop%s" % (kind, " (followed by its increment)" if incs else "")))
        capv = [u.val(env, c)[1] for c in caps]
        fuel = "fuelS" if NUMCMP.search(condx) else "fuelN"
        init = tup(env)
        env2 = env.copy()
        ids = []
        for n in names:
            ty = env.get(n).ty
            ident = u.fresh(self.base(n, ty), ty)
            env2.set(n, ty, ident)
            ids.append(ident)
        pat = sids[0] if len(sids) == 1 else "'(%s)" % ", ".join(sids)
        lpat = ids[0] if len(ids) == 1 else "'(%s)" % ", ".join(ids)
        a = " ".join(capv + sids)
        return "let %s := while_c %s (fun %s => %s_cond %s) (fun %s => %s_step %s) %s in\n    %s" % (
            lpat, fuel, pat, gbase, a, pat, gbase, a, init, rest(env2))


# ----------------------------------------------------------------------------- names of the QR class

QR_MEMBERS = {"q_idx": ("N", "qo_q_idx", "qo_set_q_idx"), "r_idx_start": ("N", "qo_r_idx_start", "qo_set_r_idx_start"),
              "r_idx_end": ("N", "qo_r_idx_end", "qo_set_r_idx_end"), "reorth_count": ("N", "qo_reorth_count", "qo_set_reorth_count"),
              "min_eig": ("XP", "qo_min_eig", "qo_set_min_eig"), "max_eig": ("XN", "qo_max_eig", "qo_set_max_eig")}
# const member functions usable in expressions: name -> (generated name, argument types, result type)
QR_CONST = {"n": ("g_n", [], "N"), "m": ("g_m", [], "N"), "r_succ": ("g_r_succ", ["N"], "N"), "r_pred": ("g_r_pred", ["N"], "N"),
            "num_columns": ("g_num_columns", [], "N"), "ring_head": ("g_ring_head", [], "N"), "ring_tail": ("g_ring_tail", [], "N"),
            "ring_next": ("g_ring_next", ["N"], "N"), "ring_prev": ("g_ring_prev", ["N"], "N"),
            "current_history": ("g_current_history", [], "N"), "get_min_eig": ("g_get_min_eig", [], "XP"),
            "get_max_eig": ("g_get_max_eig", [], "XN"), "ring_iter": ("g_ring_iter", [], "RG"), "ring_reverse_iter": ("g_ring_iter", [], "RRG")}
# mutating member functions (statements): name -> (generated name, argument types)
QR_MUT = {"add_column": ("g_add_column", ["V"]), "remove_column": ("g_remove_column", []), "reset": ("g_reset", []),
          "resize": ("g_resize", ["N", "N"]), "scale_R": ("g_scale_R", ["S"])}


class QHooks(sx.Hooks):
    """inside LimitedMemoryQR (store cell u.store) and for `qr.` calls on a store-typed variable"""

    def __init__(self, atoms=None):
        self.atoms = atoms or {}

    def target(self, ex_or_X, env, name):
        """name = [var.]f -> (store value, f) when var is a store cell / the implicit object"""
        u = ex_or_X.u
        parts = name.split(".")
        if len(parts) == 1 and env.has(u.store):
            return u.val(env, u.store)[1], parts[0], u.store
        if len(parts) == 2 and env.has(parts[0]) and env.get(parts[0]).ty == "ST":
            return u.val(env, parts[0])[1], parts[1], parts[0]
        return None, None, None

    def resolve(self, ex, name, call, has_rest):
        env, u = ex.env, ex.u
        if not call and name in self.atoms:
            return self.atoms[name]
        if call and env.has(u.store) and name in ("Q.col", "R.col", "Q.rows", "Q.cols", "R.rows", "R.cols", "Q.block"):
            stv = u.val(env, u.store)[1]
            a = ex.args()
            if name in ("Q.col", "R.col") and len(a) == 1:
                return ("V", "(qo_%scol O %s %s)" % (name[0], stv, sx.coerce(a[0], "N")))
            if name in ("Q.rows", "Q.cols", "R.rows", "R.cols") and not a:
                return ("N", "(qo_%s O %s)" % ("rows" if name == "Q.rows" else "cols", stv))
            if name == "Q.block" and len(a) == 4 and a[0][0] == "L" and a[0][2] == 0 and a[1][0] == "L" and a[1][2] == 0:
                return ("M", "(qblock_Q O %s %s %s)" % (stv, sx.coerce(a[2], "N"), sx.coerce(a[3], "N")))
            raise OutOfGrammar("%s: %s arguments" % (ex.what, name))
        st, f, _ = self.target(ex, env, name)
        if st is None:
            return None
        own = "." not in name
        if own and not call and f in QR_MEMBERS:
            ty, g, _ = QR_MEMBERS[f]
            return (ty, "(%s O %s)" % (g, st))
        if call and f in QR_CONST:
            g, tys, rt = QR_CONST[f]
            a = ex.args()
            if len(a) != len(tys):
                raise OutOfGrammar("%s: arity of %s" % (ex.what, f))
            return (rt, "(%s)" % " ".join([g, st] + [sx.coerce(x, t, ex.what) for x, t in zip(a, tys)]))
        if own and call and f == "R":
            a = ex.args()
            if len(a) != 2:
                raise OutOfGrammar("%s: R(r, c) arity" % ex.what)
            return ("S", "(qR O %s %s %s)" % (st, sx.coerce(a[0], "N"), sx.coerce(a[1], "N")))
        return None

    def resolve_dotted(self, ex, name, call):
        return None

    def assign_special(self, X, env, lhs, op, rhs, rest):
        u = X.u
        name, i = gl.accessor_name(lhs)
        if name is None:
            return None
        # cells with dotted names (i.zerobased)
        if i == len(lhs) and "." in name and env.has(name) and env.get(name).ty in ("N", "S", "B"):
            ty = env.get(name).ty
            cur = u.val(env, name) if op != "=" else None
            return X.bind(env, name, ty, X.compound(ty, cur, op, X.ex(rhs, env)), rest)
        # iterators: ++it
        if i == len(lhs) and env.has(name) and env.get(name).ty in ("CI", "RI") and op == "+=" and rhs == [("num", "1")]:
            c = u.val(env, name)
            return X.bind(env, name, c[0], "(%s %s)" % ("g_cit_incr" if c[0] == "CI" else "g_rit_incr", c[1]), rest)
        # matrix value: M.col(j) = v
        if name.endswith(".col") and env.has(name[:-4]) and env.get(name[:-4]).ty == "M" and lhs[i] == ("op", "(") and lhs[-1] == ("op", ")") and op == "=":
            mname = name[:-4]
            M = u.val(env, mname)[1]
            j = X.ex(lhs[i + 1:-1], env, "N")[1]
            v = X.ex(rhs, env, "V")[1]
            return X.bind(env, mname, "M", "(mset_col %s %s %s)" % (M, j, v), rest)
        # V /= s on a plain vector
        if i == len(lhs) and env.has(name) and env.get(name).ty == "V" and op == "/=":
            v = u.val(env, name)[1]
            return X.bind(env, name, "V", "(map (fun x_ => x_ / %s) %s)" % (X.ex(rhs, env, "S")[1], v), rest)
        if not env.has(u.store):
            return None
        st = u.val(env, u.store)[1]
        # views
        if env.has(name) and env.get(name).ty in ("VQ", "VR"):
            c = u.val(env, name)
            get, setter = ("qo_Qcol", "qo_set_Qcol") if c[0] == "VQ" else ("qo_Rcol", "qo_set_Rcol")
            if i == len(lhs):
                cur = ("V", "(%s O %s %s)" % (get, st, c[1]))
                if op == "/=":
                    new = "(map (fun x_ => x_ / %s) %s)" % (X.ex(rhs, env, "S")[1], cur[1])
                else:
                    new = X.compound("V", cur, op, X.ex(rhs, env))
                return X.bind(env, u.store, "ST", "(%s O %s %s %s)" % (setter, st, c[1], new), rest, base="st")
            if lhs[i] == ("op", "(") and lhs[-1] == ("op", ")") and c[0] == "VR":
                r = X.ex(lhs[i + 1:-1], env, "N")[1]
                cur = ("S", "(qR O %s %s %s)" % (st, r, c[1]))
                new = X.compound("S", cur, op, X.ex(rhs, env))
                return X.bind(env, u.store, "ST", "(qset_R O %s %s %s %s)" % (st, r, c[1], new), rest, base="st")
            raise OutOfGrammar("%s: assignment through a view" % X.what)
        # members
        if name in QR_MEMBERS and i == len(lhs) and not env.has(name):
            ty, g, setter = QR_MEMBERS[name]
            cur = (ty, "(%s O %s)" % (g, st))
            if ty in ("XP", "XN"):
                inf = [("op", "+" if ty == "XP" else "-"), ("id", "inf_config_t")]
                if op == "=" and rhs == inf:
                    new = "None"
                elif op == "=":
                    e = X.ex(rhs, env)
                    new = e[1] if e[0] == ty else "(Some %s)" % sx.coerce(e, "S", X.what)
                elif op == "*=":
                    new = "(xscale %s %s)" % (cur[1], X.ex(rhs, env, "S")[1])
                else:
                    raise OutOfGrammar("%s: %s on %s" % (X.what, op, name))
            else:
                new = X.compound(ty, cur, op, X.ex(rhs, env))
            return X.bind(env, u.store, "ST", "(%s O %s %s)" % (setter, st, new), rest, base="st")
        # R(r, c) op= e
        if name == "R" and i < len(lhs) and lhs[i] == ("op", "(") and lhs[-1] == ("op", ")"):
            p = LExpr(lhs[i:], env, u, X.what)
            a = p.args(); p.end()
            if len(a) != 2:
                raise OutOfGrammar("%s: R(r, c) arity" % X.what)
            r, c = sx.coerce(a[0], "N"), sx.coerce(a[1], "N")
            new = X.compound("S", ("S", "(qR O %s %s %s)" % (st, r, c)), op, X.ex(rhs, env))
            return X.bind(env, u.store, "ST", "(qset_R O %s %s %s %s)" % (st, r, c, new), rest, base="st")
        # R.topLeftCorner(a, b) *= s
        if name == "R.topLeftCorner" and op == "*=":
            p = LExpr(lhs[i:], env, u, X.what)
            a = p.args(); p.end()
            if len(a) != 2:
                raise OutOfGrammar("%s: topLeftCorner arity" % X.what)
            return X.bind(env, u.store, "ST", "(qscale_corner O %s %s %s %s)" % (st, sx.coerce(a[0], "N"), sx.coerce(a[1], "N"), X.ex(rhs, env, "S")[1]),
                          rest, base="st")
        # x.topRows(k).noalias() = Q.leftCols(k2).transpose() * b
        if name.endswith(".topRows") and env.has(name[:-8]) and env.get(name[:-8]).ty == "V" and op == "=":
            xn = name[:-8]
            p = LExpr(lhs[i:], env, u, X.what)
            a = p.args()
            if p.t[p.i:] not in ([], [("op", "."), ("id", "noalias"), ("op", "("), ("op", ")")]) or len(a) != 1:
                raise OutOfGrammar("%s: assignment to the top rows of %s" % (X.what, xn))
            if rhs[:4] == [("id", "Q"), ("op", "."), ("id", "leftCols"), ("op", "(")]:
                q = LExpr(rhs[3:], env, u, X.what)
                k2 = q.args()
                if len(k2) == 1 and q.t[q.i:q.i + 5] == [("op", "."), ("id", "transpose"), ("op", "("), ("op", ")"), ("op", "*")]:
                    b = X.ex(q.t[q.i + 5:], env, "V")[1]
                    k1, k2 = sx.coerce(a[0], "N"), sx.coerce(k2[0], "N")
                    xv = u.val(env, xn)[1]
                    return X.bind(env, xn, "V", "(firstn %s (qtb O %s %s %s) ++ skipn %s %s)" % (k1, st, k2, b, k1, xv), rest)
            raise OutOfGrammar("%s: assignment to the top rows of %s" % (X.what, xn))
        # R.col(c).topRows(k) *= s
        if name == "R.col" and op == "*=":
            p = LExpr(lhs[i:], env, u, X.what)
            a = p.args()
            if len(a) == 1 and p.at("op", ".") and p.peek(1) == ("id", "topRows"):
                p.eat(); p.eat()
                k = p.args(); p.end()
                if len(k) == 1:
                    c = sx.coerce(a[0], "N")
                    return X.bind(env, u.store, "ST", "(qo_set_Rcol O %s %s (scale_top %s %s (qo_Rcol O %s %s)))" % (
                        st, c, sx.coerce(k[0], "N"), X.ex(rhs, env, "S")[1], st, c), rest, base="st")
            raise OutOfGrammar("%s: assignment to a part of R" % X.what)
        return None

    def call_stmt(self, X, env, toks, rest):
        u = X.u
        name, i = gl.accessor_name(toks)
        if name is None or i >= len(toks) or toks[i] != ("op", "("):
            return None
        st, f, cell = self.target(X, env, name)
        p = LExpr(toks[i:], env, u, X.what)
        if st is not None and f in QR_MUT:
            g, tys = QR_MUT[f]
            a = p.args(); p.end()
            if len(a) != len(tys):
                raise OutOfGrammar("%s: arity of %s" % (X.what, f))
            return X.bind(env, cell, "ST", "(%s)" % " ".join([g, st] + [sx.coerce(x, t, X.what) for x, t in zip(a, tys)]), rest, base="st")
        if st is not None and f == "solve_col":
            argt = p.arg_tokens(); p.end()
            if len(argt) not in (2, 3) or len(argt[1]) != 1 or not env.has(argt[1][0][1]):
                raise OutOfGrammar("%s: solve_col arguments" % X.what)
            b = X.ex(argt[0], env, "V")[1]
            xn = argt[1][0][1]
            tol = X.ex(argt[2], env, "S")[1] if len(argt) == 3 else "n0"
            return X.bind(env, xn, "V", "(g_solve_col %s %s %s %s)" % (st, b, u.val(env, xn)[1], tol), rest)
        own = env.has(u.store)
        if own and name in ("Q.resize", "R.resize"):
            a = p.args(); p.end()
            if len(a) != 2:
                raise OutOfGrammar("%s: resize arity" % X.what)
            stv = u.val(env, u.store)[1]
            return X.bind(env, u.store, "ST", "(qo_resize_%s O %s %s %s)" % (name[0], stv, sx.coerce(a[0], "N"), sx.coerce(a[1], "N")), rest, base="st")
        # G.makeGivens(R(r, c), R(r + 1, c), &R(r, c))
        if name.endswith(".makeGivens") and env.has(name[:-11]) and env.get(name[:-11]).ty == "J" and own:
            argt = p.arg_tokens(); p.end()
            if len(argt) != 3 or argt[2][:3] != [("op", "&"), ("id", "R"), ("op", "(")]:
                raise OutOfGrammar("%s: makeGivens arguments" % X.what)
            pp, qq = X.ex(argt[0], env, "S")[1], X.ex(argt[1], env, "S")[1]
            q2 = LExpr(argt[2][2:], env, u, X.what)
            rc = q2.args(); q2.end()
            if len(rc) != 2:
                raise OutOfGrammar("%s: makeGivens result place" % X.what)
            stv = u.val(env, u.store)[1]
            c_, s_, r_ = u.fresh("l_c", "S"), u.fresh("l_s", "S"), u.fresh("l_r", "S")
            env2 = env.copy()
            jid = u.fresh("l_" + sx.ascii_name(name[:-11]), "J")
            env2.set(name[:-11], "J", jid)
            inner = X.bind(env2, u.store, "ST", "(qset_R O %s %s %s %s)" % (stv, sx.coerce(rc[0], "N"), sx.coerce(rc[1], "N"), r_), rest, base="st")
            return "let '(%s, %s, %s) := jr_make_givens %s %s in\n    let %s := (%s, %s) in\n    %s" % (c_, s_, r_, pp, qq, jid, c_, s_, inner)
        # R.col(cc).applyOnTheLeft(p, q, J)
        if name == "R.col" and own:
            a = p.args()
            if len(a) == 1 and p.at("op", ".") and p.peek(1) == ("id", "applyOnTheLeft"):
                p.eat(); p.eat()
                b = p.args(); p.end()
                if len(b) == 3 and b[2][0] == "J":
                    stv = u.val(env, u.store)[1]
                    c = sx.coerce(a[0], "N")
                    return X.bind(env, u.store, "ST", "(qo_set_Rcol O %s %s (jr_apply_rows %s %s %s (qo_Rcol O %s %s)))" % (
                        stv, c, b[2][1], sx.coerce(b[0], "N"), sx.coerce(b[1], "N"), stv, c), rest, base="st")
            raise OutOfGrammar("%s: call on a column of R" % X.what)
        # Q.block(0, 0, Q.rows(), k).applyOnTheRight(p, q, J)
        if name == "Q.block" and own:
            argt = p.arg_tokens()
            flat = ["".join(t[1] for t in a) for a in argt]
            if len(argt) == 4 and flat[:3] == ["0", "0", "Q.rows()"] and p.at("op", ".") and p.peek(1) == ("id", "applyOnTheRight"):
                X.ex(argt[3], env, "N")
                p.eat(); p.eat()
                b = p.args(); p.end()
                if len(b) == 3 and b[2][0] == "J":
                    stv = u.val(env, u.store)[1]
                    return X.bind(env, u.store, "ST", "(jr_apply_cols O %s %s %s %s)" % (stv, sx.coerce(b[0], "N"), sx.coerce(b[1], "N"), b[2][1]), rest, base="st")
            raise OutOfGrammar("%s: call on a block of Q" % X.what)
        return None

    def loop_body_ok(self, body_text):
        return True


# ----------------------------------------------------------------------------- units

RESERVED = {"T", "H", "O", "St", "S", "st", "fun", "let", "in", "if", "then", "else", "match", "end", "at", "as", "return", "fuelS", "fuelN", "max", "min"}
PTYPES = {"real_t": "S", "bool": "B", "crvec": "V", "rvec": "V", "index_t": "N", "length_t": "N", "Index": "N", "VecV": "V", "VecB": "V", "VecX": "V",
          "LimitedMemoryQR": "ST", "rmat": "M"}


def pname(c):
    n = sx.ascii_name(c)
    if n.startswith("g_"):
        n = "a_" + n
    return n + "_" if n in RESERVED else n


def find_body(src, pattern, what):
    ms = list(re.finditer(pattern, src, flags=re.S))
    if len(ms) != 1:
        raise OutOfGrammar("%s: expected exactly one definition, found %d" % (what, len(ms)))
    m = ms[0]
    k = sx.balanced(src, m.end() - 1, what)
    b = src.find("{", k)
    if b < 0 or not re.fullmatch(r"\s*(const)?\s*", src[k + 1:b]):
        raise OutOfGrammar("%s: unexpected text before the body: %r" % (what, src[k + 1:b][:40]))
    e = sx.balanced(src, b, what)
    return sx.flat(src[m.end():k]), src[b + 1:e], "const" in src[k + 1:b]


def parse_params(text, what):
    out = []
    depth, cur, parts = 0, "", []
    for ch in text:
        if ch in "(<[{":
            depth += 1
        elif ch in ")>]}":
            depth -= 1
        if ch == "," and depth == 0:
            parts.append(cur); cur = ""
        else:
            cur += ch
    if cur.strip():
        parts.append(cur)
    for p in parts:
        p = p.split("=")[0]
        p = re.sub(r"<[^<>]*>", "", p)
        ids = [x for x in re.findall(r"[^\s&*]+", p.replace("&", " & ")) if x not in ("const", "&")]
        if len(ids) != 2:
            raise OutOfGrammar("%s: parameter %r" % (what, p))
        t = PTYPES.get(ids[0])
        if t is None:
            raise OutOfGrammar("%s: parameter type %r" % (what, ids[0]))
        out.append((sx.nfc(ids[1]), t))
    return out


def brace_list(toks, what):
    """`{ a, b, ... }` -> list of token lists (one nesting level is flattened: {{a, b}, c} -> [a, b, c])"""
    if not toks or toks[0] != ("op", "{") or toks[-1] != ("op", "}"):
        raise OutOfGrammar("%s: braced return expected" % what)
    out, cur, depth = [], [], 0
    for t in toks[1:-1]:
        if t in (("op", "{"), ("op", "}")):
            continue
        if t in (("op", "("), ("op", "[")):
            depth += 1
        elif t in (("op", ")"), ("op", "]")):
            depth -= 1
        if t == ("op", ",") and depth == 0:
            out.append(cur); cur = []
        else:
            cur.append(t)
    out.append(cur)
    return out


def run_unit(gname, body, cells, sig, result, hooks, store=None, comment="the function", prefix="", brace=None, ret_this=False):
    """cells: [(cpp name, type, ident)]; result: ('pure', ty) | ('brace', n) | ('state', [cpp names]) ; returns defs"""
    what = gname
    ast = parse_body(body, what)
    u = sx.Unit(gname, hooks)
    X = LExec(u, what)
    env = sx.Env()
    u.store = store or "<none>"
    for c, t, ident in cells:
        env.cells[c] = sx.Cell(t, ident)
        u.types[ident] = t
    throws = "throw" in json.dumps(ast)

    def shape(env2):
        vs = [u.val(env2, n)[1] for n in result[1]]
        return vs[0] if len(vs) == 1 else "(%s)" % ", ".join(vs)
    if result[0] == "pure":
        def ret(env2, v):
            if v is None or v == "throw":
                raise OutOfGrammar("%s: bare return / throw in a pure function" % what)
            return X.ex(v, env2, result[1])[1]

        def k(env2):
            raise OutOfGrammar("%s: control reaches the end without return" % what)
        rtype = sx.GTYPE[result[1]]
    elif result[0] == "brace":
        def ret(env2, v):
            if v is None or v == "throw":
                raise OutOfGrammar("%s: bare return / throw" % what)
            parts = brace_list(v, what)
            if len(parts) != result[1]:
                raise OutOfGrammar("%s: %d components expected" % (what, result[1]))
            return "(%s)" % ", ".join(X.ex(t, env2, "N")[1] for t in parts)

        def k(env2):
            raise OutOfGrammar("%s: control reaches the end without return" % what)
        rtype = "(%s)%%type" % " * ".join(["nat"] * result[1])
    else:
        def ret(env2, v):
            if v == "throw":
                return "None"
            if v is not None and v != [("op", "*"), ("id", "this")]:
                raise OutOfGrammar("%s: value returned from a void function" % what)
            if ret_this and v is None:
                raise OutOfGrammar("%s: bare return in an operator that returns *this" % what)
            if not ret_this and v is not None:
                raise OutOfGrammar("%s: `return *this` in a void function" % what)
            return "(Some %s)" % shape(env2) if throws else shape(env2)

        def k(env2):
            if ret_this:
                raise OutOfGrammar("%s: control reaches the end without `return *this`" % what)
            return "(Some %s)" % shape(env2) if throws else shape(env2)
        tys = [sx.GTYPE[env.get(n).ty] for n in result[1]]
        rtype = tys[0] if len(tys) == 1 else "(%s)%%type" % " * ".join(tys)
        if throws:
            rtype = "option (%s)" % rtype
    body_g = X.block(ast, 0, env, k, ret)
    u.defs.append((gname, "%s : %s" % (" ".join(sig), rtype), prefix + body_g, comment))
    return u.defs


def qr_unit(repo_src, name, gname, kind, pattern=None, outs=()):
    """a member function of LimitedMemoryQR.  kind: 'pure:<ty>' | 'void' | 'brace:<n>'"""
    pattern = pattern or (r"(?:\b(?:length_t|index_t|real_t|void|mat)|>)\s+%s\s*\(" % name)
    ptext, body, const = find_body(repo_src, pattern, gname)
    params = parse_params(ptext, gname)
    cells = [("st", "ST", "st")] + [(c, t, pname(c)) for c, t in params]
    sig = ["(st : St)"] + ["(%s : %s)" % (pname(c), sx.GTYPE[t]) for c, t in params]
    if kind.startswith("pure:"):
        result = ("pure", kind[5:])
    elif kind.startswith("brace:"):
        result = ("brace", int(kind[6:]))
    else:
        result = ("state", list(outs) if const else ["st"] + list(outs))
    return run_unit(gname, body, cells, sig, result, QHooks(), store="st", comment="LimitedMemoryQR::%s" % name)


def check_delegation(src, pattern, expected, what):
    ptext, body, _ = find_body(src, pattern, what)
    if sx.flat(body) != expected:
        raise OutOfGrammar("%s: body is %r, expected the delegation %r" % (what, sx.flat(body)[:80], expected))


def ring_units(src):
    defs = []
    tri = lambda n: "let '(%s_zb, %s_c, %s_max) := %s in\n    " % (n, n, n, n)
    # CircularIndices ==  (and the iterator comparisons that delegate to it)
    ptext, body, _ = find_body(src, r"bool\s+operator==\s*\(\s*(?=CircularIndices<IndexT>\s+a\s*,\s*CircularIndices<IndexT>\s+b\s*\))", "g_ci_eq")
    check_delegation(src, r"bool\s+operator!=\s*\(\s*(?=CircularIndices<IndexT>\s+a)", "return !(a == b);", "g_ci_eq")
    check_delegation(src, r"bool\s+operator==\s*\(\s*(?=CircularIndexIterator<IndexT>\s+a)", "return a.i == b.i;", "g_ci_eq")
    check_delegation(src, r"bool\s+operator!=\s*\(\s*(?=CircularIndexIterator<IndexT>\s+a)", "return !(a == b);", "g_ci_eq")
    check_delegation(src, r"bool\s+operator==\s*\(\s*(?=ReverseCircularIndexIterator<IndexT>\s+a)", "return a.forwardit == b.forwardit;", "g_ci_eq")
    check_delegation(src, r"bool\s+operator!=\s*\(\s*(?=ReverseCircularIndexIterator<IndexT>\s+a)", "return !(a == b);", "g_ci_eq")
    cells = [("a.zerobased", "N", "a_zb"), ("a.circular", "N", "a_c"), ("b.zerobased", "N", "b_zb"), ("b.circular", "N", "b_c")]
    defs += run_unit("g_ci_eq", body, cells, ["(a b : nat * nat * nat)"], ("pure", "B"), QHooks(), prefix=tri("a") + tri("b"),
                     comment="CircularIndices operator== (iterators compare their indices)")
    return defs


def iter_unit(src, which):
    gname = "g_cit_" + which
    cls = src[src.index("struct CircularIndexIterator"):src.index("struct ReverseCircularIndexIterator")]
    op = "\\+\\+" if which == "incr" else "--"
    ptext, body, _ = find_body(cls, r"CircularIndexIterator\s*&\s*operator%s\s*\(" % op, gname)
    if ptext.strip():
        raise OutOfGrammar("%s: prefix operator expected" % gname)
    cells = [("i.zerobased", "N", "i_zb"), ("i.circular", "N", "i_c"), ("max", "N", "i_max")]
    defs = run_unit(gname, body, cells, ["(it : nat * nat * nat)"], ("state", ["i.zerobased", "i.circular", "max"]), QHooks(),
                    prefix="let '(i_zb, i_c, i_max) := it in\n    ", comment="CircularIndexIterator::operator%s" % ("++" if which == "incr" else "--"), ret_this=True)
    if which == "decr":
        rcls = src[src.index("struct ReverseCircularIndexIterator"):src.index("class CircularRange")]
        check_delegation(rcls, r"reference\s+operator\*\s*\(", "auto tmp = forwardit; return *(--tmp);", "g_rit_deref")
        check_delegation(rcls, r"ReverseCircularIndexIterator\s*&\s*operator\+\+\s*\(", "--forwardit; return *this;", "g_rit_incr")
        defs.append(("g_rit_deref", "(it : nat * nat * nat) : (nat * nat * nat)%type", "(g_cit_decr it)", "ReverseCircularIndexIterator::operator* : *(--copy of forwardit)"))
        defs.append(("g_rit_incr", "(it : nat * nat * nat) : (nat * nat * nat)%type", "(g_cit_decr it)", "ReverseCircularIndexIterator::operator++ : --forwardit"))
    return defs


def range_units(src):
    cls = src[src.index("class CircularRange"):src.index("class ReverseCircularRange")]
    rcls = src[src.index("class ReverseCircularRange"):]
    defs = []
    cells = [("size", "N", "r_size"), ("idx1", "N", "r_idx1"), ("idx2", "N", "r_idx2"), ("max", "N", "r_max")]
    for w in ("begin", "end"):
        ptext, body, _ = find_body(cls, r"\biterator\s+%s\s*\(" % w, "g_range_" + w)
        defs += run_unit("g_range_" + w, body, cells, ["(rg : nat * nat * nat * nat)"], ("brace", 3), QHooks(),
                         prefix="let '(r_size, r_idx1, r_idx2, r_max) := rg in\n    ", comment="CircularRange::%s" % w)
    check_delegation(cls, r"\breverse_iterator\s+rbegin\s*\(", "return reverse_iterator{end()};", "g_rrange_begin")
    check_delegation(cls, r"\breverse_iterator\s+rend\s*\(", "return reverse_iterator{begin()};", "g_rrange_end")
    check_delegation(rcls, r"\biterator\s+begin\s*\(", "return forwardrange.rbegin();", "g_rrange_begin")
    check_delegation(rcls, r"\biterator\s+end\s*\(", "return forwardrange.rend();", "g_rrange_end")
    defs.append(("g_rrange_begin", "(rg : nat * nat * nat * nat) : (nat * nat * nat)%type", "(g_range_end rg)", "ReverseCircularRange::begin = reverse_iterator{forward end()}"))
    defs.append(("g_rrange_end", "(rg : nat * nat * nat * nat) : (nat * nat * nat)%type", "(g_range_begin rg)", "ReverseCircularRange::end = reverse_iterator{forward begin()}"))
    return defs


def ring_iter_unit(q):
    check_delegation(q, r">\s+ring_reverse_iter\s*\(", "return ring_iter();", "g_ring_iter")
    return qr_unit(q, "ring_iter", "g_ring_iter", "brace:4")


# AndersonAccel: the members are cells; every member function returns all of them
AA_MEMBERS = [("qr", "ST"), ("G", "M"), ("rₗₐₛₜ", "V"), ("γ_LS", "V"), ("initialized", "B")]
AA_ATOMS = {"params.memory": ("N", "p_memory"), "params.min_div_fac": ("S", "p_min_div_fac")}


class AHooks(QHooks):
    def call_stmt(self, X, env, toks, rest):
        u = X.u
        name, i = gl.accessor_name(toks)
        if name == "minimize_update_anderson" and i < len(toks):
            p = LExpr(toks[i:], env, u, X.what)
            argt = p.arg_tokens(); p.end()
            if len(argt) != 8:
                raise OutOfGrammar("%s: minimize_update_anderson arity" % X.what)
            tys = ["ST", "M", "V", "V", "V", "S", "V", "V"]
            vals = [X.ex(t, env, ty)[1] for t, ty in zip(argt, tys)]
            outs = []
            for j in (0, 1, 6, 7):
                if len(argt[j]) != 1 or not env.has(argt[j][0][1]):
                    raise OutOfGrammar("%s: by-reference argument of minimize_update_anderson is not a variable" % X.what)
                outs.append((argt[j][0][1], tys[j]))
            env2 = env.copy()
            ids = []
            for n, ty in outs:
                ident = u.fresh(X.base(n, ty), ty)
                env2.set(n, ty, ident)
                ids.append(ident)
            return "let '(%s) := g_minimize_update_anderson %s in\n    %s" % (", ".join(ids), " ".join(vals), rest(env2))
        if name is not None and i < len(toks) and name.endswith(".resize") and env.has(name[:-7]) and env.get(name[:-7]).ty in ("M", "V"):
            n = name[:-7]
            p = LExpr(toks[i:], env, u, X.what)
            a = p.args(); p.end()
            ty = env.get(n).ty
            if ty == "M" and len(a) == 2:
                return X.bind(env, n, "M", "(mzeros %s %s)" % (sx.coerce(a[0], "N"), sx.coerce(a[1], "N")), rest)
            if ty == "V" and len(a) == 1:
                return X.bind(env, n, "V", "(vzeros %s)" % sx.coerce(a[0], "N"), rest)
            raise OutOfGrammar("%s: resize arity" % X.what)
        if name in ("reset", "scale_R") and i < len(toks) and env.has("initialized") and u.name != "g_aa_" + name:
            p = LExpr(toks[i:], env, u, X.what)
            a = p.args(); p.end()
            if len(a) != (0 if name == "reset" else 1):
                raise OutOfGrammar("%s: arity of %s" % (X.what, name))
            env2 = env.copy()
            ids, vals = [], []
            for n, ty in AA_MEMBERS:
                vals.append(u.val(env, n)[1])
                ident = u.fresh(X.base(n, ty), ty)
                env2.set(n, ty, ident)
                ids.append(ident)
            return "let '(%s) := g_aa_%s p_memory p_min_div_fac %s in\n    %s" % (
                ", ".join(ids), name, " ".join(vals + [sx.coerce(x, "S") for x in a]), rest(env2))
        return QHooks.call_stmt(self, X, env, toks, rest)


def aa_unit(src, name, gname, pattern=None, outs=()):
    ptext, body, const = find_body(src, pattern or (r"\bvoid\s+%s\s*\(" % name), gname)
    params = parse_params(ptext, gname)
    cells = [(c, t, pname(c)) for c, t in AA_MEMBERS] + [(c, t, pname(c)) for c, t in params]
    sig = ["(p_memory : nat) (p_min_div_fac : T)"] + ["(%s : %s)" % (pname(c), sx.GTYPE[t]) for c, t in AA_MEMBERS + params]
    return run_unit(gname, body, cells, sig, ("state", [c for c, _ in AA_MEMBERS] + list(outs)), AHooks(AA_ATOMS), comment="AndersonAccel::%s" % name)


def mua_unit(src):
    gname = "g_minimize_update_anderson"
    ptext, body, _ = find_body(src, r"\binline\s+void\s+minimize_update_anderson\s*\(", gname)
    params = parse_params(ptext, gname)
    if [t for _, t in params] != ["ST", "M", "V", "V", "V", "S", "V", "V"]:
        raise OutOfGrammar("%s: parameter list" % gname)
    cells = [(c, t, pname(c)) for c, t in params]
    sig = ["(%s : %s)" % (pname(c), sx.GTYPE[t]) for c, t in params]
    outs = [params[j][0] for j in (0, 1, 6, 7)]
    return run_unit(gname, body, cells, sig, ("state", outs), AHooks(), comment="minimize_update_anderson")


def units():
    S = {}

    def src(repo, rel):
        if (repo, rel) not in S:
            S[(repo, rel)] = prep(open(os.path.join(repo, rel), encoding="utf-8").read())
        return S[(repo, rel)]
    q = lambda r: src(r, QRH)
    simple = lambda n, g, k: (n, lambda r: qr_unit(q(r), n, g, k))
    return [
        ("ci_eq", lambda r: ring_units(src(r, RING))),
        ("cit_incr", lambda r: iter_unit(src(r, RING), "incr")),
        ("cit_decr", lambda r: iter_unit(src(r, RING), "decr")),
        ("range", lambda r: range_units(src(r, RING))),
        simple("n", "g_n", "pure:N"), simple("m", "g_m", "pure:N"),
        simple("r_succ", "g_r_succ", "pure:N"), simple("r_pred", "g_r_pred", "pure:N"),
        simple("num_columns", "g_num_columns", "pure:N"), simple("ring_head", "g_ring_head", "pure:N"), simple("ring_tail", "g_ring_tail", "pure:N"),
        simple("ring_next", "g_ring_next", "pure:N"), simple("ring_prev", "g_ring_prev", "pure:N"),
        simple("current_history", "g_current_history", "pure:N"),
        simple("get_min_eig", "g_get_min_eig", "pure:XP"), simple("get_max_eig", "g_get_max_eig", "pure:XN"),
        ("ring_iter", lambda r: ring_iter_unit(q(r))),
        simple("reset", "g_reset", "void"),
        ("resize", lambda r: qr_unit(q(r), "resize", "g_resize", "void", pattern=r"\bvoid\s+resize\s*\(")),
        simple("add_column", "g_add_column", "void"),
        simple("remove_column", "g_remove_column", "void"),
        ("solve_col", lambda r: qr_unit(q(r), "solve_col", "g_solve_col", "void", outs=("x",))),
        simple("scale_R", "g_scale_R", "void"),
        simple("get_Q", "g_get_Q", "pure:M"),
        ("minimize_update_anderson", lambda r: mua_unit(src(r, AAH))),
        ("aa_resize", lambda r: aa_unit(src(r, AND), "resize", "g_aa_resize")),
        ("aa_reset", lambda r: aa_unit(src(r, AND), "reset", "g_aa_reset")),
        ("aa_scale_R", lambda r: aa_unit(src(r, AND), "scale_R", "g_aa_scale_R")),
        ("aa_initialize", lambda r: aa_unit(src(r, AND), "initialize", "g_aa_initialize")),
        ("aa_compute", lambda r: aa_unit(src(r, AND), "compute", "g_aa_compute", pattern=r"\bvoid\s+compute\s*\((?=\s*crvec\s+gₖ\s*,\s*crvec\s+rₖ)", outs=("xₖ_aa",))),
    ]


HEADER = ["From Coq Require Import ZArith List Bool Arith.",
          "From Alpaqa Require Import Num Vec LmqrGenLib.",
          "Import ListNotations.",
          "Local Open Scope num_scope.",
          "",
          "(* every definition takes the same context: the number system, the matrix store O, the fuels of the two kinds of while loops *)",
          ""]
END = "(* end of LmqrGen *)"


def write(repo=None, outfile=None, write_ref=False):
    repo = repo or os.environ.get("VERIF_REPO", "/repo")
    outfile = outfile or os.path.join(os.environ.get("VERIF_GEN_OUT") or os.path.join(VERIF, "coq", "gen"), "LmqrGen.v")
    gl.END = END
    return gl.write_generic(repo, outfile, write_ref, units, HEADER, END, REF, "LmqrGen.ref.v",
                            "LmqrGen.v — by translate/gen_lmqr.py", " , ".join(os.path.join(repo, x) for x in (RING, QRH, AAH, AND)), BINDERS, CTX)


if __name__ == "__main__":
    argv = [a for a in sys.argv[1:] if not a.startswith("--")]
    try:
        st = write(*(argv[:2]), write_ref="--write-ref" in sys.argv)
    except OutOfGrammar as ex:
        print(json.dumps({"status": "translator-failed", "detail": str(ex)}, ensure_ascii=False))
        sys.exit(3)
    print(json.dumps(st, ensure_ascii=False, sort_keys=True))
