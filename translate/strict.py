"""strict.py — consume-everything helpers shared by the translators that read statement SITES out of a larger function
(gen_C08_fista.py, gen_kernels.py, gen_C07_alm.py).  Not a translator by itself.

The discipline: a site (the body of a lambda / loop / branch the translator takes kernels from) is split into its top-level
statements and EVERY statement must be accounted for, in order — either translated or equal to a statement the translator
knows and deliberately leaves to the correspondence check (`KNOWN` lists of the callers).  Anything else is out of grammar.
(tools/translator_mutation_audit.py checks this by mutation.)"""
import re


class Unaccounted(Exception):
    pass


def flat(s):
    return " ".join(s.split())


def _string_end(src, p):
    """src[p] is a quote: index just after the closing quote of the string / character literal"""
    q, c = p + 1, src[p]
    while q < len(src) and src[q] != c:
        q += 2 if src[q] == "\\" else 1
    if q >= len(src):
        raise Unaccounted("unterminated literal %r" % src[p:p + 30])
    return q + 1


def _partner(src, i):
    o = src[i]
    c = {"(": ")", "{": "}", "[": "]"}[o]
    d, p = 0, i
    while p < len(src):
        if src[p] in "\"'":
            p = _string_end(src, p)
            continue
        if src[p] == o:
            d += 1
        elif src[p] == c:
            d -= 1
            if d == 0:
                return p
        p += 1
    raise Unaccounted("unbalanced %s in %r" % (o, flat(src[i:i + 60])))


def _skip(src, p):
    while p < len(src) and src[p].isspace():
        p += 1
    return p


_IDC = "\\w" + chr(0x300) + "-" + chr(0x36f)      # identifier characters incl. combining accents


def _statement_end(src, p):
    """end (exclusive) of the statement starting at p (p is not white space)"""
    m = re.compile(r"(if\s+constexpr|if|for|while|switch)\b").match(src, p)
    if src[p] == "{":
        return _partner(src, p) + 1
    if m:
        q = _skip(src, m.end())
        if q >= len(src) or src[q] != "(":
            raise Unaccounted("control statement without condition: %r" % flat(src[p:p + 60]))
        e = _statement_end(src, _skip(src, _partner(src, q) + 1))
        if m.group(1).startswith("if"):
            q2 = _skip(src, e)
            if src.startswith("else", q2) and not re.match("[%s]" % _IDC, src[q2 + 4:q2 + 5] or " "):
                e = _statement_end(src, _skip(src, q2 + 4))
        return e
    m = re.compile(r"(do|else|try)\b").match(src, p)
    if m:
        raise Unaccounted("statement starting with %r" % m.group(1))
    q = p
    while q < len(src):
        c = src[q]
        if c in "\"'":
            q = _string_end(src, q)
        elif c == "{" and re.search(r"(\)|\bconst|\bnoexcept|\boverride|\})\s*$", src[p:q]):
            q = _partner(src, q) + 1              # a function body: the definition ends here unless an expression goes on (a lambda)
            r = _skip(src, q)
            if r >= len(src) or src[r] not in ";,).([":
                return q
        elif c in "([{":
            q = _partner(src, q) + 1
        elif c == ";":
            return q + 1
        elif c in ")]}":
            raise Unaccounted("unbalanced %s in %r" % (c, flat(src[p:q + 1])[-60:]))
        else:
            q += 1
    raise Unaccounted("statement without terminating ';': %r" % flat(src[p:])[:80])


def split_statements(src):
    """the top-level statements of a comment-free C++ statement sequence (flat text each); empty statements are dropped"""
    out, p = [], _skip(src, 0)
    while p < len(src):
        e = _statement_end(src, p)
        s = flat(src[p:e])
        if s != ";":
            out.append(s)
        p = _skip(src, e)
    return out


def statements_from(src, pos, n):
    """the n consecutive statements of src starting at pos (flat text each)"""
    out, p = [], _skip(src, pos)
    for _ in range(n):
        if p >= len(src) or src[p] == "}":
            raise Unaccounted("fewer than %d statements follow %r" % (n, flat(src[pos:pos + 40])))
        e = _statement_end(src, p)
        out.append(flat(src[p:e]))
        p = _skip(src, e)
    return out


def statement_at(src, pos):
    """the statement of src starting at pos"""
    return statements_from(src, pos, 1)[0]


def control(stmt, kw):
    """`kw (cond) body [else body2]` -> (cond, body text without the braces, else text or None); None when stmt is not that"""
    m = re.match(r"%s\s*\(" % kw, stmt)
    if not m:
        return None
    k = _partner(stmt, m.end() - 1)
    cond = flat(stmt[m.end():k])
    p = _skip(stmt, k + 1)
    e = _statement_end(stmt, p)
    body = stmt[p + 1:e - 1] if stmt[p] == "{" else stmt[p:e]
    rest = stmt[e:].strip()
    other = None
    if rest:
        if not rest.startswith("else"):
            raise Unaccounted("text after the body of %s: %r" % (kw, rest[:60]))
        r = rest[4:].strip()
        other = r[1:-1] if r.startswith("{") and _partner(r, 0) == len(r) - 1 else r
    return cond, body.strip(), other


def account(stmts, forms, what):
    """match the statement list against `forms` in order.  forms: list of (name, regex, quantifier) with quantifier
    '1' exactly once, '?' at most once, '*' any number; the regex must match the WHOLE flat statement.
    Returns {name: match (or list of matches for '*')}.  A statement that is not the next form -> Unaccounted."""
    res, i = {}, 0
    for name, rx, q in forms:
        c = re.compile(rx, re.S)
        if q == "*":
            ms = []
            while i < len(stmts) and c.fullmatch(stmts[i]):
                ms.append(c.fullmatch(stmts[i])); i += 1
            res[name] = ms
            continue
        m = c.fullmatch(stmts[i]) if i < len(stmts) else None
        if m:
            res[name] = m; i += 1
        elif q == "?":
            res[name] = None
        else:
            raise Unaccounted("%s: expected %s, found %r" % (what, name, stmts[i][:100] if i < len(stmts) else "<end>"))
    if i != len(stmts):
        raise Unaccounted("%s: statement not accounted for: %r" % (what, stmts[i][:100]))
    return res


def lit(s):
    """regex of a statement given literally (white space flexible)"""
    return r"\s*".join(re.escape(t) for t in re.findall(r"[%s]+|[^\s%s]" % (_IDC, _IDC), s))
