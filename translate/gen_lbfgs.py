#!/usr/bin/env python3
"""gen_lbfgs.py — translator G11a: alpaqa::LBFGS regenerated as Gallina from the C++ on every run.

Reads   <repo>/src/alpaqa/include/alpaqa/implementation/accelerators/lbfgs.tpp
            update_valid, update_sy_impl, update, apply, apply_masked_impl (incl. its local lambdas dotJ / axmyJ / scalJ),
            reset, resize, scale_y
        <repo>/src/alpaqa/include/alpaqa/accelerators/lbfgs.hpp
            CBFGSParams::operator bool, succ, pred, current_history, foreach_fwd, foreach_rev
writes  coq/gen/LbfgsGen.v: per unit (= C++ function) the lambda-lifted per-index step functions of its loops
        (g_apply_rev_step, g_apply_fwd_step, g_apply_masked_impl_rev_step, ..._fwd_step, g_scale_y_for1_step, ...), its local
        lambdas, and the function itself (loops = fold_left <step> <generated index list>), over the `Num` class and the abstract
        column store `store_ops` of coq/theories/LbfgsGenLib.v.  The iteration ORDER of foreach_fwd / foreach_rev is a generated list
        expression (g_foreach_fwd / g_foreach_rev).
coq/theories/LbfgsGenEq.v proves every generated piece equal to the corresponding piece of the hand model Lbfgs.v.

Engine and grammar: translate/symexec.py.  Store conventions: `s(i)`, `y(i)`, `ρ(i)`, `α(i)` (also through `sto.`) read with
so_s / so_y / so_rho / so_alpha of the CURRENT store value and are assigned with the setters (no store forwarding: a read after a
write reads the written store); `α(i) = NaN<config_t>` is so_mark_alpha, `std::isnan(α(i))` is so_alpha_isnan; `idx`, `full` are
so_idx / so_full with their setters; `history()`, `n()` are so_history / so_n.  The loop functions foreach_fwd / foreach_rev
evaluate their index list on the store at loop entry (their bodies here never assign idx / full: checked, else out of grammar).
A unit that leaves the grammar is replaced by its block of the committed reference text translate/ref/LbfgsGen.ref.v and reported
as `translator-out-of-grammar` (never a violation by itself).

Usage: gen_lbfgs.py [repo] [outfile] [--write-ref]      Prints one JSON status line."""
import json, os, re, sys
sys.path.insert(0, os.path.dirname(os.path.abspath(__file__)))
import symexec as sx
from symexec import OutOfGrammar

HERE = os.path.dirname(os.path.abspath(__file__))
VERIF = os.path.dirname(HERE)
TPP = "src/alpaqa/include/alpaqa/implementation/accelerators/lbfgs.tpp"
HPP = "src/alpaqa/include/alpaqa/accelerators/lbfgs.hpp"
REF = os.path.join(HERE, "ref", "LbfgsGen.ref.v")

PARAM_ATOMS = {
    "params.memory": ("N", "(gp_memory P)"), "params.min_div_fac": ("S", "(gp_min_div_fac P)"), "params.min_abs_s": ("S", "(gp_min_abs_s P)"),
    "params.cbfgs.α": ("S", "(gp_cbfgs_alpha P)"), "params.cbfgs.ϵ": ("S", "(gp_cbfgs_eps P)"), "params.cbfgs": ("B", "(g_cbfgs_on)"),
    "params.force_pos_def": ("B", "(gp_force_pos_def P)"), "params.stepsize": ("B", "(gp_curvature P)"),
    "LBFGSStepSize::BasedOnCurvature": ("B", "true"), "LBFGSStepSize::BasedOnExternalStepSize": ("B", "false"),
    "Sign::Positive": ("B", "true"), "Sign::Negative": ("B", "false"),
}
ACCESSORS = {"s": ("V", "so_s", "so_set_s"), "y": ("V", "so_y", "so_set_y"), "ρ": ("S", "so_rho", "so_set_rho"), "α": ("S", "so_alpha", "so_set_alpha")}
MEMBERS = {"idx": ("N", "so_idx", "so_set_idx"), "full": ("B", "so_full", "so_set_full")}
GETTERS0 = {"history": ("N", "so_history"), "n": ("N", "so_n")}
for k in list(ACCESSORS):
    ACCESSORS["sto." + k] = ACCESSORS[k]
# other units callable from a unit: name -> (generated name, needs store, argument types (None = `params`, skipped), result)
CALLABLE = {"succ": ("g_succ", True, ["N"], "N"), "pred": ("g_pred", True, ["N"], "N"),
            "current_history": ("g_current_history", True, [], "N"),
            "update_valid": ("g_update_valid", False, [None, "S", "S", "S"], "B")}


def accessor_name(toks):
    """leading `id(.id)*` of a token list -> (dotted name, index of the next token)"""
    if not toks or toks[0][0] != "id":
        return None, 0
    parts, i = [toks[0][1]], 1
    while i + 1 < len(toks) and toks[i] in (("op", "."), ("op", "->")) and toks[i + 1][0] == "id":
        parts.append(toks[i + 1][1]); i += 2
    return ".".join(parts), i


class LHooks(sx.Hooks):
    def __init__(self, self_ctx=False):
        self.self_ctx = self_ctx      # operator bool of CBFGSParams: bare α / ϵ are the members

    def st(self, ex_or_X, env):
        u = ex_or_X.u
        return u.val(env, u.store)[1]

    def resolve(self, ex, name, call, has_rest):
        env, u = ex.env, ex.u
        if not call and name in PARAM_ATOMS:
            return PARAM_ATOMS[name]
        if self.self_ctx and not call and name in ("α", "ϵ"):
            return PARAM_ATOMS["params.cbfgs." + name]
        if not call and name in MEMBERS and env.has(u.store):
            ty, g, _ = MEMBERS[name]
            return (ty, "(%s O %s)" % (g, self.st(ex, env)))
        if call and name in GETTERS0 and env.has(u.store):
            if ex.args():
                raise OutOfGrammar("%s: %s() takes no argument" % (ex.what, name))
            ty, g = GETTERS0[name]
            return (ty, "(%s O %s)" % (g, self.st(ex, env)))
        if call and name in ACCESSORS and env.has(u.store):
            a = ex.args()
            if len(a) != 1:
                raise OutOfGrammar("%s: accessor %s arity" % (ex.what, name))
            ty, g, _ = ACCESSORS[name]
            return (ty, "(%s O %s %s)" % (g, self.st(ex, env), sx.coerce(a[0], "N", ex.what)))
        if call and name in CALLABLE:
            g, needs, tys, rt = CALLABLE[name]
            argt = ex.arg_tokens()
            if len(argt) != len(tys):
                raise OutOfGrammar("%s: arity of %s" % (ex.what, name))
            out = []
            for t, ty in zip(argt, tys):
                if ty is None:
                    if t != [("id", "params")]:
                        raise OutOfGrammar("%s: %s called with other parameters than `params`" % (ex.what, name))
                    continue
                out.append(u.X.ex(t, env, ty)[1])
            if needs and not env.has(u.store):
                raise OutOfGrammar("%s: %s outside a member function" % (ex.what, name))
            return (rt, "(%s)" % " ".join([g] + ([self.st(ex, env)] if needs else []) + out))
        if not call and name == "NaN_config_t":
            raise OutOfGrammar("%s: NaN<config_t> outside `α(i) = NaN<config_t>`" % ex.what)
        return None

    def special_call(self, ex, name):
        if name != "std::isnan":
            return None
        # std::isnan(α(i))
        if ex.peek(1) in (("id", "α"), ) and ex.peek(2) == ("op", "("):
            save = ex.i
            ex.eat("op", "(")
            ex.eat("id")
            a = ex.args()
            if len(a) == 1 and ex.at("op", ")"):
                ex.eat()
                return ("B", "(so_alpha_isnan O %s %s)" % (self.st(ex, ex.env), sx.coerce(a[0], "N", ex.what)))
            ex.i = save
        return None

    def assign_special(self, X, env, lhs, op, rhs, rest):
        u = X.u
        name, i = accessor_name(lhs)
        if name is None or not env.has(u.store):
            return None
        if name in MEMBERS and i == len(lhs) and not env.has(name):
            st = self.st(X, env)
            ty, g, setter = MEMBERS[name]
            cur = (ty, "(%s O %s)" % (g, st))
            e = X.ex(rhs, env)
            return X.bind(env, u.store, "ST", "(%s O %s %s)" % (setter, st, X.compound(ty, cur, op, e)), rest, base="st")
        if name in ACCESSORS and i < len(lhs) and lhs[i] == ("op", "(") and lhs[-1] == ("op", ")") and not env.has(name):
            st = self.st(X, env)
            ty, g, setter = ACCESSORS[name]
            j = X.ex(lhs[i + 1:-1], env, "N")[1]
            if rhs == [("id", "NaN_config_t")]:
                if name not in ("α", "sto.α") or op != "=":
                    raise OutOfGrammar("%s: NaN<config_t> stored elsewhere than α(i)" % X.what)
                return X.bind(env, u.store, "ST", "(so_mark_alpha O %s %s)" % (st, j), rest, base="st")
            cur = (ty, "(%s O %s %s)" % (g, st, j))
            e = X.ex(rhs, env)
            return X.bind(env, u.store, "ST", "(%s O %s %s %s)" % (setter, st, j, X.compound(ty, cur, op, e)), rest, base="st")
        return None

    def call_stmt(self, X, env, toks, rest):
        u = X.u
        name, i = accessor_name(toks)
        if name == "sto.resize" and env.has(u.store):
            p = sx.Expr(toks[i:], env, u, X.what)
            a = p.args(); p.end()
            if len(a) != 2:
                raise OutOfGrammar("%s: sto.resize arity" % X.what)
            return X.bind(env, u.store, "ST", "(so_resize O %s %s %s)" % (self.st(X, env), sx.coerce(a[0], "N"), sx.coerce(a[1], "N")), rest, base="st")
        if name == "reset" and toks[i:] == [("op", "("), ("op", ")")] and env.has(u.store):
            return X.bind(env, u.store, "ST", "(g_reset %s)" % self.st(X, env), rest, base="st")
        return None

    def loop_order(self, X, env, fname):
        if fname in ("foreach_rev", "foreach_fwd") and env.has(X.u.store):
            return "(g_%s %s)" % (fname, self.st(X, env))
        return None

    def loop_tag(self, fname):
        return {"foreach_rev": "rev", "foreach_fwd": "fwd"}.get(fname, sx.ascii_name(fname))

    def loop_body_ok(self, body_text):
        # idx, full, history() decide the index lists of foreach_fwd / foreach_rev and the bounds of the for loops
        return not re.search(r"\b(so_set_idx|so_set_full|so_resize|g_reset|g_resize|g_update_sy_impl)\b", body_text)


# ----------------------------------------------------------------------------- units

RESERVED = {"T", "H", "O", "P", "St", "pw", "S", "st", "fun", "let", "in", "if", "then", "else", "match", "end", "at", "as", "return"}


def pname(c):
    n = sx.ascii_name(c)
    return n + "_" if n in RESERVED else n


def parse_params(text, override, what):
    """C++ parameter list -> [(cpp name, type code)] (the `params` argument of the static function is dropped)"""
    out = []
    if not text.strip():
        return out
    for p in text.split(","):
        ids = re.findall(r"[^\s&*]+", p.replace("&", " & "))
        ids = [x for x in ids if x not in ("const", "&")]
        if len(ids) < 2:
            raise OutOfGrammar("%s: parameter %r" % (what, p))
        name, ty = sx.nfc(ids[-1]), ids[0]
        if name == "params":
            continue
        if name in override:
            out.append((name, override[name]))
            continue
        t = {"real_t": "S", "bool": "B", "crvec": "V", "rvec": "V", "index_t": "N", "length_t": "N"}.get(ty)
        if t is None:
            raise OutOfGrammar("%s: parameter type %r" % (what, ty))
        out.append((name, t))
    return out


def src_of(repo, rel):
    s = sx.strip_comments(open(os.path.join(repo, rel), encoding="utf-8").read())
    return s.replace("NaN<config_t>", "NaN_config_t")


def unit_function(repo, rel, pattern, gname, kind, override=None, outs=(), self_ctx=False, store=True):
    """kind: 'pure:<ty>' | 'bool' | 'void'.  outs: by-reference parameters returned with the store."""
    what = gname
    ptext, body = sx.find_function_body(src_of(repo, rel), pattern, what)
    params = parse_params(ptext, override or {}, what)
    ast = sx.parse_body(body, what)
    hooks = LHooks(self_ctx)
    u = sx.Unit(gname, hooks)
    X = sx.Exec(u, what)
    env = sx.Env()
    sig = []
    if store:
        env.cells["st"] = sx.Cell("ST", "st")
        u.types["st"] = "ST"
        u.store = "st"
        sig.append("(st : St)")
    else:
        u.store = "<none>"
    for c, t in params:
        env.cells[c] = sx.Cell(t, pname(c))
        u.types[pname(c)] = t
        sig.append("(%s : %s)" % (pname(c), sx.GTYPE[t]))
    throws = "throw" in json.dumps(ast)
    for o in outs:
        if o not in env.cells:
            raise OutOfGrammar("%s: by-reference parameter %s missing" % (what, o))

    def shape(env2, r):
        comps = ([r] if r is not None else []) + [u.val(env2, o)[1] for o in outs] + ([u.val(env2, "st")[1]] if store else [])
        return comps[0] if len(comps) == 1 else "(%s)" % ", ".join(comps)

    if kind.startswith("pure:"):
        rt = kind[5:]

        def ret(env2, v):
            if v is None or v == "throw":
                raise OutOfGrammar("%s: bare return / throw in a pure function" % what)
            return X.ex(v, env2, rt)[1]

        def k(env2):
            raise OutOfGrammar("%s: control reaches the end without return" % what)
        rtype = sx.GTYPE[rt]
    elif kind == "bool":
        def ret(env2, v):
            if v == "throw":
                return shape(env2, "GThrow")
            if v is None:
                raise OutOfGrammar("%s: bare return in a bool function" % what)
            if v and v[0] == ("id", "update_sy_impl") and outs == ():          # tail call of another unit with the same result shape
                p = sx.Expr(v, env2, u, what)
                p.eat("id")
                argt = p.arg_tokens(); p.end()
                tys = ["V", "V", "S", "B"]
                if len(argt) != 4 or throws:
                    raise OutOfGrammar("%s: tail call of update_sy_impl" % what)
                return "(g_update_sy_impl %s %s)" % (u.val(env2, "st")[1], " ".join(X.ex(t, env2, ty)[1] for t, ty in zip(argt, tys)))
            b = X.ex(v, env2, "B")[1]
            return shape(env2, "(GRet %s)" % b if throws else b)

        def k(env2):
            raise OutOfGrammar("%s: control reaches the end without return" % what)
        rtype = " * ".join((["gres"] if throws else ["bool"]) + [sx.GTYPE[env.get(o).ty] for o in outs] + ["St"])
    else:
        def ret(env2, v):
            if v == "throw":
                return "None"
            if v is not None:
                raise OutOfGrammar("%s: value returned from a void function" % what)
            return "(Some %s)" % shape(env2, None) if throws else shape(env2, None)

        def k(env2):
            return "(Some %s)" % shape(env2, None) if throws else shape(env2, None)
        rtype = " * ".join([sx.GTYPE[env.get(o).ty] for o in outs] + ["St"])
        if throws:
            rtype = "option (%s)" % rtype
    body_g = X.block(ast, 0, env, k, ret)
    u.defs.append((gname, "%s : %s" % (" ".join(sig), rtype), body_g, sx.flat(pattern.replace("\\s*\\(", "").replace("\\", "")) + " — the function"))
    return u.defs


def unit_foreach(repo, which):
    """foreach_fwd / foreach_rev: the visited indices as a list expression"""
    what = "g_" + which
    ptext, body = sx.find_function_body(src_of(repo, HPP), r"\bvoid\s+%s\s*\(" % which, what)
    m = re.fullmatch(r"const F ?& ?(\w+)", ptext)
    if not m:
        raise OutOfGrammar("%s: parameters %r" % (what, ptext))
    fun = m.group(1)
    ast = sx.parse_body(body, what)
    u = sx.Unit(what, LHooks())
    X = sx.Exec(u, what)
    env = sx.Env()
    env.cells["st"] = sx.Cell("ST", "st")
    u.store = "st"
    segs = []

    def order_of(s):
        if s[0] not in ("for_up", "for_down"):
            raise OutOfGrammar("%s: statement %s" % (what, s[0]))
        _, var, lo, hi, b = s
        if b != [("call", [("id", fun), ("op", "("), ("id", var), ("op", ")")])]:
            raise OutOfGrammar("%s: loop body is not `%s(%s)`" % (what, fun, var))
        if s[0] == "for_down":
            lo, hi = hi, lo
        a, bb = X.ex(lo, env), X.ex(hi, env, "N")[1]
        if a[0] == "L" and a[2] == 0:
            sq = "(seq 0 %s)" % bb
        else:
            as_ = sx.coerce(a, "N", what)
            sq = "(seq %s (Nat.sub %s %s))" % (as_, bb, as_)
        return sq if s[0] == "for_up" else "(rev %s)" % sq
    for s in ast:
        if s[0] == "if" and s[3] is None and len(s[2]) == 1:
            segs.append("(if %s then %s else [])" % (X.ex(s[1], env, "B")[1], order_of(s[2][0])))
        else:
            segs.append(order_of(s))
    if not segs:
        raise OutOfGrammar("%s: empty" % what)
    return [(what, "(st : St) : list nat", " ++ ".join(segs), "%s: the indices in the order `%s` is called" % (which, fun))]


def units():
    A = "src"
    return [
        ("cbfgs_on", lambda r: unit_function(r, HPP, r"\bexplicit\s+operator\s+bool\s*\(", "g_cbfgs_on", "pure:B", self_ctx=True, store=False)),
        ("update_valid", lambda r: unit_function(r, TPP, r"LBFGS<Conf>::update_valid\s*\(", "g_update_valid", "pure:B", store=False)),
        ("succ", lambda r: unit_function(r, HPP, r"\bindex_t\s+succ\s*\(", "g_succ", "pure:N")),
        ("pred", lambda r: unit_function(r, HPP, r"\bindex_t\s+pred\s*\(", "g_pred", "pure:N")),
        ("current_history", lambda r: unit_function(r, HPP, r"\blength_t\s+current_history\s*\(", "g_current_history", "pure:N")),
        ("foreach_fwd", lambda r: unit_foreach(r, "foreach_fwd")),
        ("foreach_rev", lambda r: unit_foreach(r, "foreach_rev")),
        ("update_sy_impl", lambda r: unit_function(r, TPP, r"LBFGS<Conf>::update_sy_impl\s*\(", "g_update_sy_impl", "bool",
                                                   override={"s": "V", "y": "V"})),
        ("update", lambda r: unit_function(r, TPP, r"LBFGS<Conf>::update\s*\(", "g_update", "bool", override={"sign": "B"})),
        ("apply", lambda r: unit_function(r, TPP, r"LBFGS<Conf>::apply\s*\(", "g_apply", "bool", outs=("q",))),
        ("apply_masked_impl", lambda r: unit_function(r, TPP, r"LBFGS<Conf>::apply_masked_impl\s*\(", "g_apply_masked_impl", "bool",
                                                      override={"J": "NL"}, outs=("q",))),
        ("reset", lambda r: unit_function(r, TPP, r"LBFGS<Conf>::reset\s*\(", "g_reset", "void")),
        ("resize", lambda r: unit_function(r, TPP, r"LBFGS<Conf>::resize\s*\(", "g_resize", "void")),
        ("scale_y", lambda r: unit_function(r, TPP, r"LBFGS<Conf>::scale_y\s*\(", "g_scale_y", "void")),
    ]


HEADER = ["From Coq Require Import ZArith List Bool Arith.",
          "From Alpaqa Require Import Num Vec LbfgsGenLib.",
          "Import ListNotations.",
          "Local Open Scope num_scope.",
          "",
          "(* every definition takes the same context: the number system, the column store O, std::pow, the parameters P *)",
          ""]
BINDERS = "{T : Type} {HN : Num T} {St : Type} (O : store_ops T St) (pw : T -> T -> T) (P : gparams T)"
CTX_ARGS = "O pw P"
END = "(* end of LbfgsGen *)"


def parse_ref(path):
    out, cur = {}, None
    if not os.path.exists(path):
        return out
    for line in open(path, encoding="utf-8"):
        m = re.match(r"\(\* unit (\S+) \*\)", line)
        if m:
            cur = m.group(1); out[cur] = []
        elif line.startswith(END):
            cur = None
        elif cur is not None:
            out[cur].append(line.rstrip("\n"))
    for k in out:
        while out[k] and not out[k][-1].strip():
            out[k].pop()
        out[k] = [l for l in out[k] if not l.startswith("(* OUT OF GRAMMAR")]
    return out


def generate(repo, units_fn, header, end, ref_path, refname, binders, ctx_args):
    ref = parse_ref(ref_path)
    lines, oog, names, ntr = [], {}, [], 0
    for uname, fn in units_fn():
        lines.append("(* unit %s *)" % uname)
        try:
            defs = fn(repo)
            lines += sx.render_defs(defs, "", binders, ctx_args)
            names += [d[0] for d in defs]
            ntr += len(defs)
        except (OutOfGrammar, OSError, UnicodeDecodeError, IndexError, KeyError, ValueError, RecursionError) as ex:
            if uname not in ref:
                raise OutOfGrammar("unit %s out of grammar (%s) and no reference text" % (uname, ex))
            oog[uname] = str(ex)[:300]
            lines.append("(* OUT OF GRAMMAR: %s — REFERENCE TEXT (translate/ref/%s) *)" % (sx.com(str(ex)[:300]), refname))
            lines += ref[uname]
            names += re.findall(r"^Definition (\S+)", "\n".join(ref[uname]), re.M)
        lines.append("")
    status = {"status": "translator-out-of-grammar" if oog else "ok", "definitions": len(names), "translated": ntr,
              "units": len(units_fn()), "out_of_grammar": oog, "names": names}
    return "\n".join(header + lines + [end]) + "\n", status


def write_generic(repo, outfile, write_ref, units_fn, header, end, ref_path, refname, title, origin, binders, ctx_args):
    body, status = generate(repo, units_fn, header, end, ref_path, refname, binders, ctx_args)
    if write_ref:
        if status["out_of_grammar"]:
            raise SystemExit("refusing to write a reference text from an out-of-grammar source: %s" % status["out_of_grammar"])
        os.makedirs(os.path.dirname(ref_path), exist_ok=True)
        open(ref_path, "w", encoding="utf-8").write(
            "(* %s — reference text of the translator (the translation of the source tree the framework was built against).\n"
            "   Used unit by unit ONLY when the current source leaves the translator's grammar. *)\n" % refname + body)
    st = dict(status)
    st.pop("names")
    txt = ("(* %s — GENERATED on every run; do not edit.\n   origin: %s\n   status: %s *)\n"
           % (title, origin, sx.com(json.dumps(st, ensure_ascii=False, sort_keys=True)))) + body
    os.makedirs(os.path.dirname(outfile), exist_ok=True)
    old = open(outfile, encoding="utf-8").read() if os.path.exists(outfile) else None
    if old != txt:
        open(outfile, "w", encoding="utf-8").write(txt)
    return status


def write(repo=None, outfile=None, write_ref=False):
    repo = repo or os.environ.get("VERIF_REPO", "/repo")
    outfile = outfile or os.path.join(os.environ.get("VERIF_GEN_OUT") or os.path.join(VERIF, "coq", "gen"), "LbfgsGen.v")
    return write_generic(repo, outfile, write_ref, units, HEADER, END, REF, "LbfgsGen.ref.v",
                         "LbfgsGen.v — by translate/gen_lbfgs.py", os.path.join(repo, TPP) + " , " + os.path.join(repo, HPP), BINDERS, CTX_ARGS)


if __name__ == "__main__":
    argv = [a for a in sys.argv[1:] if not a.startswith("--")]
    try:
        st = write(*(argv[:2]), write_ref="--write-ref" in sys.argv)
    except OutOfGrammar as ex:
        print(json.dumps({"status": "translator-failed", "detail": str(ex)}, ensure_ascii=False))
        sys.exit(3)
    print(json.dumps(st, ensure_ascii=False, sort_keys=True))
